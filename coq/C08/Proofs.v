(** C08 — lemmas (the property theorems are restated in C08/Props.v). *)
From Coq Require Import List String Bool Arith ZArith Lia.
From SV Require Import C08.Base C08.Gen C08.Model.
Import ListNotations.
Open Scope string_scope.
Open Scope list_scope.

(** ** The generated table, checked by computation over every control-flow path *)
Definition opts (ps : list path) : list path := match ps with [] => [(0, false)] | _ => ps end.

Definition check (stop : bool) (a : nat) (agg : bool) (b : nat) : bool :=
  if stop then Nat.eqb a 0 && agg && Nat.eqb b 0
  else Nat.eqb (a + (if agg then 1 else 0) + b) 1.

Definition total_ok (stop : bool) (row : arm_row) : bool :=
  match s0 row with
  | Some ps => negb stop && forallb (fun p => Nat.eqb (fst p) 1) (opts ps)
  | None =>
    forallb (fun p1 : path =>
      if snd p1 then negb stop && Nat.eqb (fst p1) 1 else
      forallb (fun p2 : path =>
        if snd p2 then negb stop && Nat.eqb (fst p1 + fst p2) 1 else
        let agg := Nat.ltb 0 (dests row) in
        match s4 row with
        | Some ps4 => forallb (fun p4 : path => check stop (fst p1 + fst p2) agg (fst p4)) (opts ps4)
        | None => check stop (fst p1 + fst p2) agg (if fallback_answers && negb agg then 1 else 0)
        end) (opts (s2 row))) (opts (s1 row))
  end.

Definition is_stop_name (name : string) : bool := (name =? "SoftStop") || (name =? "HardStop").

Definition in_table (name : string) : bool :=
  existsb (fun a => String.eqb (a_name a) name) arms_table.

Definition plain_paths (ps : list path) : bool :=
  match ps with [] => true | [(0, false)] => true | _ => false end.

(** no arm of read_channel / notify / notify_proxys handles the variant, no proxy is a destination *)
Definition unserved (name : string) : bool :=
  negb ((name =? "SoftStop") || (name =? "HardStop")) &&
  match s0 (row_of name) with None => true | Some _ => false end &&
  plain_paths (s1 (row_of name)) && plain_paths (s2 (row_of name)) &&
  Nat.eqb (dests (row_of name)) 0 &&
  match s4 (row_of name) with None => true | Some _ => false end.

Definition none_row_ : arm_row := mkRow "None" None [(0, false)] [(0, false)] 0 None.

Definition table_ok : bool :=
  forallb (fun row => total_ok (is_stop_name (a_name row)) row) arms_table &&
  total_ok false none_row_ && in_table "SoftStop" && in_table "HardStop" &&
  (* the stop verbs are not answered in read_channel itself *)
  forallb (fun row => negb (is_stop_name (a_name row)) || match s0 row with None => true | Some _ => false end) arms_table.

Lemma all_arms_one_final : table_ok = true.
Proof. vm_compute. reflexivity. Qed.

(** an arm that can leave before [config_state.dispatch] belongs to a variant
    [ConfigState::dispatch] accepts without touching the state *)
Definition skips_dispatch (row : arm_row) : bool :=
  match s0 row with Some _ => true | None => existsb (fun p : path => snd p) (opts (s1 row)) end.

Definition skips_ok : bool :=
  forallb (fun row => negb (skips_dispatch row) || existsb (String.eqb (a_name row)) state_noop) arms_table.

Lemma all_skips_are_noops : skips_ok = true.
Proof. vm_compute. reflexivity. Qed.

Lemma pick_in : forall i ps, In (pick i ps) (opts ps).
Proof.
  intros i ps. unfold pick, opts. destruct ps as [|p ps]; [destruct i; left; reflexivity|].
  cbn [hd]. destruct (Nat.lt_ge_cases i (List.length (p :: ps))) as [H|H].
  - apply nth_In. exact H.
  - rewrite nth_overflow by exact H. left. reflexivity.
Qed.

Section proofs.
  Variable view : Type.
  Variable payload : Type.
  Variable dispatch : view -> string -> payload -> view.

  Notation request := (request payload).
  Notation worker := (worker view).
  Notation handle := (handle dispatch).
  Notation notify := (notify dispatch).
  Notation step := (step dispatch).
  Notation run := (run dispatch).
  Notation event := (event payload).

  Lemma row_of_name : forall name, lookup name = None \/ a_name (row_of name) = name /\ In (row_of name) arms_table.
  Proof.
    intros name. unfold row_of, lookup. destruct (find _ arms_table) as [a|] eqn:E; [right|left; reflexivity].
    apply find_some in E. destruct E as [Hin He]. apply String.eqb_eq in He. auto.
  Qed.

  Lemma row_ok : forall name, total_ok (is_stop_name name) (row_of name) = true.
  Proof.
    intros name. pose proof all_arms_one_final as H. unfold table_ok in H.
    apply andb_true_iff in H; destruct H as [H HE]. apply andb_true_iff in H; destruct H as [H HD].
    apply andb_true_iff in H; destruct H as [H HC]. apply andb_true_iff in H; destruct H as [HA HB].
    destruct (row_of_name name) as [Hn|[Hn Hin]].
    - unfold row_of. rewrite Hn.
      assert (Hs : is_stop_name name = false).
      { unfold is_stop_name. destruct (name =? "SoftStop") eqn:E1.
        - apply String.eqb_eq in E1. subst name. unfold in_table in HC.
          apply existsb_exists in HC. destruct HC as [a [Ha Hb]]. unfold lookup in Hn.
          pose proof (find_none _ _ Hn a Ha) as Hx. cbv beta in Hx. congruence.
        - destruct (name =? "HardStop") eqn:E2; [|reflexivity].
          apply String.eqb_eq in E2. subst name. unfold in_table in HD.
          apply existsb_exists in HD. destruct HD as [a [Ha Hb]]. unfold lookup in Hn.
          pose proof (find_none _ _ Hn a Ha) as Hx. cbv beta in Hx. congruence. }
      rewrite Hs. exact HB.
    - rewrite forallb_forall in HA. specialize (HA _ Hin). rewrite Hn in HA. exact HA.
  Qed.

  Lemma stop_not_special : forall name, is_stop_name name = true -> s0 (row_of name) = None.
  Proof.
    intros name Hs. pose proof all_arms_one_final as H. unfold table_ok in H.
    apply andb_true_iff in H; destruct H as [H HE]. apply andb_true_iff in H; destruct H as [H HD].
    apply andb_true_iff in H; destruct H as [H HC]. apply andb_true_iff in H; destruct H as [HA HB].
    destruct (row_of_name name) as [Hn|[Hn Hin]].
    - unfold row_of. rewrite Hn. reflexivity.
    - rewrite forallb_forall in HE. specialize (HE _ Hin). rewrite Hn, Hs in HE. cbn in HE.
      destruct (s0 (row_of name)); [discriminate|reflexivity].
  Qed.

  (** what [notify] pushes, on every path and for every oracle *)
  Lemma notify_counts : forall (w : worker) (r : request) o w' a agg b,
      s0 (row_of (r_name r)) = None ->
      notify w r o = (w', (a, agg, b)) ->
      check (is_stop_name (r_name r)) a agg b = true \/
      (is_stop_name (r_name r) = false /\ a = 1 /\ agg = false /\ b = 0).
  Proof.
    intros w r o w' a agg b H0 H. pose proof (row_ok (r_name r)) as Hok. unfold total_ok in Hok. rewrite H0 in Hok.
    unfold Model.notify in H.
    pose proof (pick_in (o_p1 o) (s1 (row_of (r_name r)))) as Hp1.
    destruct (pick (o_p1 o) (s1 (row_of (r_name r)))) as [n1 ret1].
    rewrite forallb_forall in Hok. specialize (Hok _ Hp1). cbn [fst snd] in Hok.
    destruct ret1.
    - inversion H; subst. right. apply andb_true_iff in Hok. destruct Hok as [Hs Hn].
      apply negb_true_iff in Hs. apply Nat.eqb_eq in Hn. auto.
    - pose proof (pick_in (o_p2 o) (s2 (row_of (r_name r)))) as Hp2.
      destruct (pick (o_p2 o) (s2 (row_of (r_name r)))) as [n2 ret2].
      rewrite forallb_forall in Hok. specialize (Hok _ Hp2). cbn [fst snd] in Hok.
      destruct ret2.
      + inversion H; subst. right. apply andb_true_iff in Hok. destruct Hok as [Hs Hn].
        apply negb_true_iff in Hs. apply Nat.eqb_eq in Hn. auto.
      + inversion H; subst. left. destruct (s4 (row_of (r_name r))) as [ps4|].
        * pose proof (pick_in (o_p4 o) ps4) as Hp4. rewrite forallb_forall in Hok. exact (Hok _ Hp4).
        * exact Hok.
  Qed.
End proofs.

Definition finals (id : nat) (l : list response) : nat :=
  List.length (filter (fun p => Nat.eqb (p_id p) id && is_final p) l).

Definition ind (s : option nat) (id : nat) : nat :=
  match s with Some x => if Nat.eqb x id then 1 else 0 | None => 0 end.

Lemma finals_app : forall id a b, finals id (a ++ b) = finals id a + finals id b.
Proof. intros. unfold finals. rewrite filter_app, app_length. reflexivity. Qed.

Section proofs2.
  Variable view : Type.
  Variable payload : Type.
  Variable dispatch : view -> string -> payload -> view.

  Notation request := (request payload).
  Notation worker := (worker view).
  Notation event := (event payload).

  Lemma answers_one : forall id o from, exists st, answers id o from 1 = [mkResp id st] /\ st <> SProcessing.
  Proof.
    intros id o from. cbn [answers]. destruct (o_fail o from); eexists; split; try reflexivity; discriminate.
  Qed.

  Lemma notify_keeps : forall (w : worker) (r : request) o w' c,
      notify dispatch w r o = (w', c) -> w_alive w' = w_alive w /\ w_stopping w' = w_stopping w.
  Proof.
    intros w r o w' c H. unfold notify in H.
    destruct (pick (o_p1 o) (s1 (row_of (r_name r)))) as [n1 ret1]. destruct ret1; [inversion H; subst; auto|].
    destruct (pick (o_p2 o) (s2 (row_of (r_name r)))) as [n2 ret2]. destruct ret2; [inversion H; subst; auto|].
    inversion H; subst; clear H. unfold bookkeep.
    destruct (is_add_listener (r_name r)); [destruct (o_listener o); auto|].
    destruct (r_name r =? "DeactivateListener"); [destruct (o_listener o); auto|].
    destruct (r_name r =? "RemoveListener"); [destruct (o_applied o); auto|]. auto.
  Qed.

  (** every request that is not a stop: exactly one response, final, with its id *)
  Lemma handle_plain : forall (w : worker) (r : request) o w' out,
      w_alive w = true -> is_stop_name (r_name r) = false ->
      handle dispatch w r o = (w', out) ->
      (exists st, out = [mkResp (r_id r) st] /\ st <> SProcessing) /\
      w_alive w' = true /\ w_stopping w' = w_stopping w.
  Proof.
    intros w r o w' out Ha Hs H. unfold handle in H. rewrite Ha in H. cbn [negb] in H.
    pose proof (row_ok (r_name r)) as Hok. rewrite Hs in Hok.
    destruct (s0 (row_of (r_name r))) as [ps|] eqn:E0.
    - inversion H; subst; clear H. unfold total_ok in Hok. rewrite E0 in Hok. cbn [negb andb] in Hok.
      rewrite forallb_forall in Hok. specialize (Hok _ (pick_in (o_p0 o) ps)). apply Nat.eqb_eq in Hok.
      rewrite Hok. split; [apply answers_one|auto].
    - unfold is_stop_name in Hs. apply orb_false_iff in Hs. destruct Hs as [Hs1 Hs2]. rewrite Hs1, Hs2 in H.
      destruct (notify dispatch w r o) as [w1 [[a agg] b]] eqn:En. inversion H; subst; clear H.
      destruct (notify_keeps _ _ _ _ _ En) as [K1 K2]. split; [|rewrite K1, K2; auto].
      assert (Hstop : is_stop (r_name r) = false) by (unfold is_stop; rewrite Hs1, Hs2; reflexivity).
      destruct (notify_counts view payload dispatch _ _ _ _ _ _ _ E0 En) as [Hc|[_ [-> [-> ->]]]].
      + unfold is_stop_name in Hc. rewrite Hs1, Hs2 in Hc. cbn [orb] in Hc. unfold check in Hc.
        apply Nat.eqb_eq in Hc. unfold emit. rewrite Hstop.
        destruct a as [|[|a]]; destruct agg; destruct b as [|[|b]]; try lia;
          match goal with |- context [if ?c then refusals _ _ else _] => destruct c end;
          cbn [answers app refusals map seq];
          try (destruct (o_fail o 0)); try (destruct (o_fail o 1)); eexists; split; try reflexivity; discriminate.
      + unfold emit. match goal with |- context [if ?c then refusals _ _ else _] => destruct c end;
          cbn [answers app refusals map seq]; destruct (o_fail o 0); eexists; split; try reflexivity; discriminate.
  Qed.

  Lemma pick_plain : forall i ps, plain_paths ps = true -> pick i ps = (0, false).
  Proof.
    intros i ps H. unfold pick. destruct ps as [|[[|n] []] [|q ps]]; try discriminate H.
    - destruct i; reflexivity.
    - destruct i as [|[|i]]; reflexivity.
  Qed.

  (** a request nothing handles: one answer, the fallback's refusal *)
  Lemma handle_unserved : forall (w : worker) (r : request) o w' out,
      w_alive w = true -> unserved (r_name r) = true ->
      handle dispatch w r o = (w', out) -> out = [mkResp (r_id r) SFailure].
  Proof.
    intros w r o w' out Ha Hu H. unfold unserved in Hu.
    repeat (apply andb_true_iff in Hu; let X := fresh "U" in destruct Hu as [Hu X]).
    unfold handle in H. rewrite Ha in H. cbn [negb] in H.
    destruct (s0 (row_of (r_name r))) eqn:E0; [discriminate|].
    apply negb_true_iff in Hu. unfold is_stop_name in Hu. apply orb_false_iff in Hu. destruct Hu as [Hs1 Hs2].
    rewrite Hs2, Hs1 in H. unfold notify in H.
    rewrite (pick_plain _ _ U2), (pick_plain _ _ U1) in H.
    destruct (s4 (row_of (r_name r))) eqn:E4; [discriminate|].
    apply Nat.eqb_eq in U0. rewrite U0 in H.
    assert (G1 : fallback_answers = true) by reflexivity. assert (G2 : fallback_refuses = true) by reflexivity.
    rewrite G1 in H. cbn in H. inversion H; subst; clear H.
    unfold emit, is_fallback. rewrite ?E4, ?G1, ?G2. cbn. reflexivity.
  Qed.

  Lemma handle_soft : forall (w : worker) (r : request) o w' out,
      w_alive w = true -> r_name r = "SoftStop" -> w_stopping w = None ->
      handle dispatch w r o = (w', out) ->
      out = [mkResp (r_id r) SProcessing] /\ w_alive w' = true /\ w_stopping w' = Some (r_id r).
  Proof.
    intros w r o w' out Ha Hn Hst H. unfold handle in H. rewrite Ha in H. cbn [negb] in H.
    assert (Hs : is_stop_name (r_name r) = true) by (rewrite Hn; reflexivity).
    pose proof (stop_not_special _ Hs) as E0. rewrite E0 in H.
    assert (F1 : (r_name r =? "HardStop") = false) by (rewrite Hn; reflexivity).
    assert (F2 : (r_name r =? "SoftStop") = true) by (rewrite Hn; reflexivity).
    rewrite F1, F2, Hst in H.
    match type of H with context [notify dispatch ?w0 r o] => destruct (notify dispatch w0 r o) as [w1 [[a agg] b]] eqn:En end.
    inversion H; subst; clear H. destruct (notify_keeps _ _ _ _ _ En) as [K1 K2]. cbn in K1, K2.
    destruct (notify_counts view payload dispatch _ _ _ _ _ _ _ E0 En) as [Hc|[Hx _]]; [|congruence].
    rewrite Hs in Hc. unfold check in Hc. apply andb_true_iff in Hc. destruct Hc as [Hc Hb].
    apply andb_true_iff in Hc. destruct Hc as [Hza Hagg]. apply Nat.eqb_eq in Hza, Hb. subst a b agg.
    unfold emit, is_stop. rewrite Hn. cbn. auto.
  Qed.

  (** a second soft stop is refused at once; the first keeps its place *)
  Lemma handle_soft_again : forall (w : worker) (r : request) o w' out sid,
      w_alive w = true -> r_name r = "SoftStop" -> w_stopping w = Some sid ->
      handle dispatch w r o = (w', out) ->
      out = [mkResp (r_id r) SFailure] /\ w' = w.
  Proof.
    intros w r o w' out sid Ha Hn Hst H. unfold handle in H. rewrite Ha in H. cbn [negb] in H.
    assert (Hs : is_stop_name (r_name r) = true) by (rewrite Hn; reflexivity).
    pose proof (stop_not_special _ Hs) as E0. rewrite E0 in H.
    assert (F1 : (r_name r =? "HardStop") = false) by (rewrite Hn; reflexivity).
    assert (F2 : (r_name r =? "SoftStop") = true) by (rewrite Hn; reflexivity).
    assert (G : second_soft_stop_refused = true) by reflexivity.
    rewrite F1, F2, Hst, G in H. inversion H; subst. auto.
  Qed.

  (** a hard stop: its notice, the answer owed to the soft stop being served, its own OK *)
  Lemma handle_hard : forall (w : worker) (r : request) o w' out,
      w_alive w = true -> r_name r = "HardStop" ->
      handle dispatch w r o = (w', out) ->
      out = mkResp (r_id r) SProcessing ::
            (match w_stopping w with Some sid => [mkResp sid SFailure] | None => [] end) ++ [mkResp (r_id r) SOk] /\
      w_alive w' = false /\ w_stopping w' = None.
  Proof.
    intros w r o w' out Ha Hn H. unfold handle in H. rewrite Ha in H. cbn [negb] in H.
    assert (Hs : is_stop_name (r_name r) = true) by (rewrite Hn; reflexivity).
    pose proof (stop_not_special _ Hs) as E0. rewrite E0 in H.
    assert (F1 : (r_name r =? "HardStop") = true) by (rewrite Hn; reflexivity).
    assert (G : hard_stop_answers_soft = true) by reflexivity.
    rewrite F1, G in H.
    destruct (notify dispatch w r o) as [w1 [[a agg] b]] eqn:En.
    inversion H; subst; clear H. destruct (notify_keeps _ _ _ _ _ En) as [K1 K2].
    destruct (notify_counts view payload dispatch _ _ _ _ _ _ _ E0 En) as [Hc|[Hx _]]; [|congruence].
    rewrite Hs in Hc. unfold check in Hc. apply andb_true_iff in Hc. destruct Hc as [Hc Hb].
    apply andb_true_iff in Hc. destruct Hc as [Hza Hagg]. apply Nat.eqb_eq in Hza, Hb. subst a b agg.
    unfold emit, is_stop. rewrite Hn, K2. cbn. destruct (w_stopping w); auto.
  Qed.

  Definition req_id_of (e : event) : list nat := match e with EReq r _ => [r_id r] | EDrained => [] end.

  (** the requests served while the worker was alive *)
  Definition served1 (w : worker) (e : event) : list request :=
    match e with EReq r _ => if w_alive w then [r] else [] | EDrained => [] end.

  Fixpoint served (w : worker) (es : list event) : list request :=
    match es with
    | [] => []
    | e :: rest => served1 w e ++ served (fst (step dispatch w e)) rest
    end.

  Lemma finals_single : forall id id' st, st <> SProcessing ->
      finals id [mkResp id' st] = if Nat.eqb id' id then 1 else 0.
  Proof.
    intros id id' st Hst. unfold finals. cbn. destruct (Nat.eqb id' id); destruct st; try reflexivity; congruence.
  Qed.

  Definition b2n (b : bool) : nat := if b then 1 else 0.

  Lemma count_one : forall (x id : nat), count_occ Nat.eq_dec [x] id = b2n (Nat.eqb x id).
  Proof.
    intros x id. cbn. destruct (Nat.eq_dec x id) as [->|Hne]; [rewrite Nat.eqb_refl; reflexivity|].
    apply Nat.eqb_neq in Hne. rewrite Hne. reflexivity.
  Qed.

  (** the exact ledger of one step: a final answer is issued for an id exactly
      when that id is served now (and is not a soft stop put on hold), or when
      the soft stop on hold is released *)
  Lemma step_exact : forall (w : worker) e w' out id,
      step dispatch w e = (w', out) ->
      finals id out + ind (w_stopping w') id =
      ind (w_stopping w) id + count_occ Nat.eq_dec (map r_id (served1 w e)) id.
  Proof.
    intros w e w' out id H. destruct e as [r o|]; cbn [step served1] in *.
    - destruct (w_alive w) eqn:Ha.
      + cbn [map]. rewrite count_one.
        destruct (is_stop_name (r_name r)) eqn:Hs.
        * unfold is_stop_name in Hs. apply orb_true_iff in Hs. destruct Hs as [Hs|Hs]; apply String.eqb_eq in Hs.
          -- destruct (w_stopping w) as [sid|] eqn:Est.
             ++ destruct (handle_soft_again _ _ _ _ _ _ Ha Hs Est H) as [-> ->]. rewrite Est.
                rewrite finals_single by discriminate. unfold b2n. lia.
             ++ destruct (handle_soft _ _ _ _ _ Ha Hs Est H) as [-> [_ ->]]. unfold finals. cbn.
                destruct (Nat.eqb (r_id r) id); cbn; lia.
          -- destruct (handle_hard _ _ _ _ _ Ha Hs H) as [-> [_ ->]]. unfold finals. cbn [ind].
             destruct (w_stopping w) as [sid|]; cbn; destruct (Nat.eqb (r_id r) id); try destruct (Nat.eqb sid id); cbn; lia.
        * destruct (handle_plain _ _ _ _ _ Ha Hs H) as [[st [-> Hst]] [_ ->]].
          rewrite (finals_single _ _ _ Hst). unfold b2n. lia.
      + unfold handle in H. rewrite Ha in H. inversion H; subst. cbn. lia.
    - destruct (w_alive w); [|inversion H; subst; cbn; lia].
      destruct (w_stopping w) as [sid|] eqn:Es; inversion H; subst; cbn [w_stopping ind map count_occ]; rewrite ?Es; cbn [ind].
      + unfold finals. cbn. destruct (Nat.eqb sid id); cbn; lia.
      + cbn. lia.
  Qed.

  Lemma run_exact : forall es (w : worker) w' out id,
      run dispatch w es = (w', out) ->
      finals id out + ind (w_stopping w') id =
      ind (w_stopping w) id + count_occ Nat.eq_dec (map r_id (served w es)) id.
  Proof.
    induction es as [|e es IH]; intros w w' out id H; cbn [run served] in *.
    - inversion H; subst. cbn. lia.
    - destruct (step dispatch w e) as [w1 o1] eqn:E1. destruct (run dispatch w1 es) as [w2 o2] eqn:E2.
      inversion H; subst; clear H. cbn [fst]. rewrite finals_app, map_app, count_occ_app.
      pose proof (step_exact _ _ _ _ id E1). pose proof (IH _ _ _ id E2). lia.
  Qed.

  Lemma served_ids_sub : forall es (w : worker) id,
      count_occ Nat.eq_dec (map r_id (served w es)) id <= count_occ Nat.eq_dec (flat_map req_id_of es) id.
  Proof.
    induction es as [|e es IH]; intros w id; cbn [served flat_map]; [reflexivity|].
    rewrite map_app, !count_occ_app. specialize (IH (fst (step dispatch w e)) id).
    assert (count_occ Nat.eq_dec (map r_id (served1 w e)) id <= count_occ Nat.eq_dec (req_id_of e) id).
    { destruct e as [r o|]; cbn [served1 req_id_of]; [|reflexivity]. destruct (w_alive w); cbn [map count_occ]; [reflexivity|].
      destruct (Nat.eq_dec (r_id r) id); lia. }
    lia.
  Qed.

  Lemma one_final_answer_seq : forall es (w : worker) id,
      w_stopping w = None -> NoDup (flat_map req_id_of es) ->
      finals id (snd (run dispatch w es)) <= 1.
  Proof.
    intros es w id Hs Hnd. destruct (run dispatch w es) as [w' out] eqn:E.
    pose proof (run_exact _ _ _ _ id E) as H. rewrite Hs in H. cbn [ind snd] in *.
    pose proof (served_ids_sub es w id).
    pose proof (proj1 (NoDup_count_occ Nat.eq_dec _) Hnd id). lia.
  Qed.

  (** exactly one: once no soft stop is on hold (in particular once the worker
      has ended), every request it served has had its final answer *)
  Lemma every_served_request_answered : forall es (w : worker) w' out r,
      w_stopping w = None -> NoDup (flat_map req_id_of es) ->
      run dispatch w es = (w', out) -> w_stopping w' = None ->
      In r (served w es) -> finals (r_id r) out = 1.
  Proof.
    intros es w w' out r Hs Hnd E Hs' Hin.
    pose proof (run_exact _ _ _ _ (r_id r) E) as H. rewrite Hs, Hs' in H. cbn [ind] in H.
    pose proof (served_ids_sub es w (r_id r)).
    pose proof (proj1 (NoDup_count_occ Nat.eq_dec _) Hnd (r_id r)).
    assert (1 <= count_occ Nat.eq_dec (map r_id (served w es)) (r_id r)).
    { apply count_occ_In. apply in_map. exact Hin. }
    lia.
  Qed.

  Lemma step_dead_answered : forall (w : worker) e,
      (w_alive w = false -> w_stopping w = None) ->
      w_alive (fst (step dispatch w e)) = false -> w_stopping (fst (step dispatch w e)) = None.
  Proof.
    intros w e Hinv. destruct (step dispatch w e) as [w' out] eqn:H. cbn [fst]. intros Hd.
    destruct e as [r o|]; cbn [step] in H.
    - destruct (w_alive w) eqn:Ha.
      + destruct (is_stop_name (r_name r)) eqn:Hs.
        * unfold is_stop_name in Hs. apply orb_true_iff in Hs. destruct Hs as [Hs|Hs]; apply String.eqb_eq in Hs.
          -- destruct (w_stopping w) as [sid|] eqn:Est.
             ++ destruct (handle_soft_again _ _ _ _ _ _ Ha Hs Est H) as [_ ->]. congruence.
             ++ destruct (handle_soft _ _ _ _ _ Ha Hs Est H) as [_ [A _]]. congruence.
          -- destruct (handle_hard _ _ _ _ _ Ha Hs H) as [_ [_ A]]. exact A.
        * destruct (handle_plain _ _ _ _ _ Ha Hs H) as [_ [A _]]. congruence.
      + unfold handle in H. rewrite Ha in H. inversion H; subst. apply Hinv. reflexivity.
    - destruct (w_alive w) eqn:Ha; [|inversion H; subst; apply Hinv; reflexivity].
      destruct (w_stopping w) eqn:Es; inversion H; subst; cbn; auto.
  Qed.

  Lemma run_dead_answered : forall es (w : worker),
      (w_alive w = false -> w_stopping w = None) ->
      w_alive (fst (run dispatch w es)) = false -> w_stopping (fst (run dispatch w es)) = None.
  Proof.
    induction es as [|e es IH]; intros w Hinv; cbn [run]; [exact Hinv|].
    pose proof (step_dead_answered w e Hinv) as H1.
    destruct (step dispatch w e) as [w1 o1]. cbn [fst] in H1. specialize (IH w1 H1).
    destruct (run dispatch w1 es) as [w2 o2]. cbn [fst] in *. exact IH.
  Qed.

  (** ** view_tracks_master *)
  Hypothesis dispatch_noop : forall v name p, In name state_noop -> dispatch v name p = v.

  Lemma skip_is_noop : forall name, skips_dispatch (row_of name) = true -> In name state_noop.
  Proof.
    intros name Hsk. destruct (row_of_name name) as [Hn|[Hn Hin]].
    - unfold row_of in Hsk. rewrite Hn in Hsk. discriminate.
    - pose proof all_skips_are_noops as H. unfold skips_ok in H. rewrite forallb_forall in H.
      specialize (H _ Hin). rewrite Hsk, Hn in H. cbn [negb orb] in H. apply existsb_exists in H.
      destruct H as [x [Hx He]]. apply String.eqb_eq in He. subst x. exact Hx.
  Qed.

  Lemma handle_view : forall (w : worker) (r : request) o,
      w_view (fst (handle dispatch w r o)) =
      if w_alive w then dispatch (w_view w) (r_name r) (r_payload r) else w_view w.
  Proof.
    intros w r o. unfold handle. destruct (w_alive w) eqn:Ha; [|reflexivity]. cbn [negb].
    assert (Hnot : forall (w0 : worker), w_view w0 = w_view w ->
              w_view (fst (notify dispatch w0 r o)) = dispatch (w_view w) (r_name r) (r_payload r)).
    { intros w0 Hv. unfold notify.
      pose proof (pick_in (o_p1 o) (s1 (row_of (r_name r)))) as Hp1.
      destruct (pick (o_p1 o) (s1 (row_of (r_name r)))) as [n1 ret1]. destruct ret1.
      - cbn [fst]. rewrite Hv. symmetry. apply dispatch_noop. apply skip_is_noop. unfold skips_dispatch.
        destruct (s0 (row_of (r_name r))); [reflexivity|]. apply existsb_exists. exists (n1, true). auto.
      - destruct (pick (o_p2 o) (s2 (row_of (r_name r)))) as [n2 ret2]. destruct ret2; cbn [fst]; [rewrite Hv; reflexivity|].
        unfold bookkeep, set_view. rewrite Hv.
        destruct (is_add_listener (r_name r)); [destruct (o_listener o); reflexivity|].
        destruct (r_name r =? "DeactivateListener"); [destruct (o_listener o); reflexivity|].
        destruct (r_name r =? "RemoveListener"); [destruct (o_applied o); reflexivity|]. reflexivity. }
    destruct (s0 (row_of (r_name r))) as [ps|] eqn:E0.
    - cbn [fst]. symmetry. apply dispatch_noop. apply skip_is_noop. unfold skips_dispatch. rewrite E0. reflexivity.
    - destruct (r_name r =? "HardStop").
      + specialize (Hnot w eq_refl). destruct (notify dispatch w r o) as [w1 c]. cbn [fst] in *. exact Hnot.
      + destruct (r_name r =? "SoftStop") eqn:Esoft.
        * match goal with |- context [notify dispatch ?w0 r o] => specialize (Hnot w0 eq_refl); destruct (notify dispatch w0 r o) as [w1 c] end.
          cbn [fst] in *. destruct (w_stopping w); [|exact Hnot].
          assert (G : second_soft_stop_refused = true) by reflexivity. rewrite G. cbn [fst].
          symmetry. apply dispatch_noop. apply String.eqb_eq in Esoft. rewrite Esoft.
          assert (Hin : existsb (String.eqb "SoftStop") state_noop = true) by reflexivity.
          apply existsb_exists in Hin. destruct Hin as [x [Hx He]]. apply String.eqb_eq in He. subst x. exact Hx.
        * specialize (Hnot w eq_refl). destruct (notify dispatch w r o) as [w1 c]. cbn [fst] in *. exact Hnot.
  Qed.

  Lemma view_tracks_master_seq : forall es (w : worker),
      w_view (fst (run dispatch w es)) =
      fold_left (fun v r => dispatch v (r_name r) (r_payload r)) (served w es) (w_view w).
  Proof.
    induction es as [|e es IH]; intros w; cbn [run served]; [reflexivity|].
    destruct (step dispatch w e) as [w1 o1] eqn:E1. specialize (IH w1).
    destruct (run dispatch w1 es) as [w2 o2]. cbn [fst] in *. rewrite IH, fold_left_app. f_equal.
    destruct e as [r o|]; cbn [step served1] in *.
    - pose proof (handle_view w r o) as Hv. rewrite E1 in Hv. cbn [fst] in Hv. rewrite Hv.
      destruct (w_alive w); reflexivity.
    - destruct (w_alive w); [|inversion E1; reflexivity].
      destruct (w_stopping w); inversion E1; reflexivity.
  Qed.
End proofs2.

Section proofs3.
  Variable view : Type.
  Variable payload : Type.
  Variable dispatch : view -> string -> payload -> view.
  Notation request := (request payload).
  Notation worker := (worker view).
  Notation event := (event payload).

  (** forget base_sessions_count *)
  Definition erase (w : worker) : worker := mkW (w_view w) 0%Z (w_slots w) (w_stopping w) (w_alive w).

  Lemma notify_erase : forall (w : worker) (r : request) o,
      snd (notify dispatch (erase w) r o) = snd (notify dispatch w r o) /\
      erase (fst (notify dispatch (erase w) r o)) = erase (fst (notify dispatch w r o)).
  Proof.
    intros w r o. unfold notify.
    destruct (pick (o_p1 o) (s1 (row_of (r_name r)))) as [n1 ret1]. destruct ret1; [split; reflexivity|].
    destruct (pick (o_p2 o) (s2 (row_of (r_name r)))) as [n2 ret2]. destruct ret2; [split; reflexivity|].
    cbn [fst snd]. split; [reflexivity|]. unfold bookkeep, set_view, erase. cbn [w_view w_base w_slots w_stopping w_alive].
    destruct (is_add_listener (r_name r)); [destruct (o_listener o); reflexivity|].
    destruct (r_name r =? "DeactivateListener"); [destruct (o_listener o); reflexivity|].
    destruct (r_name r =? "RemoveListener"); [destruct (o_applied o); reflexivity|]. reflexivity.
  Qed.

  Lemma erase_stopping : forall (w : worker) s,
      erase (mkW (w_view w) (w_base w) (w_slots w) s (w_alive w)) = mkW (w_view w) 0%Z (w_slots w) s (w_alive w).
  Proof. reflexivity. Qed.

  Lemma step_erase : forall (w : worker) e,
      snd (step dispatch (erase w) e) = snd (step dispatch w e) /\
      erase (fst (step dispatch (erase w) e)) = erase (fst (step dispatch w e)).
  Proof.
    intros w e. destruct e as [r o|]; cbn [step].
    - unfold handle. cbn [erase w_alive]. destruct (w_alive w) eqn:Ha; cbn [negb]; [|split; reflexivity].
      destruct (s0 (row_of (r_name r))); [split; reflexivity|].
      destruct (r_name r =? "HardStop").
      + destruct (notify_erase w r o) as [A B].
        destruct (notify dispatch (erase w) r o) as [w1 c1]. destruct (notify dispatch w r o) as [w2 c2].
        cbn [fst snd] in *. subst c2.
        assert (Hst : w_stopping w1 = w_stopping w2) by (unfold erase in B; inversion B; reflexivity).
        rewrite Hst. split; [reflexivity|].
        unfold erase in *. cbn [w_view w_base w_slots w_stopping w_alive] in *. inversion B. reflexivity.
      + destruct (r_name r =? "SoftStop").
        * cbn [erase w_stopping]. destruct (w_stopping w) as [sid|]; [destruct second_soft_stop_refused; [split; reflexivity|]|].
          all: set (w0 := mkW (w_view w) (w_base w) (w_slots w) (Some (r_id r)) true).
          all: change (mkW (w_view (erase w)) (w_base (erase w)) (w_slots (erase w)) (Some (r_id r)) true)
            with (erase w0).
          all: destruct (notify_erase w0 r o) as [A B].
          all: destruct (notify dispatch (erase w0) r o) as [w1 c1]; destruct (notify dispatch w0 r o) as [w2 c2].
          all: cbn [fst snd] in *; subst c2; split; [reflexivity|exact B].
        * destruct (notify_erase w r o) as [A B].
          destruct (notify dispatch (erase w) r o) as [w1 c1]. destruct (notify dispatch w r o) as [w2 c2].
          cbn [fst snd] in *. subst c2. split; [reflexivity|exact B].
    - cbn [erase w_alive w_stopping]. destruct (w_alive w); [|split; reflexivity].
      destruct (w_stopping w); split; reflexivity.
  Qed.

  (** the answers of a worker do not depend on base_sessions_count *)
  Lemma run_erase : forall es (w : worker),
      snd (run dispatch (erase w) es) = snd (run dispatch w es).
  Proof.
    assert (G : forall es (w1 w2 : worker), erase w1 = erase w2 -> snd (run dispatch w1 es) = snd (run dispatch w2 es)).
    { induction es as [|e es IH]; intros w1 w2 He; cbn [run]; [reflexivity|].
      destruct (step_erase w1 e) as [A1 B1]. destruct (step_erase w2 e) as [A2 B2]. rewrite He in A1, B1.
      destruct (step dispatch w1 e) as [x1 o1]. destruct (step dispatch w2 e) as [x2 o2].
      cbn [fst snd] in *. assert (Ho : o1 = o2) by congruence. assert (Hx : erase x1 = erase x2) by congruence.
      specialize (IH x1 x2 Hx). destruct (run dispatch x1 es). destruct (run dispatch x2 es). cbn [snd] in *. congruence. }
    intros es w. apply G. reflexivity.
  Qed.
End proofs3.

