(** C17 — token interface of the model for the correspondence check.

    ops:
      add <pool idx> <names overridden?> <expiry overridden?> <fp> <exp> <name>...   (effective parse result)
      idna <name> <ascii>                      (oracle row: idna::domain_to_ascii of a name that is not plain ASCII)
      addbad                                   (unparsable certificate)
      del <fp>
      rep <pool idx> <ovn> <ove> <fp> <exp> <old parsable?> <old fp> <name>...
      repbad <old parsable?> <old fp>
      sni <name>
      auth <authority> <name>...
      hello <server name on the wire>   MutexCertificateResolver::resolve on a real ClientHello + the strict-SNI snapshot
      authsni <authority> <sni>         authority_matches_sni (the legacy exact predicate)
    obs: ok [<fp>] | err | fp <fp> <key> <name>... | dangling <fp> | none | some <entry> *)
From Coq Require Import List Arith ZArith NArith String Bool.
From SV Require Import Common.Tok Common.Trie C17.Model.
Import ListNotations.
Open Scope string_scope.
Open Scope list_scope.

Definition no_re_ok (_ : bytes) : bool := false.
Definition no_re_match (_ _ : bytes) : bool := false.

Definition bytes_of (ts : list tok) : list bytes :=
  flat_map (fun t => match t with TB b => [b] | _ => [] end) ts.

Record rstate := mkr { r_res : resolver; r_idna : list (bytes * bytes) }.

Definition norm_of (tab : list (bytes * bytes)) (n : bytes) : bytes :=
  match aget n tab with Some a => a | None => map lower n end.

Definition step (st : rstate) (op : list tok) : rstate * list tok :=
  let r := r_res st in
  let wr (x : resolver * list tok) : rstate * list tok := (mkr (fst x) (r_idna st), snd x) in
  let bad := (st, [TS "badop"]) in
  match op with
  | TS name :: args =>
    if name =? "idna" then
      match args with
      | [TB n; TB a] => (mkr r (r_idna st ++ [(n, a)]), [])
      | _ => bad
      end
    else if name =? "add" then
      match args with
      | TN _ :: TN _ :: TN _ :: TB fp :: TN exp :: names =>
        wr (add_cert no_re_ok r (parsed_cert_with (norm_of (r_idna st)) fp (bytes_of names) exp), [TS "ok"; TB fp])
      | _ => bad
      end
    else if name =? "addbad" then (st, [TS "err"])
    else if name =? "del" then
      match args with
      | [TB fp] => wr (remove_cert no_re_ok r fp, [TS "ok"])
      | _ => bad
      end
    else if name =? "rep" then
      match args with
      | TN _ :: TN _ :: TN _ :: TB fp :: TN exp :: TN oldk :: TB old :: names =>
        let '(r', _) := replace_cert no_re_ok r (Some (parsed_cert_with (norm_of (r_idna st)) fp (bytes_of names) exp))
                                     (if (oldk =? 1)%Z then Some old else None) in
        wr (r', [TS "ok"; TB fp])
      | _ => bad
      end
    else if name =? "repbad" then (st, [TS "err"])
    else if name =? "sni" then
      match args with
      | [TB n] =>
        match resolve no_re_match r n with
        | Some (key, fp) =>
          match aget fp (store r) with
          | Some c => (st, TS "fp" :: TB fp :: TB key :: map TB (c_names c))
          | None => (st, [TS "dangling"; TB fp])
          end
        | None => (st, [TS "none"])
        end
      | _ => bad
      end
    else if name =? "bbobs" then (st, args)      (* a replayed strict-SNI black-box scenario (c17sni): the model is not involved, the observation is handed through (props/c17.py:model_ops) *)
    else if name =? "hello" then
      match args with
      | [TB wire] =>
        (st, (match hello_served no_re_match r wire with
              | Some fp => [TS "served"; TB fp]
              | None => [TS "default"]
              end)
             ++ (match hello_snapshot no_re_match r wire with
                 | Some ns => TS "snap" :: map TB ns
                 | None => [TS "nosnap"]
                 end))
      | _ => bad
      end
    else if name =? "authsni" then
      match args with
      | [TB a; TB sni] => (st, [tn_bool (authority_matches_sni a sni)])
      | _ => bad
      end
    else if name =? "auth" then
      match args with
      | TB a :: names =>
        match authority_matched a (bytes_of names) with
        | Some e => (st, [TS "some"; TB e])
        | None => (st, [TS "none"])
        end
      | _ => bad
      end
    else bad
  | _ => bad
  end.

Fixpoint run_from (r : rstate) (ops : list (list tok)) : list (list tok) :=
  match ops with
  | [] => []
  | op :: ops' => let '(r', o) := step r op in o :: run_from r' ops'
  end.

Definition run_case (ops : list (list tok)) : list (list tok) := run_from (mkr empty_resolver []) ops.
