(** C07 — a rejected configuration command leaves no trace.
    Property theorems (statements only; proofs are in CfgState/Proofs.v).
    The model is [SV.CfgState.Model.dispatch]; [steps_of] are the step lists
    regenerated from command/src/state.rs on every run (CfgState/Gen.v). *)
From stdpp Require Import gmap strings.
From Coq Require Import NArith.
From SV Require Import CfgState.Model CfgState.Spec CfgState.Gen CfgState.GenSteps CfgState.Proofs C07.Worker C07.Tags.
Open Scope N_scope.

(** General theorem on step lists: if every fallible step (flood-knob
    validation, field validation, lookup) precedes every mutation, a run that
    ends in an error leaves the listener as it was found (or never looked it up). *)
Theorem atomic_steps :
  forall st p found c u,
    atomic st = true -> run_steps st p found None = (c, u) -> u <> UOk ->
    c = None \/ c = found.
Proof. intros st p found c u Hat. eapply atomic_err_untouched; eauto. Qed.

(** ... and the lists generated from the current source satisfy the hypothesis;
    the certificate handlers perform every fallible event before the first
    mutation, except the two unreachable post-checks of replace_certificate. *)
Theorem generated_steps_atomic :
  (forall k, atomic (steps_of k) = true)
  /\ events_atomic [] false events_add_certificate = true
  /\ events_atomic ["lookup_bucket"; "postcheck"]%string false events_replace_certificate = true.
Proof. split; [intros []; vm_compute; reflexivity|split; vm_compute; reflexivity]. Qed.

(** C07, first half: in every state reachable by any history of commands, for
    every command (all verbs, any mixture of valid and invalid fields) and every
    behaviour of the certificate parser and validators, an error answer means
    the configuration is exactly what it was. *)
Theorem err_is_noop :
  forall fingerprint inames hc_valid s r s' e,
    reachable fingerprint inames hc_valid steps_of s ->
    dispatch fingerprint inames hc_valid steps_of s r = (s', Err e) ->
    s' = s.
Proof.
  intros fp nm hc s r s' e Hr H.
  eapply err_is_noop_reachable; [|exact Hr|exact H].
  apply generated_steps_atomic.
Qed.

(** the same for any patch handlers whose step lists are atomic (what a future
    version of update_*_listener must satisfy) *)
Theorem err_is_noop_any_atomic_steps :
  forall fingerprint inames hc_valid steps s r s' e,
    (forall k, atomic (steps k) = true) ->
    Inv s ->
    dispatch fingerprint inames hc_valid steps s r = (s', Err e) -> s' = s.
Proof. intros. eapply Proofs.err_is_noop; eauto. Qed.

(** the invariant used: holds initially and is kept by every command, accepted or not *)
Theorem invariant_inductive :
  forall fingerprint inames hc_valid steps s r,
    Inv empty_state /\ (Inv s -> Inv (fst (dispatch fingerprint inames hc_valid steps s r))).
Proof. intros. split; [apply Inv_empty|apply Inv_dispatch]. Qed.

(** C07, second half: a command — accepted or rejected — changes at most the
    map entry it names; every other cluster, bucket, listener, frontend and
    certificate bucket is the same before and after. *)
Theorem ok_frame :
  forall fingerprint inames hc_valid steps s r s' x,
    dispatch fingerprint inames hc_valid steps s r = (s', x) ->
    frame (target_of r) s s'.
Proof. intros. eapply dispatch_frame; eauto. Qed.

(** per verb: what an accepted command leaves at the entry it names *)
Theorem ok_named_entry :
  forall fingerprint inames hc_valid steps s s',
    let d := dispatch fingerprint inames hc_valid steps in
    (forall i c, d s (RAddCluster i c) = (s', Ok) -> clusters s' !! i = Some c)
    /\ (forall i, d s (RRemoveCluster i) = (s', Ok) -> clusters s' !! i = None /\ is_Some (clusters s !! i))
    /\ (forall k a l ok, d s (RAddListener k a l ok) = (s', Ok) -> get_l k s' !! a = Some l /\ get_l k s !! a = None)
    /\ (forall p a k, kind_of p = Some k -> d s (RRemoveListener p a) = (s', Ok) -> get_l k s' !! a = None)
    /\ (forall p a k (v : bool), kind_of p = Some k -> d s (if v then RActivate p a else RDeactivate p a) = (s', Ok) ->
          exists l, get_l k s !! a = Some l /\ get_l k s' !! a = Some (Listener v (l_fields l) (l_rest l)))
    /\ (forall tls f, d s (RAddFront tls f) = (s', Ok) -> get_f tls s' !! front_key f = Some f /\ get_f tls s !! front_key f = None)
    /\ (forall tls f, d s (RRemoveFront tls f) = (s', Ok) -> get_f tls s' !! front_key f = None)
    /\ (forall c b, d s (RAddBackend c b) = (s', Ok) -> exists l, backends s' !! c = Some l /\ isort bk_le l = l /\ In b l).
Proof.
  intros fp nm hc st s s' d. unfold d. repeat split.
  - intros. eapply ok_add_cluster; eauto.
  - eapply ok_remove_cluster; eauto.
  - eapply ok_remove_cluster; eauto.
  - eapply ok_add_listener; eauto.
  - eapply ok_add_listener; eauto.
  - intros. eapply ok_remove_listener; eauto.
  - intros. eapply ok_set_active; eauto.
  - eapply ok_add_front; eauto.
  - eapply ok_add_front; eauto.
  - intros. eapply ok_remove_front; eauto.
  - intros. eapply ok_add_backend; eauto.
Qed.

(** * Worker side (lib/src/server.rs notify_proxys): the worker applies
    [config_state.dispatch], ignores its result, then invokes the proxy; its
    answer is the proxy's.  [C07.Worker] models exactly that, generic in the
    live proxies (coq/C08 proves the complementary [view_tracks_master]). *)

(** the proxy is reached whether or not the worker's ConfigState accepted the command *)
Theorem worker_proxy_always_invoked :
  forall fingerprint inames hc_valid steps (live : Type) (proxy : live -> request -> live * bool) w r,
    w_live live (fst (notify fingerprint inames hc_valid steps live proxy w r)) = fst (proxy (w_live live w) r)
    /\ snd (notify fingerprint inames hc_valid steps live proxy w r) = snd (proxy (w_live live w) r).
Proof. intros. apply proxy_always_invoked. Qed.

(** no trace in a worker when both its ConfigState and an atomic proxy reject *)
Theorem worker_no_trace :
  forall fingerprint inames hc_valid (live : Type) (proxy : live -> request -> live * bool) w r w',
    Inv (w_view live w) ->
    (forall l q l', proxy l q = (l', false) -> l' = l) ->
    (exists e, snd (dispatch fingerprint inames hc_valid steps_of (w_view live w) r) = Err e) ->
    notify fingerprint inames hc_valid steps_of live proxy w r = (w', false) -> w' = w.
Proof.
  intros fp nm hc live proxy w r w' HI Hpa He Hn.
  eapply (Worker.worker_no_trace fp nm hc steps_of live proxy); eauto. apply generated_steps_atomic.
Qed.

(** ... but a command the ConfigState accepts and the proxy refuses is answered
    with a failure while the worker's view keeps it (kept visible; open finding
    worker-view-drift, reproduced on the real listener on every run) *)
Theorem worker_view_drift :
  exists (proxy : unit -> request -> unit * bool) w r,
    let fp := fun _ : N => @None N in
    let nm := fun _ : N => @None (list N) in
    let hc := fun _ : N => true in
    let st := fun _ : lkind => [SLookup; SAssign "front_timeout" false] in
    snd (notify fp nm hc st unit proxy w r) = false
    /\ w_view unit (fst (notify fp nm hc st unit proxy w r)) <> w_view unit w
    /\ (forall k, atomic (st k) = true).
Proof. exact Worker.worker_view_drift. Qed.

(** the two shapes of disagreement, for ANY proxy: (a) state accepts, proxy refuses *)
Theorem worker_drift_state_accepts_proxy_refuses :
  forall fingerprint inames hc_valid steps (live : Type) (proxy : live -> request -> live * bool) w r v' l',
    dispatch fingerprint inames hc_valid steps (w_view live w) r = (v', Ok) -> v' <> w_view live w ->
    proxy (w_live live w) r = (l', false) ->
    snd (notify fingerprint inames hc_valid steps live proxy w r) = false
    /\ w_view live (fst (notify fingerprint inames hc_valid steps live proxy w r)) <> w_view live w.
Proof. intros. eapply drift_state_accepts_proxy_refuses; eauto. Qed.

(** (b) state rejects: the view is untouched, the proxy decides the answer and the live state *)
Theorem worker_drift_state_rejects_proxy_acts :
  forall fingerprint inames hc_valid (live : Type) (proxy : live -> request -> live * bool) w r e v' l' ok,
    Inv (w_view live w) ->
    dispatch fingerprint inames hc_valid steps_of (w_view live w) r = (v', Err e) ->
    proxy (w_live live w) r = (l', ok) ->
    notify fingerprint inames hc_valid steps_of live proxy w r = (W live (w_view live w) l', ok).
Proof.
  intros fp nm hc live proxy w r e v' l' ok HI Hd Hp.
  eapply (drift_state_rejects_proxy_acts fp nm hc steps_of live proxy); eauto. apply generated_steps_atomic.
Qed.

(** per verb, shape (a): the ConfigState accepts these on an address the
    worker has no listener for; with a proxy that refuses, "no trace" is refuted
    (each reproduced on a real worker on every run) *)
Theorem worker_no_trace_refuted_per_verb :
  drifts (RAddFront false (Front 0 0 0 0 None (Some 0) 2 0))
  /\ drifts (RAddFront true (Front 0 0 0 0 None (Some 0) 2 0))
  /\ drifts (RAddTFront false 0 (TFront 1 0))
  /\ drifts (RAddCert 0 (Cert 0 [] 0)).
Proof.
  repeat split; [apply add_http_frontend_no_trace_refuted|apply add_https_frontend_no_trace_refuted
                |apply add_tcp_frontend_no_trace_refuted|apply add_certificate_no_trace_refuted].
Qed.

(** * Worker side, the tags a listener keeps per hostname ([C07.Tags]:
    HttpProxy::add_http_frontend / HttpsProxy::add_https_frontend and the two
    remove_*_frontend): a refused frontend or removal leaves neither the
    routes nor the tags changed, for every validity predicate of the router
    and every state *)
Theorem worker_front_refused_no_trace :
  forall (valid : N -> bool) s v, snd (Tags.step valid s v) = false -> fst (Tags.step valid s v) = s.
Proof. exact Tags.tags_refused_no_trace. Qed.

(** an accepted frontend records its own tags; tags are kept exactly while the
    hostname still has a route, after every history of adds and removes *)
Theorem worker_front_tags_follow_routes :
  forall (valid : N -> bool),
    (forall s r t, snd (Tags.step valid s (VAdd r t)) = true -> tags (fst (Tags.step valid s (VAdd r t))) = Some t)
    /\ (forall l, Tags.served (Tags.run valid l)).
Proof. intros valid. split; [apply Tags.tags_follow_accepted_add|apply Tags.tags_only_for_served_hostname]. Qed.

(** non-vacuity: a reachable, non-empty state in which a listener patch with
    good fields and one bad validated field is rejected *)
Example err_is_noop_nonvacuous :
  let fp := fun _ : N => @None N in
  let nm := fun _ : N => @None (list N) in
  let hc := fun _ : N => true in
  let l := Listener false (<["front_timeout"%string := 60]> ∅) 0 in
  let s := fst (dispatch fp nm hc steps_of empty_state (RAddListener LHttp 0 l true)) in
  reachable fp nm hc steps_of s
  /\ s <> empty_state
  /\ dispatch fp nm hc steps_of s
       (RUpdateListener LHttp 0 [("front_timeout"%string, (7, true)); ("sozu_id_header"%string, (0, false))])
     = (s, Err EInvalidValue).
Proof.
  cbv zeta. split; [apply reach_step, reach_empty|]. split.
  - intros H. apply (f_equal (fun s => http_l s !! 0)) in H. vm_compute in H. discriminate.
  - vm_compute. reflexivity.
Qed.
