(** C19 — property theorems (statements only; proofs are in C19/Proofs.v).

    Vocabulary: [mgr_new c max_flows max_rx] is [UdpManager::new]; [step hash m
    now i] is one public call ([handle_input] / [handle_timeout] / [abort_flow]
    / [close_all]) returning the new manager and the outputs it queued, each
    tagged with the (ghost) incarnation number of the flow it was emitted for;
    [run hash m h] folds [step] over a history [h : list (N * input)] of
    timestamped inputs and returns the final manager and the trace.  [hash] (the
    affinity [DefaultHasher]) is universally quantified everywhere.  No theorem
    restricts the history: clocks may even go backwards. *)
From Coq Require Import List NArith Bool Arith Lia.
From SV Require Import Common.Slab C19.Model C19.Proofs.
Import ListNotations.

(** 1. [invariants]: everything [UdpManager::check_invariants] asserts (and the
    stronger facts listed at [Inv] in Proofs.v: table and slab in bijection
    through each flow's own admission key, no Closing flow, Established <->
    backend address, Awaiting -> a buffered datagram, no live flow with an
    exhausted cap, armed deadline = earliest flow deadline, population under
    the high-water cap, exact slab free list) holds after EVERY history. *)
Theorem invariants :
  forall hash c max_flows max_rx h, Inv (fst (run hash (mgr_new c max_flows max_rx) h)).
Proof. intros. apply run_inv. apply Inv_new. Qed.

Theorem invariants_table_injective :
  forall m k1 k2 id, Inv m ->
    tget (m_table m) k1 = Some id -> tget (m_table m) k2 = Some id -> k1 = k2.
Proof. exact table_injective. Qed.

Theorem invariants_timer_is_earliest_deadline :
  forall m, Inv m ->
    match m_armed m with
    | None => forall id, sget (m_flows m) id = None
    | Some d => (exists id f, sget (m_flows m) id = Some f /\ f_deadline f = d) /\
                (forall id f, sget (m_flows m) id = Some f -> (d <= f_deadline f)%N)
    end.
Proof. exact armed_coherent. Qed.

(** 4. [bounded] *)
Theorem bounded_admission_only_under_cap :
  forall hash m now inp i, Inv m ->
    In (Some i, Metric MCreated) (snd (step hash m now inp)) ->
    m_draining m = false /\ (N.of_nat (slen (m_flows m)) < m_max_flows m)%N /\
    (exists src p, inp = IClient src p /\ p <> [] /\
                   tget (m_table m) (key_of src (c_with_port (m_cluster m))) = None) /\
    i = m_ninc m.
Proof. exact created_only_under_cap. Qed.

Theorem bounded_population_under_high_water :
  forall hash c max_flows max_rx h,
    let m := fst (run hash (mgr_new c max_flows max_rx) h) in
    (N.of_nat (slen (m_flows m)) <= m_hw m)%N /\ (m_max_flows m <= m_hw m)%N.
Proof. intros. apply inv_hw. apply invariants. Qed.

Theorem bounded_existing_flows_keep_forwarding :
  forall hash m now src p id f b, Inv m ->
    (N.of_nat (length p) <= m_max_rx m)%N -> c_cluster (m_cluster m) <> [] -> p <> [] ->
    tget (m_table m) (key_of src (c_with_port (m_cluster m))) = Some id ->
    sget (m_flows m) id = Some f -> f_backend_addr f = Some b ->
    exists hdr, (hdr = [] \/ hdr = dgram_header (f_client f) b) /\
      In (Some (f_inc f), SendToBackend b (hdr ++ p)) (snd (step hash m now (IClient src p))).
Proof. exact established_keeps_forwarding. Qed.

(** 5. [teardown]: timers strictly advance; close_all leaves nothing *)
Theorem timeout_advances :
  forall hash m now, Inv m ->
    let m' := fst (step hash m now ITimeout) in
    (forall id g, sget (m_flows m') id = Some g -> (now < f_deadline g)%N) /\
    (forall d, m_armed m' = Some d -> (now < d)%N).
Proof. exact timeout_advances. Qed.

Theorem close_all_leaves_nothing :
  forall hash m now, Inv m ->
    let m' := fst (step hash m now ICloseAll) in
    (forall id, sget (m_flows m') id = None) /\ slen (m_flows m') = 0 /\
    (forall k, tget (m_table m') k = None) /\ m_armed m' = None.
Proof. exact close_all_leaves_nothing. Qed.

(** 2. [sticky], state part: a stale or duplicate resolution changes nothing *)
Theorem sticky_stale_resolution_is_noop :
  forall hash m now id bid a,
    (forall f, sget (m_flows m) id = Some f -> f_phase f <> Awaiting) ->
    fst (step hash m now (IResolved id bid a)) = m /\
    forall x, In x (snd (step hash m now (IResolved id bid a))) -> fst x = None.
Proof. exact stale_resolution_noop. Qed.

(* ------------------------------------------------------------------ *)
(** Non-vacuity: a concrete history reaching two established flows, one of them
    at the cap, a shed third source, a reply, a timeout and a close_all. *)
Definition ex_hash (_ : bool) (a : addr) : N := a_port a.
Definition ex_cfg : cfg := mkcfg [99%N] true 0 0 100 100 true false.
Definition ex_a1 := mkaddr [10;0;0;1]%N 9000.
Definition ex_a2 := mkaddr [10;0;0;2]%N 9000.
Definition ex_a3 := mkaddr [10;0;0;3]%N 9000.
Definition ex_b := mkaddr [127;0;0;1]%N 5300.
Definition ex_hist : list (N * input) :=
  [(0, IClient ex_a1 [1;2;3]); (0, IResolved 0 [98] ex_b); (1, IClient ex_a2 [4]);
   (1, IResolved 1 [98] ex_b); (2, IClient ex_a3 [5]); (3, IClient ex_a1 [6;7]);
   (4, IBackend 0 [8;9]); (5, IResolved 0 [97] ex_a3)]%N.

Example invariants_nonvacuous :
  let m := fst (run ex_hash (mgr_new ex_cfg 2 8) ex_hist) in
  slen (m_flows m) = 2 /\ m_armed m = Some 101%N /\
  exists f, sget (m_flows m) 0 = Some f /\ f_backend_addr f = Some ex_b /\ f_req f = 2%N /\ f_resp f = 1%N.
Proof. vm_compute. repeat split. eexists. repeat split. Qed.

Example bounded_nonvacuous :
  let m := fst (run ex_hash (mgr_new ex_cfg 2 8) ex_hist) in
  (* the third source is shed at the cap, the first keeps forwarding *)
  In (None, Metric MShed) (snd (step ex_hash m 6 (IClient ex_a3 [5]%N))) /\
  In (Some 0%N, SendToBackend ex_b [6;6]%N) (snd (step ex_hash m 6 (IClient ex_a1 [6;6]%N))) /\
  In (Some 2%N, Metric MCreated)
     (snd (step ex_hash (fst (step ex_hash m 6 (IAbort 1))) 6 (IClient ex_a3 [5]%N))).
Proof. vm_compute. repeat split; auto 10. Qed.

Example teardown_nonvacuous :
  let m := fst (run ex_hash (mgr_new ex_cfg 2 8) ex_hist) in
  slen (m_flows (fst (step ex_hash m 101 ITimeout))) = 1 /\
  m_armed (fst (step ex_hash m 101 ITimeout)) = Some 104%N /\
  slen (m_flows (fst (step ex_hash m 7 ICloseAll))) = 0.
Proof. vm_compute. repeat split. Qed.
