//! C08 driver: a real worker (`sozu_lib::server::Server`) in a thread, driven
//! over its command channel.  Request k is followed by a `Status` barrier; the
//! worker's queue is FIFO and single-threaded, so every response carrying id k
//! arrives before the barrier's own answer.
//!
//! ops
//!   worker                start a worker with an empty configuration
//!   send <verb> <k>       one request (k selects target / validity), then the barrier
//!   stop <hard|soft>      HardStop / SoftStop: collect until the worker thread ends
//!   end
//! observation of `send` / `stop`: <finals> <processing>   (responses carrying the request's id)
use std::io::{Read, Write};
use std::os::unix::net::UnixStream;
use std::time::{Duration, Instant};

use prost::Message;
use sozu_command_lib::{
    channel::Channel,
    config::{FileConfig, ConfigBuilder, ListenerBuilder},
    logging::LOGGER,
    proto::command::{
        request::RequestType, ActivateListener, AddBackend, AddCertificate, CertificateAndKey, Cluster,
        CountRequests, DeactivateListener, FrontendFilters, HardStop, HealthCheckConfig, ListListeners,
        ListWorkers, PathRule, QueryCertificatesFilters, QueryClusterByDomain,
        QueryClustersHashes, QueryMaxConnectionsPerIp, QueryMetricsOptions, RemoveBackend, RemoveCertificate,
        RemoveListener, ReplaceCertificate, Request, RequestHttpFrontend, RequestTcpFrontend,
        RequestUdpFrontend, ReturnListenSockets, RulePosition, ServerConfig, SetHealthCheck,
        SetMetricDetail, SocketAddress, SoftStop, Status, SubscribeEvents,
        UpdateHttpListenerConfig, UpdateHttpsListenerConfig, UpdateTcpListenerConfig,
        UpdateUdpListenerConfig, UpgradeMain, WorkerRequest, WorkerResponse,
    },
    scm_socket::{Listeners, ScmSocket},
    state::ConfigState,
};
use sozu_lib::server::Server;
use verif_harness::*;

#[path = "../h2bb.rs"]
mod h2bb;

const OK: i32 = 0;
const PROCESSING: i32 = 1;
const FAILURE: i32 = 2;

// ---------------------------------------------------------------------------
// framing (command/src/channel.rs: little-endian usize length, counting itself)

fn frame(payload: &[u8]) -> Vec<u8> {
    let mut v = (payload.len() + 8).to_le_bytes().to_vec();
    v.extend_from_slice(payload);
    v
}

struct Peer {
    sock: Option<UnixStream>,
    buf: Vec<u8>,
    eof: bool,
}

impl Peer {
    fn new(sock: UnixStream) -> Peer {
        Peer { sock: Some(sock), buf: vec![], eof: false }
    }
    fn send(&mut self, payload: &[u8]) -> bool {
        match self.sock.as_mut() {
            Some(s) => {
                s.set_nonblocking(false).ok();
                s.set_write_timeout(Some(Duration::from_secs(5))).ok();
                s.write_all(&frame(payload)).is_ok()
            }
            None => false,
        }
    }
    /// pull whatever is available (non-blocking)
    fn pump(&mut self) {
        let Some(s) = self.sock.as_mut() else { return };
        s.set_nonblocking(true).ok();
        let mut tmp = [0u8; 65536];
        loop {
            match s.read(&mut tmp) {
                Ok(0) => {
                    self.eof = true;
                    break;
                }
                Ok(n) => self.buf.extend_from_slice(&tmp[..n]),
                Err(e) if e.kind() == std::io::ErrorKind::WouldBlock => break,
                Err(e) if e.kind() == std::io::ErrorKind::Interrupted => continue,
                Err(_) => {
                    self.eof = true;
                    break;
                }
            }
        }
    }
    fn take_frame(&mut self) -> Option<Vec<u8>> {
        if self.buf.len() < 8 {
            return None;
        }
        let len = usize::from_le_bytes(self.buf[..8].try_into().unwrap());
        if len < 8 || self.buf.len() < len {
            return None;
        }
        let payload = self.buf[8..len].to_vec();
        self.buf.drain(..len);
        Some(payload)
    }
    /// wait (up to `ms`) for one frame; None on timeout or EOF
    fn wait_frame(&mut self, ms: u64) -> Option<Vec<u8>> {
        let t0 = Instant::now();
        loop {
            self.pump();
            if let Some(f) = self.take_frame() {
                return Some(f);
            }
            if self.eof || t0.elapsed() > Duration::from_millis(ms) {
                return None;
            }
            std::thread::sleep(Duration::from_micros(200));
        }
    }
    fn close(&mut self) {
        if let Some(s) = self.sock.take() {
            let _ = s.shutdown(std::net::Shutdown::Both);
        }
    }
}


// ---------------------------------------------------------------------------

const CERT: &str = include_str!("/repo/lib/assets/certificate.pem");
const KEY: &str = include_str!("/repo/lib/assets/key.pem");
const CERT2: &str = include_str!("/repo/lib/assets/cert_test.pem");
const KEY2: &str = include_str!("/repo/lib/assets/key_test.pem");

type Stop = std::sync::Arc<std::sync::atomic::AtomicBool>;

/// scripted backends: answer every request with 200 and a two-byte tag ("b0" / "b1");
/// they go away (and free their ports) when `stop` is raised at the end of the case
fn start_backends(base: u16, stop: &Stop) {
    for i in 0..2u16 {
        let l = std::net::TcpListener::bind(("127.0.0.1", base + 4 + i)).expect("bind scripted backend");
        l.set_nonblocking(true).ok();
        let stop = stop.clone();
        std::thread::spawn(move || {
            while !stop.load(std::sync::atomic::Ordering::Relaxed) {
                let Ok((mut s, _)) = l.accept() else {
                    std::thread::sleep(Duration::from_millis(1));
                    continue;
                };
                s.set_nonblocking(false).ok();
                std::thread::spawn(move || {
                    s.set_read_timeout(Some(Duration::from_secs(3))).ok();
                    let mut buf = vec![];
                    let mut tmp = [0u8; 2048];
                    while !buf.windows(4).any(|w| w == b"\r\n\r\n") {
                        match s.read(&mut tmp) {
                            Ok(0) | Err(_) => return,
                            Ok(n) => buf.extend_from_slice(&tmp[..n]),
                        }
                    }
                    let _ = s.write_all(format!("HTTP/1.1 200 OK\r\nContent-Length: 2\r\nConnection: close\r\n\r\nb{i}").as_bytes());
                });
            }
        });
    }
}

/// UDP twins of the scripted backends: answer every datagram with the tag
fn start_udp_backends(base: u16, stop: &Stop) {
    for i in 0..2u16 {
        if let Ok(sock) = std::net::UdpSocket::bind(("127.0.0.1", base + 4 + i)) {
            sock.set_read_timeout(Some(Duration::from_millis(20))).ok();
            let stop = stop.clone();
            std::thread::spawn(move || {
                let mut buf = [0u8; 2048];
                while !stop.load(std::sync::atomic::Ordering::Relaxed) {
                    if let Ok((_, from)) = sock.recv_from(&mut buf) {
                        let _ = sock.send_to(format!("b{i}").as_bytes(), from);
                    }
                }
            });
        }
    }
}

/// `src` picks the client's loopback address: UDP flows are keyed by the client's address
/// (by default its IP alone), so every probe that wants a flow of its own comes from another one
fn udp_ping(port: u16, wait_ms: u64, src: u8) -> Option<String> {
    let s = std::net::UdpSocket::bind((std::net::Ipv4Addr::new(127, 0, 1, src), 0)).ok()?;
    s.set_read_timeout(Some(Duration::from_millis(wait_ms))).ok();
    for attempt in 0..3 {
        s.send_to(b"ping", ("127.0.0.1", port)).ok()?;
        let mut buf = [0u8; 64];
        if let Ok((n, _)) = s.recv_from(&mut buf) {
            if std::env::var_os("C08_DEBUG").is_some() {
                eprintln!("udp answer at attempt {attempt}");
            }
            return Some(String::from_utf8_lossy(&buf[..n]).to_string());
        }
        if wait_ms < 1000 {
            break;
        }
    }
    None
}

/// a TCP relay probe: what the backend behind the TCP listener answers (its tag), if anything
fn tcp_relay(port: u16) -> Option<String> {
    let a: std::net::SocketAddr = ([127, 0, 0, 1], port).into();
    let mut s = std::net::TcpStream::connect_timeout(&a, Duration::from_millis(500)).ok()?;
    s.set_read_timeout(Some(Duration::from_secs(2))).ok();
    s.write_all(b"GET / HTTP/1.1\r\n\r\n").ok()?;
    let mut buf = vec![];
    let mut tmp = [0u8; 1024];
    loop {
        match s.read(&mut tmp) {
            Ok(0) | Err(_) => break,
            Ok(n) => {
                buf.extend_from_slice(&tmp[..n]);
                if buf.ends_with(b"b0") || buf.ends_with(b"b1") {
                    break;
                }
            }
        }
    }
    if buf.len() < 2 {
        return None;
    }
    Some(String::from_utf8_lossy(&buf[buf.len() - 2..]).to_string())
}

/// a TLS handshake with SNI `name` and one GET: (status, last two bytes, SHA-256 of the leaf certificate)
fn tls_get(port: u16, name: &str, path: &str) -> Option<(u16, String, Vec<u8>)> {
    use rustls::pki_types::ServerName;
    let _ = rustls::crypto::ring::default_provider().install_default();
    let config = rustls::ClientConfig::builder()
        .dangerous()
        .with_custom_certificate_verifier(std::sync::Arc::new(h2bb::Verifier))
        .with_no_client_auth();
    let sn = ServerName::try_from(name.to_owned()).ok()?;
    let mut conn = rustls::ClientConnection::new(std::sync::Arc::new(config), sn).ok()?;
    let a: std::net::SocketAddr = ([127, 0, 0, 1], port).into();
    let mut tcp = std::net::TcpStream::connect_timeout(&a, Duration::from_millis(500)).ok()?;
    tcp.set_read_timeout(Some(Duration::from_secs(3))).ok();
    tcp.set_write_timeout(Some(Duration::from_secs(3))).ok();
    while conn.is_handshaking() {
        conn.complete_io(&mut tcp).ok()?;
    }
    let fp = sozu_command_lib::certificate::calculate_fingerprint_from_der(conn.peer_certificates()?.first()?.as_ref());
    let mut tls = rustls::Stream::new(&mut conn, &mut tcp);
    tls.write_all(format!("GET {path} HTTP/1.1\r\nHost: {name}\r\nConnection: close\r\n\r\n").as_bytes()).ok()?;
    let mut buf = vec![];
    let mut tmp = [0u8; 4096];
    loop {
        match tls.read(&mut tmp) {
            Ok(0) | Err(_) => break,
            Ok(n) => buf.extend_from_slice(&tmp[..n]),
        }
        if let Some(p) = buf.windows(4).position(|w| w == b"\r\n\r\n") {
            let head = String::from_utf8_lossy(&buf[..p]).to_ascii_lowercase();
            if let Some(cl) = head.lines().find_map(|l| l.strip_prefix("content-length:").map(|v| v.trim().parse::<usize>().unwrap_or(0))) {
                if buf.len() >= p + 4 + cl {
                    break;
                }
            }
        }
    }
    let text = String::from_utf8_lossy(&buf).to_string();
    let code = text.split_whitespace().nth(1).and_then(|c| c.parse::<u16>().ok()).unwrap_or(0);
    let tail: String = text.chars().rev().take(2).collect::<Vec<_>>().into_iter().rev().collect();
    Some((code, tail, fp))
}

fn tcp_accepts(port: u16) -> bool {
    let a: std::net::SocketAddr = ([127, 0, 0, 1], port).into();
    std::net::TcpStream::connect_timeout(&a, Duration::from_millis(500)).is_ok()
}

/// one HTTP/1.1 request through the worker: (status code, last two bytes of the body)
fn http_get(port: u16, host: &str, path: &str) -> Option<(u16, String)> {
    let a: std::net::SocketAddr = ([127, 0, 0, 1], port).into();
    let mut s = std::net::TcpStream::connect_timeout(&a, Duration::from_millis(500)).ok()?;
    s.set_read_timeout(Some(Duration::from_secs(3))).ok();
    s.write_all(format!("GET {path} HTTP/1.1\r\nHost: {host}\r\nConnection: close\r\n\r\n").as_bytes()).ok()?;
    let mut buf = vec![];
    let mut tmp = [0u8; 4096];
    loop {
        match s.read(&mut tmp) {
            Ok(0) => break,
            Ok(n) => buf.extend_from_slice(&tmp[..n]),
            Err(_) => break,
        }
        // a complete answer with a known length is enough
        if let Some(p) = buf.windows(4).position(|w| w == b"\r\n\r\n") {
            let head = String::from_utf8_lossy(&buf[..p]).to_ascii_lowercase();
            if let Some(cl) = head.lines().find_map(|l| l.strip_prefix("content-length:").map(|v| v.trim().parse::<usize>().unwrap_or(0))) {
                if buf.len() >= p + 4 + cl {
                    break;
                }
            }
        }
    }
    let text = String::from_utf8_lossy(&buf).to_string();
    let code = text.split_whitespace().nth(1)?.parse::<u16>().ok()?;
    let tail: String = text.chars().rev().take(2).collect::<Vec<_>>().into_iter().rev().collect();
    Some((code, tail))
}

struct W {
    stop: Stop,
    tcp_ambiguous: bool,
    n_tcp: usize,
    n_udp: usize,
    n_tls: usize,
    n_listen: usize,
    n_http: usize,
    routing_unknown: bool,
    probes: usize,
    unknown: Vec<u16>,
    peer: Peer,
    job: Option<std::thread::JoinHandle<()>>,
    _scm: UnixStream,
    base_port: u16,
    n: usize,
    master: ConfigState,
}

fn addr(port: u16) -> SocketAddress {
    SocketAddress::new_v4(127, 0, 0, 1, port)
}

/// request for a verb; k selects the target from a small colliding pool and
/// (k >= 6) an invalid value
fn mk(verb: &str, k: usize, base: u16) -> Option<Request> {
    let rt = |r: RequestType| Some(Request { request_type: Some(r) });
    let cl = format!("c{}", k % 3);
    let bad = k >= 6;
    // listener verbs pick the listener type with k % 4; the UDP listener lives on the SAME ip:port as the TCP
    // listener (base + 2, like 53/tcp + 53/udp): the two own distinct slots keyed by (type, address)
    let port = if !bad && k % 4 == 3 && verb.ends_with("Listener") && !verb.starts_with("Update") { base + 2 } else { base + (k % 3) as u16 };
    let host = ["a.test", "b.test", "*.w.test"][k % 3].to_string();
    let http_front = |address: SocketAddress| RequestHttpFrontend {
        cluster_id: Some(cl.clone()),
        address,
        hostname: if bad { String::new() } else { host.clone() },
        path: PathRule::prefix(if k % 2 == 0 { "/" } else { "/api" }.to_string()),
        position: RulePosition::Tree.into(),
        ..Default::default()
    };
    let cert = |c: &str, key: &str| CertificateAndKey {
        certificate: if bad { "garbage".into() } else { c.to_string() },
        certificate_chain: vec![],
        key: key.to_string(),
        versions: vec![],
        names: vec![],
    };
    match verb {
        "AddCluster" => rt(RequestType::AddCluster(Cluster {
            cluster_id: cl,
            health_check: if bad {
                Some(HealthCheckConfig { uri: "bad\r\nuri".into(), ..Default::default() })
            } else if k >= 3 {
                Some(HealthCheckConfig { uri: "/health".into(), interval: 10, timeout: 5, healthy_threshold: 3, unhealthy_threshold: 3, expected_status: 0 })
            } else {
                None
            },
            ..Default::default()
        })),
        "RemoveCluster" => rt(RequestType::RemoveCluster(cl)),
        "AddBackend" => rt(RequestType::AddBackend(AddBackend {
            cluster_id: cl.clone(),
            backend_id: format!("{cl}-b{}", k % 2),
            address: addr(base + 4 + (k % 2) as u16),
            ..Default::default()
        })),
        "RemoveBackend" => rt(RequestType::RemoveBackend(RemoveBackend {
            cluster_id: cl.clone(),
            backend_id: format!("{cl}-b{}", k % 2),
            address: addr(base + 4 + (k % 2) as u16),
        })),
        "AddHttpFrontend" => rt(RequestType::AddHttpFrontend(http_front(addr(base)))),
        "RemoveHttpFrontend" => rt(RequestType::RemoveHttpFrontend(http_front(addr(base)))),
        "AddHttpsFrontend" | "RemoveHttpsFrontend" => {
            let mut f = http_front(addr(base + 1));
            if !bad {
                f.hostname = ["lolcatho.st", "test.local", "*.w.test"][k % 3].to_string();
            }
            rt(if verb == "AddHttpsFrontend" { RequestType::AddHttpsFrontend(f) } else { RequestType::RemoveHttpsFrontend(f) })
        }
        "AddTcpFrontend" => rt(RequestType::AddTcpFrontend(RequestTcpFrontend { cluster_id: cl, address: addr(base + 2), ..Default::default() })),
        "RemoveTcpFrontend" => rt(RequestType::RemoveTcpFrontend(RequestTcpFrontend { cluster_id: cl, address: addr(base + 2), ..Default::default() })),
        "AddUdpFrontend" => rt(RequestType::AddUdpFrontend(RequestUdpFrontend { cluster_id: cl, address: addr(base + 2), ..Default::default() })),
        "RemoveUdpFrontend" => rt(RequestType::RemoveUdpFrontend(RequestUdpFrontend { cluster_id: cl, address: addr(base + 2), ..Default::default() })),
        "AddCertificate" => rt(RequestType::AddCertificate(AddCertificate {
            address: addr(base + 1),
            certificate: if k % 2 == 0 { cert(CERT, KEY) } else { cert(CERT2, KEY2) },
            expired_at: None,
        })),
        "ReplaceCertificate" => rt(RequestType::ReplaceCertificate(ReplaceCertificate {
            address: addr(base + 1),
            new_certificate: cert(CERT2, KEY2),
            old_fingerprint: if k % 2 == 0 { "ab".repeat(32) } else { "zz".into() },
            new_expired_at: None,
        })),
        "RemoveCertificate" => rt(RequestType::RemoveCertificate(RemoveCertificate {
            address: addr(base + 1),
            fingerprint: if bad { "zz".into() } else { "ab".repeat(32) },
        })),
        "AddHttpListener" => rt(RequestType::AddHttpListener(ListenerBuilder::new_http(addr(base)).to_http(None).ok()?)),
        "AddHttpsListener" => rt(RequestType::AddHttpsListener(ListenerBuilder::new_https(addr(base + 1)).to_tls(None).ok()?)),
        "AddTcpListener" => rt(RequestType::AddTcpListener(ListenerBuilder::new_tcp(addr(base + 2)).to_tcp(None).ok()?)),
        "AddUdpListener" => rt(RequestType::AddUdpListener(ListenerBuilder::new_udp(addr(base + 2)).to_udp(None).ok()?)),
        "UpdateHttpListener" => rt(RequestType::UpdateHttpListener(UpdateHttpListenerConfig {
            address: addr(port),
            front_timeout: Some(7),
            sticky_name: if bad { Some(String::new()) } else { None },
            ..Default::default()
        })),
        "UpdateHttpsListener" => rt(RequestType::UpdateHttpsListener(UpdateHttpsListenerConfig { address: addr(port), front_timeout: Some(7), ..Default::default() })),
        "UpdateTcpListener" => rt(RequestType::UpdateTcpListener(UpdateTcpListenerConfig { address: addr(port), front_timeout: Some(7), ..Default::default() })),
        "UpdateUdpListener" => rt(RequestType::UpdateUdpListener(UpdateUdpListenerConfig { address: addr(base + 2), ..Default::default() })),
        "RemoveListener" => rt(RequestType::RemoveListener(RemoveListener { address: addr(port), proxy: if bad { 99 } else { (k % 4) as i32 } })),
        "ActivateListener" => rt(RequestType::ActivateListener(ActivateListener { address: addr(port), proxy: if bad { 99 } else { (k % 4) as i32 }, from_scm: false })),
        "DeactivateListener" => rt(RequestType::DeactivateListener(DeactivateListener { address: addr(port), proxy: if bad { 99 } else { (k % 4) as i32 }, to_scm: false })),
        "Status" => rt(RequestType::Status(Status {})),
        "QueryMetrics" => rt(RequestType::QueryMetrics(QueryMetricsOptions { list: k % 2 == 0, ..Default::default() })),
        "ConfigureMetrics" => rt(RequestType::ConfigureMetrics(if bad { 77 } else { (k % 3) as i32 })),
        "Logging" => rt(RequestType::Logging("off".into())),
        "QueryClustersHashes" => rt(RequestType::QueryClustersHashes(QueryClustersHashes {})),
        "QueryClusterById" => rt(RequestType::QueryClusterById(cl)),
        "QueryClustersByDomain" => rt(RequestType::QueryClustersByDomain(QueryClusterByDomain { hostname: host, path: None })),
        "QueryCertificatesFromWorkers" => rt(RequestType::QueryCertificatesFromWorkers(QueryCertificatesFilters {
            domain: if k % 3 == 1 { Some("lolcatho.st".into()) } else { None },
            fingerprint: if k % 3 == 2 { Some("ab".repeat(32)) } else { None },
        })),
        "SetHealthCheck" => rt(RequestType::SetHealthCheck(SetHealthCheck {
            cluster_id: cl,
            config: HealthCheckConfig {
                uri: if bad { "bad\r\nuri".into() } else { "/health".into() },
                interval: 10,
                timeout: 5,
                healthy_threshold: 3,
                unhealthy_threshold: 3,
                expected_status: 0,
            },
        })),
        "RemoveHealthCheck" => rt(RequestType::RemoveHealthCheck(cl)),
        "SetMaxConnectionsPerIp" => rt(RequestType::SetMaxConnectionsPerIp(k as u64 + 100)),
        "QueryMaxConnectionsPerIp" => rt(RequestType::QueryMaxConnectionsPerIp(QueryMaxConnectionsPerIp {})),
        "SetMetricDetail" => rt(RequestType::SetMetricDetail(SetMetricDetail {
            client_id: if bad { "x".repeat(500) } else { format!("cli{}", k % 2) },
            detail: if k % 3 == 0 { None } else { Some((k % 3) as i32) },
            clear: if k % 3 == 0 { Some(true) } else { None },
            ttl_seconds: if k == 7 { Some(4_000_000) } else { Some(30) },
            ..Default::default()
        })),
        "ReturnListenSockets" => rt(RequestType::ReturnListenSockets(ReturnListenSockets {})),
        // verbs a worker has no handler for
        "None" => Some(Request { request_type: None }),
        "SaveState" => rt(RequestType::SaveState("/tmp/x".into())),
        "LoadState" => rt(RequestType::LoadState("/tmp/x".into())),
        "ListWorkers" => rt(RequestType::ListWorkers(ListWorkers {})),
        "ListFrontends" => rt(RequestType::ListFrontends(FrontendFilters::default())),
        "ListListeners" => rt(RequestType::ListListeners(ListListeners {})),
        "CountRequests" => rt(RequestType::CountRequests(CountRequests {})),
        "SubscribeEvents" => rt(RequestType::SubscribeEvents(SubscribeEvents {})),
        "UpgradeMain" => rt(RequestType::UpgradeMain(UpgradeMain {})),
        "UpgradeWorker" => rt(RequestType::UpgradeWorker(3)),
        "LaunchWorker" => rt(RequestType::LaunchWorker("x".into())),
        "ReloadConfiguration" => rt(RequestType::ReloadConfiguration(String::new())),
        "QueryCertificatesFromTheState" => rt(RequestType::QueryCertificatesFromTheState(sozu_command_lib::proto::command::QueryCertificatesFilters::default())),
        "QueryHealthChecks" => rt(RequestType::QueryHealthChecks(sozu_command_lib::proto::command::QueryHealthChecks { cluster_id: Some(format!("cluster_{}", k % 3)) })),
        _ => None,
    }
}

fn start(base_port: u16) -> W {
    start_with(base_port, None)
}

/// `bufs`: (initial, maximal) size of the worker's command channel buffers, instead of the configured ones
fn start_with(base_port: u16, bufs: Option<(u64, u64)>) -> W {
    let (a, b) = UnixStream::pair().unwrap();
    let (s1, s2) = UnixStream::pair().unwrap();
    a.set_nonblocking(true).unwrap();
    let s2k = s2.try_clone().unwrap();
    let job = std::thread::Builder::new()
        .name("worker".into())
        .spawn(move || {
            use std::os::fd::IntoRawFd;
            LOGGER.with(|l| l.borrow_mut().set_directives(vec![]));
            let config = ConfigBuilder::new(FileConfig::default(), "").into_config().expect("config");
            let sc = ServerConfig::from(&config);
            let channel: Channel<WorkerResponse, WorkerRequest> =
                Channel::new(mio::net::UnixStream::from_std(a), bufs.map(|b| b.0).unwrap_or(sc.command_buffer_size), bufs.map(|b| b.1).unwrap_or(sc.max_command_buffer_size));
            let scm_main = ScmSocket::new(s2.into_raw_fd()).expect("scm");
            scm_main.send_listeners(&Listeners::default()).expect("send listeners");
            let scm = ScmSocket::new(s1.into_raw_fd()).expect("scm");
            let mut server =
                Server::try_new_from_config(channel, scm, sc, ConfigState::new().produce_initial_state(), false)
                    .expect("worker");
            server.run();
        })
        .unwrap();
    W { stop: Stop::default(), tcp_ambiguous: false, n_tcp: 0, n_udp: 0, n_tls: 0, n_listen: 0, n_http: 0, routing_unknown: false, probes: 0, unknown: vec![], peer: Peer::new(b), job: Some(job), _scm: s2k, base_port, n: 0, master: ConfigState::new() }
}

impl W {
    /// the behaviour half of the property: what listens and what answers must be what the
    /// main process' view of the same request sequence says
    fn probe(&mut self, verb: &str, k: usize, master_ok: bool, worker_ok: bool, out: &mut Out) {
        let base = self.base_port;
        let sa = |p: u16| -> std::net::SocketAddr { ([127, 0, 0, 1], p).into() };
        if verb == "ReturnListenSockets" {
            // the listen sockets now belong to whoever holds the other end of the SCM socket
            for p in 0..4 {
                if !self.unknown.contains(&(base + p)) {
                    self.unknown.push(base + p);
                }
            }
        }
        // a second cluster put on the address of a TCP listener: the main process' state keeps both
        // frontends, the listener can only hold one cluster
        if verb == "AddTcpFrontend" && master_ok {
            let n = self.master.tcp_fronts.values().filter(|fs| fs.iter().any(|f| f.address == sa(base + 2))).count();
            if n >= 2 {
                self.tcp_ambiguous = true;
            }
        }
        let config_verb = verb.contains("Frontend") || verb.contains("Backend") || verb.contains("Cluster") || verb.contains("Certificate");
        if config_verb && (master_ok != worker_ok || !master_ok) && !matches!(verb, "QueryClusterById" | "QueryClustersByDomain" | "QueryClustersHashes" | "QueryCertificatesFromWorkers") {
            // the main process would have told its client about the failure; the two sides
            // no longer hold the same configuration, nothing is claimed about routing any more
            self.routing_unknown = true;
            out.note(&format!("routing-divergence: {verb} {k}: main process accepted={master_ok}, worker ok={worker_ok}"));
        }
        if verb.contains("Listener") {
            if master_ok != worker_ok && (verb == "ActivateListener" || verb.starts_with("Add")) {
                // e.g. the port could not be bound: nothing is claimed about that address any more
                let p = if verb == "ActivateListener" { if k < 6 && k % 4 == 3 { base + 2 } else { base + (k % 3) as u16 } } else { base + ["AddHttpListener", "AddHttpsListener", "AddTcpListener", "AddUdpListener"].iter().position(|v| *v == verb).map(|i| if i == 3 { 2 } else { i }).unwrap_or(0) as u16 };
                if !self.unknown.contains(&p) {
                    self.unknown.push(p);
                }
                out.note(&format!("listener-divergence: {verb} {k}: main process accepted={master_ok}, worker ok={worker_ok}"));
            }
            let expect = [
                (base, self.master.http_listeners.get(&sa(base)).map(|l| l.active).unwrap_or(false)),
                (base + 1, self.master.https_listeners.get(&sa(base + 1)).map(|l| l.active).unwrap_or(false)),
                (base + 2, self.master.tcp_listeners.get(&sa(base + 2)).map(|l| l.active).unwrap_or(false)),
            ];
            for (port, want) in expect {
                if self.unknown.contains(&port) {
                    continue;
                }
                self.n_listen += 1;
                let mut got = tcp_accepts(port);
                // a session opened by an earlier probe may keep the listener's socket alive for a
                // moment after the listener is gone: closing is given one second
                let t0 = Instant::now();
                while got && !want && t0.elapsed() < Duration::from_secs(3) {
                    std::thread::sleep(Duration::from_millis(10));
                    got = tcp_accepts(port);
                }
                if got != want {
                    out.viol("listen-mismatch", &format!("after {verb} {k}: 127.0.0.1:+{} {} connections, the main process' view says the listener is {}",
                                                          port - base, if got { "accepts" } else { "refuses" }, if want { "active" } else { "absent or inactive" }));
                }
            }
        }
        let routing = matches!(verb, "AddHttpFrontend" | "RemoveHttpFrontend" | "AddBackend" | "RemoveBackend" | "AddCluster" | "RemoveCluster" | "ActivateListener");
        let http_up = self.master.http_listeners.get(&sa(base)).map(|l| l.active).unwrap_or(false) && !self.unknown.contains(&base);
        if routing && http_up && !self.routing_unknown && self.probes < 8 {
            self.probes += 1;
            for host in ["a.test", "b.test", "x.w.test"] {
                // the frontends of this listener that match, longest prefix first
                let path = "/api/x";
                let mut best: Vec<(usize, Option<String>)> = vec![];
                for f in self.master.http_fronts.values() {
                    if f.address != sa(base) || f.method.is_some() {
                        continue;
                    }
                    let host_ok = f.hostname == host || (f.hostname.starts_with("*.") && host.ends_with(&f.hostname[1..]) && !host[..host.len() - f.hostname.len() + 1].contains('.'));
                    if !host_ok || f.path.kind != 0 || !path.starts_with(&f.path.value) {
                        continue;
                    }
                    best.push((f.path.value.len(), f.cluster_id.clone()));
                }
                let longest = best.iter().map(|b| b.0).max();
                let clusters: Vec<Option<String>> = best.iter().filter(|b| Some(b.0) == longest).map(|b| b.1.clone()).collect();
                let mut allowed: Vec<(u16, String)> = vec![];
                if clusters.is_empty() {
                    allowed.push((404, String::new()));
                }
                for c in &clusters {
                    match c {
                        None => allowed.push((401, String::new())),
                        Some(c) => {
                            let bs = self.master.backends.get(c).cloned().unwrap_or_default();
                            if bs.is_empty() {
                                allowed.push((503, String::new()));
                            }
                            for b in bs {
                                allowed.push((200, format!("b{}", b.address.port().wrapping_sub(base + 4))));
                            }
                        }
                    }
                }
                self.n_http += 1;
                let got = http_get(base, host, path).or_else(|| http_get(base, host, path));
                let ok = match &got {
                    Some((code, tail)) => allowed.iter().any(|(c, t)| c == code && (*c != 200 || t == tail)),
                    None => false,
                };
                if !ok {
                    out.viol("route-mismatch", &format!("after {verb} {k}: GET {path} for {host} answered {:?}, the main process' view allows {:?}", got, allowed));
                }
            }
        }
        let tags_of = |master: &ConfigState, cluster: &str| -> Vec<String> {
            master.backends.get(cluster).cloned().unwrap_or_default().iter().map(|b| format!("b{}", b.address.port().wrapping_sub(base + 4))).collect()
        };
        // TCP: connect + request through the activated TCP listener, the tag of the backend that answers
        let tcp_verbs = matches!(verb, "AddTcpFrontend" | "RemoveTcpFrontend" | "AddBackend" | "RemoveBackend" | "ActivateListener");
        let tcp_up = self.master.tcp_listeners.get(&sa(base + 2)).map(|l| l.active).unwrap_or(false) && !self.unknown.contains(&(base + 2));
        if tcp_verbs && tcp_up && !self.routing_unknown && self.n_tcp < 6 {
            self.n_tcp += 1;
            let clusters: Vec<String> = self.master.tcp_fronts.iter().filter(|(_, fs)| fs.iter().any(|f| f.address == sa(base + 2))).map(|(c, _)| c.clone()).collect();
            let mut allowed: Vec<Option<String>> = vec![];
            if clusters.is_empty() {
                allowed.push(None);
            }
            for c in &clusters {
                let tags = tags_of(&self.master, c);
                if tags.is_empty() || !self.master.clusters.contains_key(c) {
                    allowed.push(None);
                }
                allowed.extend(tags.into_iter().map(Some));
            }
            let got = tcp_relay(base + 2);
            if !allowed.contains(&got) {
                out.viol(if self.tcp_ambiguous { "tcp-two-clusters" } else { "tcp-mismatch" }, &format!("after {verb} {k}: the TCP listener relayed to {:?}, the main process' view allows {:?}", got, allowed));
            }
        }
        // UDP: one datagram through the activated UDP listener
        let udp_verbs = matches!(verb, "AddUdpFrontend" | "RemoveUdpFrontend" | "AddBackend" | "RemoveBackend" | "ActivateListener" | "DeactivateListener");
        let udp_known = !self.unknown.contains(&(base + 2)) && !self.routing_unknown;
        if udp_verbs && udp_known && self.n_udp < 5 {
            let up = self.master.udp_listeners.get(&sa(base + 2)).map(|l| l.active).unwrap_or(false);
            let clusters: Vec<String> = self.master.udp_fronts.iter().filter(|(_, fs)| fs.iter().any(|f| f.address == sa(base + 2))).map(|(c, _)| c.clone()).collect();
            let mut allowed: Vec<Option<String>> = vec![];
            if !up || clusters.is_empty() {
                allowed.push(None);
            } else {
                for c in &clusters {
                    let tags = tags_of(&self.master, c);
                    // a frontend left behind by RemoveCluster: the view still lists it, the UDP
                    // proxy forgot the cluster
                    if tags.is_empty() || !self.master.clusters.contains_key(c) {
                        allowed.push(None);
                    }
                    allowed.extend(tags.into_iter().map(Some));
                }
            }
            // only the cases that expect an answer, or a listener that was up before, are worth the wait
            if allowed.iter().any(|a| a.is_some()) || verb == "DeactivateListener" {
                self.n_udp += 1;
                let mut got = udp_ping(base + 2, if allowed.contains(&None) { 150 } else { 1500 }, self.n_udp as u8);
                if got.is_none() && !allowed.contains(&None) {
                    // datagrams may be lost on a loaded machine: one more flow, from another address
                    std::thread::sleep(Duration::from_millis(200));
                    got = udp_ping(base + 2, 1500, 100 + self.n_udp as u8);
                }
                if !allowed.contains(&got) {
                    out.viol("udp-mismatch", &format!("after {verb} {k}: a datagram to the UDP listener came back as {:?}, the main process' view allows {:?}", got, allowed));
                }
            }
        }
        // HTTPS: TLS handshake + request; the certificate served and the cluster that answers
        let tls_verbs = matches!(verb, "AddCertificate" | "RemoveCertificate" | "ReplaceCertificate" | "AddHttpsFrontend" | "RemoveHttpsFrontend" | "AddBackend" | "RemoveBackend" | "ActivateListener");
        let tls_up = self.master.https_listeners.get(&sa(base + 1)).map(|l| l.active).unwrap_or(false) && !self.unknown.contains(&(base + 1));
        if tls_verbs && tls_up && !self.routing_unknown && self.n_tls < 6 {
            self.n_tls += 1;
            let fp1 = sozu_command_lib::certificate::calculate_fingerprint(CERT.as_bytes()).unwrap_or_default();
            let fp2 = sozu_command_lib::certificate::calculate_fingerprint(CERT2.as_bytes()).unwrap_or_default();
            let held: Vec<Vec<u8>> = self.master.certificates.get(&sa(base + 1)).map(|m| m.keys().map(|f| f.0.clone()).collect()).unwrap_or_default();
            // lib/assets/certificate.pem is also the worker's built-in default certificate: it is
            // served to every name nothing else covers, held or not
            let default_fp = Some(fp1.clone());
            for (name, own) in [("lolcatho.st", &fp1), ("test.local", &fp2)] {
                let path = "/api/x";
                let Some((code, tail, fp)) = tls_get(base + 1, name, path).or_else(|| tls_get(base + 1, name, path)) else {
                    // no handshake at all is only acceptable when the main process holds no certificate for the name
                    if held.contains(own) {
                        out.viol("tls-mismatch", &format!("after {verb} {k}: no TLS answer for {name} although the main process' view holds its certificate"));
                    }
                    continue;
                };
                // a certificate of the pool is served only while the main process' view holds it, and
                // the name's own certificate is the one served when it is held
                if (fp == fp1 || fp == fp2) && !held.contains(&fp) && Some(&fp) != default_fp.as_ref() {
                    out.viol("tls-mismatch", &format!("after {verb} {k}: {name} is served a certificate the main process' view does not hold"));
                }
                if held.contains(own) && &fp != own {
                    out.viol("tls-mismatch", &format!("after {verb} {k}: {name} is not served its own certificate although the main process' view holds it"));
                }
                let mut best: Vec<(usize, Option<String>)> = vec![];
                for f in self.master.https_fronts.values() {
                    if f.address != sa(base + 1) || f.method.is_some() || f.hostname != name || f.path.kind != 0 || !path.starts_with(&f.path.value) {
                        continue;
                    }
                    best.push((f.path.value.len(), f.cluster_id.clone()));
                }
                let longest = best.iter().map(|b| b.0).max();
                let mut allowed: Vec<(u16, String)> = vec![];
                if best.is_empty() {
                    allowed.push((404, String::new()));
                }
                for (_, c) in best.iter().filter(|b| Some(b.0) == longest) {
                    match c {
                        None => allowed.push((401, String::new())),
                        Some(c) => {
                            let tags = tags_of(&self.master, c);
                            if tags.is_empty() {
                                allowed.push((503, String::new()));
                            }
                            allowed.extend(tags.into_iter().map(|t| (200, t)));
                        }
                    }
                }
                if !allowed.iter().any(|(c, t)| *c == code && (*c != 200 || *t == tail)) {
                    out.viol("route-mismatch", &format!("after {verb} {k}: GET {path} over TLS for {name} answered ({code}, {tail:?}), the main process' view allows {:?}", allowed));
                }
            }
        }
    }

    fn send(&mut self, id: &str, req: &Request) -> bool {
        let wr = WorkerRequest { id: id.to_string(), content: req.clone() };
        self.peer.send(&wr.encode_to_vec())
    }

    /// responses until the barrier's final answer; -> (finals, processing) for `id`, None if the worker died
    fn collect(&mut self, id: &str, statuses: &mut Vec<i32>) -> Option<(usize, usize)> {
        self.n += 1;
        let bar = format!("BAR-{}", self.n);
        if !self.send(&bar, &Request { request_type: Some(RequestType::Status(Status {})) }) {
            return None;
        }
        let (mut fin, mut proc_) = (0, 0);
        let t0 = Instant::now();
        loop {
            match self.peer.wait_frame(200) {
                Some(f) => {
                    let Ok(r) = WorkerResponse::decode(&f[..]) else { continue };
                    if r.id == id {
                        if r.status == PROCESSING {
                            proc_ += 1;
                        } else {
                            fin += 1;
                            statuses.push(r.status);
                        }
                    } else if r.id == bar && r.status != PROCESSING {
                        return Some((fin, proc_));
                    }
                }
                None => {
                    if self.peer.eof || self.job.as_ref().map(|j| j.is_finished()).unwrap_or(true) || t0.elapsed() > Duration::from_secs(20) {
                        return None;
                    }
                }
            }
        }
    }
}

fn run(case: &Case, out: &mut Out) {
    let mut w: Option<W> = None;
    let mut dead = false;
    let mut _claim: Option<std::net::TcpListener> = None;
    for op in &case.ops {
        match op.name.as_str() {
            "worker" => {
                let (base, claim) = pick_base();
                _claim = Some(claim);
                let wk = start(base);
                start_backends(base, &wk.stop);
                start_udp_backends(base, &wk.stop);
                w = Some(wk);
                out.obs(&[]);
            }
            "burst" => {
                // back-pressure: n queries whose answers (~14 kB each: the id is echoed) do not fit the worker's
                // 20000-byte channel buffer, written in one go while nothing is read; then everything is read.
                // Every request must have got its one final answer (answers wait in the worker's queue, none is lost)
                let n = op.args[0].n() as usize;
                let (base, _claim2) = pick_base();
                let mut wk = start_with(base, Some((16_384, 20_000)));
                let idof = |i: usize| {
                    let mut id = format!("BURST-{i:04}-");
                    while id.len() < 14_000 {
                        id.push(char::from(b'a' + (i % 26) as u8));
                    }
                    id
                };
                let mut written = 0;
                for i in 0..n {
                    if !wk.send(&idof(i), &Request { request_type: Some(RequestType::QueryClustersHashes(QueryClustersHashes {})) }) {
                        break;
                    }
                    written += 1;
                }
                if written < n {
                    out.note(&format!("invalid-case: only {written} of {n} requests could be written"));
                }
                std::thread::sleep(Duration::from_millis(300));
                let mut finals: std::collections::HashMap<String, usize> = std::collections::HashMap::new();
                let t0 = Instant::now();
                let mut last = Instant::now();
                while finals.values().sum::<usize>() < written && t0.elapsed() < Duration::from_secs(20) && last.elapsed() < Duration::from_secs(4) {
                    wk.peer.pump();
                    let mut got = false;
                    while let Some(f) = wk.peer.take_frame() {
                        got = true;
                        if let Ok(r) = WorkerResponse::decode(&f[..]) {
                            if r.status != PROCESSING {
                                *finals.entry(r.id).or_insert(0) += 1;
                            }
                        }
                    }
                    if got {
                        last = Instant::now();
                    } else {
                        std::thread::sleep(Duration::from_millis(2));
                    }
                }
                let mut once = 0;
                for i in 0..written {
                    match finals.get(&idof(i)).copied().unwrap_or(0) {
                        1 => once += 1,
                        0 => out.viol("no-answer", &format!("burst of {n}: request {i} never got its final answer (back-pressure on the command channel)")),
                        k => out.viol("two-answers", &format!("burst of {n}: request {i} got {k} final answers")),
                    }
                }
                out.obs(&[tn(once as i128)]);
                wk.send("BURST-STOP", &Request { request_type: Some(RequestType::HardStop(HardStop {})) });
                let t1 = Instant::now();
                while !wk.job.as_ref().map(|j| j.is_finished()).unwrap_or(true) && t1.elapsed() < Duration::from_secs(10) {
                    wk.peer.pump();
                    wk.peer.buf.clear();
                    std::thread::sleep(Duration::from_millis(1));
                }
                wk.peer.close();
            }
            "send" => {
                let Some(wk) = w.as_mut() else {
                    out.note("invalid-case: no worker");
                    out.obs(&[]);
                    continue;
                };
                if dead {
                    out.obs(&[ts("gone")]);
                    continue;
                }
                let verb = op.args[0].s().to_string();
                let k = op.args[1].n() as usize;
                let Some(req) = mk(&verb, k, wk.base_port) else {
                    out.note(&format!("invalid-case: cannot build {verb}"));
                    out.obs(&[]);
                    continue;
                };
                wk.n += 1;
                let id = format!("REQ-{}", wk.n);
                let master_ok = wk.master.dispatch(&req).is_ok();
                wk.send(&id, &req);
                let mut statuses = vec![];
                match wk.collect(&id, &mut statuses) {
                    Some((fin, pr)) => {
                        if fin != 1 {
                            out.viol(if fin == 0 { "no-answer" } else { "two-answers" }, &format!("{verb} {k}: {fin} final answers (statuses {statuses:?}), {pr} processing"));
                        }
                        out.obs(&[tn(fin), tn(pr)]);
                        let worker_ok = statuses.first() == Some(&OK);
                        // a verb no worker code handles (main-process verbs, no request_type) must be refused,
                        // not acknowledged: nothing was done (theorem unserved_request_is_refused)
                        const MAIN_ONLY: [&str; 14] = [
                            "None", "SaveState", "LoadState", "ListWorkers", "ListFrontends", "ListListeners", "CountRequests",
                            "SubscribeEvents", "UpgradeMain", "UpgradeWorker", "LaunchWorker", "ReloadConfiguration",
                            "QueryCertificatesFromTheState", "QueryHealthChecks",
                        ];
                        if fin == 1 && worker_ok && MAIN_ONLY.contains(&verb.as_str()) {
                            out.viol("unserved-ok", &format!("{verb} {k}: a request no worker code handles was answered OK"));
                        }
                        wk.probe(&verb, k, master_ok, worker_ok, out);
                    }
                    None => {
                        dead = true;
                        let why = match wk.job.take().map(|j| j.join()) {
                            Some(Err(e)) => e.downcast_ref::<String>().cloned().or_else(|| e.downcast_ref::<&str>().map(|s| s.to_string())).unwrap_or_else(|| "panic".into()),
                            Some(Ok(())) => "run() returned".into(),
                            None => "no answer to the barrier within 20 s".into(),
                        };
                        out.viol("worker-died", &format!("{verb} {k}: the worker stopped answering ({why})"));
                        out.obs(&[ts("died")]);
                    }
                }
            }
            "view" => {
                // view_tracks_master: the worker's cluster hashes equal the master's for the same sequence
                let Some(wk) = w.as_mut() else {
                    out.obs(&[]);
                    continue;
                };
                if dead {
                    out.obs(&[ts("gone")]);
                    continue;
                }
                wk.n += 1;
                let id = format!("REQ-{}", wk.n);
                wk.send(&id, &Request { request_type: Some(RequestType::QueryClustersHashes(QueryClustersHashes {})) });
                let bar = id.clone();
                let mut got = None;
                let t0 = Instant::now();
                while t0.elapsed() < Duration::from_secs(20) {
                    if let Some(f) = wk.peer.wait_frame(200) {
                        if let Ok(r) = WorkerResponse::decode(&f[..]) {
                            if r.id == bar && r.status != PROCESSING {
                                got = Some(r);
                                break;
                            }
                        }
                    }
                }
                let mine = wk.master.hash_state();
                let same = match got.and_then(|r| r.content).and_then(|c| c.content_type) {
                    Some(sozu_command_lib::proto::command::response_content::ContentType::ClusterHashes(h)) => h.map == mine,
                    _ => false,
                };
                if !same {
                    out.viol("view-drift", "the worker's cluster hashes differ from the main process' state after the same request sequence");
                }
                out.obs(&[tbool(same)]);
            }
            "stop" => {
                let Some(wk) = w.as_mut() else {
                    out.obs(&[]);
                    continue;
                };
                if dead {
                    out.obs(&[ts("gone")]);
                    continue;
                }
                // one or more requests written back-to-back (one write): soft / hard stops and
                // plain Status requests; everything up to and including the first hard stop
                // must get exactly one final answer
                let kinds: Vec<String> = op.args.iter().map(|a| a.s().to_string()).collect();
                let mut ids = vec![];
                let mut bytes = vec![];
                for k in &kinds {
                    wk.n += 1;
                    let id = format!("REQ-{}", wk.n);
                    let req = match k.as_str() {
                        "hard" => RequestType::HardStop(HardStop {}),
                        "soft" => RequestType::SoftStop(SoftStop {}),
                        _ => RequestType::Status(Status {}),
                    };
                    let wr = WorkerRequest { id: id.clone(), content: Request { request_type: Some(req) } };
                    bytes.extend_from_slice(&frame(&wr.encode_to_vec()));
                    ids.push(id);
                }
                if let Some(sock) = wk.peer.sock.as_mut() {
                    sock.set_nonblocking(false).ok();
                    let _ = sock.write_all(&bytes);
                }
                let mut fin = vec![0usize; ids.len()];
                let mut pr = vec![0usize; ids.len()];
                let t0 = Instant::now();
                let mut finished_at: Option<Instant> = None;
                loop {
                    if let Some(f) = wk.peer.wait_frame(50) {
                        if let Ok(r) = WorkerResponse::decode(&f[..]) {
                            if let Some(i) = ids.iter().position(|x| *x == r.id) {
                                if r.status == PROCESSING { pr[i] += 1 } else { fin[i] += 1 }
                            }
                        }
                        continue;
                    }
                    if wk.job.as_ref().map(|j| j.is_finished()).unwrap_or(true) && finished_at.is_none() {
                        finished_at = Some(Instant::now());
                    }
                    if wk.peer.eof || finished_at.map(|t| t.elapsed() > Duration::from_millis(100)).unwrap_or(false) || t0.elapsed() > Duration::from_secs(20) {
                        break;
                    }
                }
                // the channel may close a little before the thread has returned
                let tj = Instant::now();
                while !wk.job.as_ref().map(|j| j.is_finished()).unwrap_or(true) && tj.elapsed() < Duration::from_secs(if fin.iter().any(|f| *f >= 1) { 10 } else { 1 }) {
                    std::thread::sleep(Duration::from_millis(1));
                }
                let joined = match wk.job.take() {
                    Some(j) if j.is_finished() => j.join().is_ok(),
                    Some(_) => false,
                    None => false,
                };
                dead = true;
                let label = kinds.join("+");
                if !joined {
                    out.viol("worker-died", &format!("{label} stop: the worker thread did not end cleanly"));
                }
                let served = kinds.iter().position(|k| k == "hard").map(|p| p + 1).unwrap_or(kinds.len());
                for i in 0..served {
                    if fin[i] != 1 {
                        out.viol(if fin[i] == 0 { "no-answer" } else { "two-answers" },
                                 &format!("{label} stop: request {} ({}) got {} final answers, {} processing", i + 1, kinds[i], fin[i], pr[i]));
                    }
                }
                // the count of the stops' own answers is judged by the oracle above (soft-stop
                // completion depends on the session table, which the model abstracts as EDrained)
                out.obs(&[ts("stopped")]);
            }
            "end" => {
                if let Some(mut wk) = w.take() {
                    out.note(&format!("probes: {} connect, {} http, {} tcp, {} udp, {} tls", wk.n_listen, wk.n_http, wk.n_tcp, wk.n_udp, wk.n_tls));
                    wk.stop.store(true, std::sync::atomic::Ordering::Relaxed);
                    if !dead {
                        // a worker run in a thread never drops its listen sockets: deactivating the
                        // listeners closes them, so that the block of ports can be used again
                        for (p, proxy) in [(0u16, 0i32), (1, 1), (2, 2), (2, 3)] {
                            wk.n += 1;
                            let id = format!("REQ-{}", wk.n);
                            wk.send(&id, &Request { request_type: Some(RequestType::DeactivateListener(DeactivateListener { address: addr(wk.base_port + p), proxy, to_scm: false })) });
                        }
                        let mut sink = vec![];
                        let _ = wk.collect("none", &mut sink);
                        wk.n += 1;
                        let id = format!("REQ-{}", wk.n);
                        wk.send(&id, &Request { request_type: Some(RequestType::HardStop(HardStop {})) });
                        let t0 = Instant::now();
                        while !wk.job.as_ref().map(|j| j.is_finished()).unwrap_or(true) && t0.elapsed() < Duration::from_secs(10) {
                            wk.peer.pump();
                            std::thread::sleep(Duration::from_millis(1));
                        }
                        if let Some(j) = wk.job.take() {
                            if j.is_finished() {
                                if j.join().is_err() {
                                    out.viol("worker-died", "the worker panicked while stopping");
                                }
                            }
                        }
                    }
                    wk.peer.close();
                }
                out.obs(&[ts("end")]);
            }
            _ => {
                out.note(&format!("invalid-case: unknown op {}", op.name));
                out.obs(&[]);
            }
        }
    }
}

static NEXT_BLOCK: std::sync::atomic::AtomicUsize = std::sync::atomic::AtomicUsize::new(0);

/// a block of 8 ports below the ephemeral range that nobody is using right now (a worker
/// run in a thread never closes its listen sockets, so every case takes a fresh block).
/// The block is claimed by binding its last port, which nothing else uses, and keeping that
/// socket for the duration of the case: two drivers running at the same time (two benches,
/// two tiers) can then never take the same block between the probe and the binds.
fn pick_base() -> (u16, std::net::TcpListener) {
    let pid = std::process::id() as usize;
    for _ in 0..2700 {
        let n = NEXT_BLOCK.fetch_add(1, std::sync::atomic::Ordering::Relaxed);
        let base = 10000 + (((pid * 61 + n) % 2700) as u16) * 8;
        let Ok(claim) = std::net::TcpListener::bind(("127.0.0.1", base + 7)) else {
            continue;
        };
        let free = (0u16..6).all(|d| {
            std::net::TcpListener::bind(("127.0.0.1", base + d)).is_ok() && std::net::UdpSocket::bind(("127.0.0.1", base + d)).is_ok()
        });
        if free {
            return (base, claim);
        }
    }
    panic!("no free port block");
}

fn main() {
    drive(run);
}
