//! C14 black-box tier: a real worker (HTTP/1 listener, cluster with `http2 =
//! true`), a scripted byte-accounting h2c backend that announces its own
//! SETTINGS_INITIAL_WINDOW_SIZE, grants WINDOW_UPDATEs only for what it has
//! received and keeps its own ledger, and an HTTP/1 client that POSTs bodies
//! through the proxy on one keep-alive connection.
//!
//! usage: c14bb <backend initial window> <body bytes> <requests>
//! prints `obs ...` lines and, when a DATA frame exceeds what the backend
//! granted, `viol over-stream-window ...` / `viol over-connection-window ...`.
use std::{
    collections::HashMap,
    io::{Read, Write},
    net::{SocketAddr, TcpListener, TcpStream},
    os::fd::IntoRawFd,
    os::unix::net::UnixStream,
    sync::mpsc,
    time::{Duration, Instant},
};

use sozu_command_lib::{
    channel::Channel,
    config::{ConfigBuilder, FileConfig, ListenerBuilder},
    proto::command::{
        request::RequestType, ActivateListener, AddBackend, Cluster, ListenerType, LoadBalancingParams, PathRule,
        Request, RequestHttpFrontend, RulePosition, ServerConfig, SocketAddress, WorkerRequest, WorkerResponse,
    },
    scm_socket::{Listeners, ScmSocket},
    state::ConfigState,
};
use sozu_lib::server::Server;

fn free_port() -> u16 {
    TcpListener::bind("127.0.0.1:0").unwrap().local_addr().unwrap().port()
}

fn frame(t: u8, flags: u8, sid: u32, payload: &[u8]) -> Vec<u8> {
    let mut v = vec![(payload.len() >> 16) as u8, (payload.len() >> 8) as u8, payload.len() as u8, t, flags];
    v.extend_from_slice(&sid.to_be_bytes());
    v.extend_from_slice(payload);
    v
}

/// the backend: returns its findings through the channel
fn backend(listener: TcpListener, w: u32, tx: mpsc::Sender<String>) {
    listener.set_nonblocking(false).unwrap();
    let deadline = Instant::now() + Duration::from_secs(20);
    while Instant::now() < deadline {
        let Ok((mut s, _)) = listener.accept() else { return };
        s.set_read_timeout(Some(Duration::from_secs(6))).unwrap();
        let mut pre = [0u8; 24];
        if s.read_exact(&mut pre).is_err() {
            continue;
        }
        let mut settings = vec![0u8, 4];
        settings.extend_from_slice(&w.to_be_bytes());
        let _ = s.write_all(&frame(4, 0, 0, &settings));
        let mut acked = false;
        let mut credit: HashMap<u32, i64> = HashMap::new();
        let mut sent: HashMap<u32, i64> = HashMap::new();
        let mut flagged: HashMap<u32, bool> = HashMap::new();
        let (mut credit_conn, mut sent_conn) = (65535i64, 0i64);
        loop {
            let mut h = [0u8; 9];
            if s.read_exact(&mut h).is_err() {
                break;
            }
            let len = ((h[0] as usize) << 16) | ((h[1] as usize) << 8) | h[2] as usize;
            let (t, flags) = (h[3], h[4]);
            let sid = u32::from_be_bytes([h[5], h[6], h[7], h[8]]) & 0x7fff_ffff;
            let mut p = vec![0u8; len];
            if s.read_exact(&mut p).is_err() {
                break;
            }
            match t {
                4 => {
                    if flags & 1 == 0 {
                        let _ = s.write_all(&frame(4, 1, 0, &[]));
                    } else {
                        acked = true;
                        let _ = tx.send("obs settings-acked".into());
                    }
                }
                6 => {
                    if flags & 1 == 0 {
                        let _ = s.write_all(&frame(6, 1, 0, &p));
                    }
                }
                1 => {
                    // a stream opened after sozu acknowledged our SETTINGS starts with OUR initial window;
                    // before the acknowledgement the default (65535) is what sozu may assume
                    let c = if acked { w as i64 } else { (w as i64).max(65535) };
                    credit.entry(sid).or_insert(c);
                    sent.entry(sid).or_insert(0);
                    let _ = tx.send(format!("obs headers stream={sid} after_ack={acked} credit={c}"));
                    if flags & 1 != 0 {
                        let _ = s.write_all(&frame(1, 5, sid, &[0x88]));
                    }
                }
                0 => {
                    let n = len as i64;
                    *sent.entry(sid).or_insert(0) += n;
                    sent_conn += n;
                    let c = *credit.entry(sid).or_insert(w as i64);
                    if sent[&sid] > c && !flagged.get(&sid).copied().unwrap_or(false) {
                        flagged.insert(sid, true);
                        let _ = tx.send(format!(
                            "viol over-stream-window backend stream {sid}: {} DATA bytes received, {c} granted (initial window {w}, after_ack={acked})",
                            sent[&sid]
                        ));
                    }
                    if sent_conn > credit_conn {
                        let _ = tx.send(format!("viol over-connection-window {sent_conn} DATA bytes received, {credit_conn} granted"));
                    }
                    if len > 16384 {
                        let _ = tx.send(format!("viol over-max-frame DATA frame of {len} bytes, max frame size 16384"));
                    }
                    let _ = tx.send(format!("obs data stream={sid} len={len} total={}", sent[&sid]));
                    if n > 0 {
                        // replenish exactly what arrived
                        let inc = (len as u32).to_be_bytes();
                        let _ = s.write_all(&frame(8, 0, 0, &inc));
                        let _ = s.write_all(&frame(8, 0, sid, &inc));
                        credit_conn += n;
                        *credit.get_mut(&sid).unwrap() += n;
                    }
                    if flags & 1 != 0 {
                        let _ = s.write_all(&frame(1, 5, sid, &[0x88]));
                    }
                }
                3 => {
                    let _ = tx.send(format!("obs rst stream={sid}"));
                }
                7 => {
                    let _ = tx.send("obs goaway".into());
                    break;
                }
                _ => {}
            }
        }
    }
}

fn main() {
    let args: Vec<String> = std::env::args().collect();
    let w: u32 = args.get(1).and_then(|x| x.parse().ok()).unwrap_or(1000);
    let body: usize = args.get(2).and_then(|x| x.parse().ok()).unwrap_or(30000);
    let nreq: usize = args.get(3).and_then(|x| x.parse().ok()).unwrap_or(2);
    let _ = sozu_command_lib::logging::setup_logging("file:///dev/null", false, None, None, None, "error", "C14BB");

    let front: SocketAddr = format!("127.0.0.1:{}", free_port()).parse().unwrap();
    let back_listener = TcpListener::bind("127.0.0.1:0").unwrap();
    let back: SocketAddr = back_listener.local_addr().unwrap();
    let (tx, rx) = mpsc::channel::<String>();
    let txb = tx.clone();
    std::thread::spawn(move || backend(back_listener, w, txb));

    // worker
    let config = ConfigBuilder::new(FileConfig::default(), "").into_config().expect("config");
    let sc = ServerConfig::from(&config);
    let (mut main_ch, worker_ch): (Channel<WorkerRequest, WorkerResponse>, Channel<WorkerResponse, WorkerRequest>) =
        Channel::generate(sc.command_buffer_size, sc.max_command_buffer_size).expect("channel");
    let (s1, s2) = UnixStream::pair().unwrap();
    let scm_main = ScmSocket::new(s1.into_raw_fd()).expect("scm");
    let scm_worker = ScmSocket::new(s2.into_raw_fd()).expect("scm");
    scm_main.send_listeners(&Listeners::default()).expect("send listeners");
    let sc2 = sc.clone();
    std::thread::spawn(move || {
        let mut server =
            Server::try_new_from_config(worker_ch, scm_worker, sc2, ConfigState::new().produce_initial_state(), false)
                .expect("worker");
        server.run();
    });
    let fa: SocketAddress = front.into();
    let reqs = vec![
        RequestType::AddHttpListener(ListenerBuilder::new_http(fa.clone()).to_http(None).unwrap()),
        RequestType::ActivateListener(ActivateListener { address: fa.clone(), proxy: ListenerType::Http.into(), from_scm: false }),
        RequestType::AddCluster(Cluster { cluster_id: "c0".into(), http2: Some(true), ..Default::default() }),
        RequestType::AddHttpFrontend(RequestHttpFrontend {
            cluster_id: Some("c0".into()),
            address: fa.clone(),
            hostname: "localhost".into(),
            path: PathRule::prefix("/".to_string()),
            position: RulePosition::Tree.into(),
            ..Default::default()
        }),
        RequestType::AddBackend(AddBackend {
            cluster_id: "c0".into(),
            backend_id: "c0-0".into(),
            address: back.into(),
            load_balancing_parameters: Some(LoadBalancingParams::default()),
            sticky_id: None,
            backup: None,
        }),
    ];
    main_ch.blocking().expect("blocking");
    for (i, r) in reqs.into_iter().enumerate() {
        main_ch
            .write_message(&WorkerRequest { id: format!("ID-{i}"), content: Request { request_type: Some(r) } })
            .expect("write");
    }
    std::thread::sleep(Duration::from_millis(500));

    // client
    let mut ok = 0;
    if let Ok(mut c) = TcpStream::connect(front) {
        c.set_read_timeout(Some(Duration::from_secs(6))).unwrap();
        for i in 0..nreq {
            let head = format!("POST /r{i} HTTP/1.1\r\nHost: localhost\r\nContent-Length: {body}\r\n\r\n");
            if c.write_all(head.as_bytes()).is_err() || c.write_all(&vec![b'x'; body]).is_err() {
                break;
            }
            let mut acc = Vec::new();
            let mut buf = [0u8; 4096];
            let t0 = Instant::now();
            while t0.elapsed() < Duration::from_secs(6) {
                match c.read(&mut buf) {
                    Ok(0) => break,
                    Ok(n) => {
                        acc.extend_from_slice(&buf[..n]);
                        if acc.windows(4).any(|w| w == b"\r\n\r\n") {
                            break;
                        }
                    }
                    Err(_) => break,
                }
            }
            let line = String::from_utf8_lossy(&acc).lines().next().unwrap_or("").to_string();
            println!("obs response {i} {}", line.replace(' ', "_"));
            if line.contains("200") {
                ok += 1;
            } else {
                break;
            }
        }
    } else {
        println!("note could-not-connect-front");
    }
    std::thread::sleep(Duration::from_millis(300));
    drop(tx);
    while let Ok(l) = rx.try_recv() {
        println!("{l}");
    }
    println!("obs done responses_ok={ok} of {nreq}");
    std::process::exit(0);
}
