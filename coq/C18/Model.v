(** C18 — executable model of the PROXY-v2 codec
    ([lib/src/protocol/proxy_protocol/{header,parser}.rs]), of the three
    PROXY-protocol session states ([expect.rs], [send.rs], [relay.rs]), of
    [Pipe] ([lib/src/protocol/pipe.rs], buffered path) and of the readiness
    loop of [TcpSession::ready_inner] ([lib/src/tcp.rs]).

    A socket is a value: the bytes that have arrived and are not yet read
    ([inq]), the peer's end-of-stream and error flags, a write window
    ([wcap]; [None] = unlimited, [Some 0] = every write is a WouldBlock), a
    write-closed flag (EPIPE) and the bytes handed to the peer ([outq]).
    [sock_read]/[sock_write] are [tcp_socket_read]/[tcp_socket_write] of
    [lib/src/socket.rs] over that value.

    The model is of the tree *after* the [fix:] commits (relay keeps the
    parsed header in its buffer; expect hands the bytes read past the header to
    the pipe; the backend is connected after the expected header; the client's
    end-of-stream no longer closes the pipe before its bytes are forwarded).
    No proofs in this file. *)
From Coq Require Import List Arith NArith Lia Bool.
From SV Require Import Common.Buf C18.Gen.
Import ListNotations.

(* ------------------------------------------------------------------ *)
(** * Codec *)

Definition sig : list N := [13;10;13;10;0;13;10;81;85;73;84;10]%N.

Inductive command := Local | Proxy.

Inductive paddr :=
| AUnspec
| A4 (src dst : list N) (sport dport : N)
| A6 (src dst : list N) (sport dport : N)
| AUnix (src dst : list N).

Record header := mkh { hcmd : command; hfam : N; haddr : paddr }.

(** [u16_to_array_of_u8] *)
Definition be16 (x : N) : list N := [N.modulo (N.div x 256) 256; N.modulo x 256]%N.

(** [ProxyAddr::len] *)
Definition addr_len (a : paddr) : nat :=
  match a with AUnspec => 0 | A4 _ _ _ _ => 12 | A6 _ _ _ _ => 36 | AUnix _ _ => 216 end.

(** [ProxyAddr::write_bytes_to] *)
Definition addr_bytes (a : paddr) : list N :=
  match a with
  | AUnspec => []
  | A4 s d sp dp => s ++ d ++ be16 sp ++ be16 dp
  | A6 s d sp dp => s ++ d ++ be16 sp ++ be16 dp
  | AUnix s d => s ++ d
  end.

Definition cmd_byte (c : command) : N := match c with Local => 32%N | Proxy => 33%N end.

(** [HeaderV2::into_bytes] *)
Definition into_bytes (h : header) : list N :=
  sig ++ [cmd_byte (hcmd h)] ++ [hfam h] ++ be16 (N.of_nat (addr_len (haddr h))) ++ addr_bytes (haddr h).

(** [get_family] *)
Definition get_family (a : paddr) : N :=
  match a with AUnspec => 0%N | A4 _ _ _ _ => 17%N | A6 _ _ _ _ => 33%N | AUnix _ _ => 49%N end.

(** [ProxyAddr::from] + [HeaderV2::new]: a same-family pair gives the concrete
    variant, a mixed pair collapses to AF_UNSPEC.  An IP is its octet list. *)
Definition addr_from (src : list N) (sp : N) (dst : list N) (dp : N) : paddr :=
  if (length src =? 4) && (length dst =? 4) then A4 src dst sp dp
  else if (length src =? 16) && (length dst =? 16) then A6 src dst sp dp
  else AUnspec.

Definition header_new (c : command) (src : list N) (sp : N) (dst : list N) (dp : N) : header :=
  let a := addr_from src sp dst dp in mkh c (get_family a) a.

(** nom streaming combinators *)
Inductive pr (A : Type) := Inc | Er | Done (rest : list N) (a : A).
Arguments Inc {A}.
Arguments Er {A}.
Arguments Done {A} _ _.

(** [tag] (streaming): a mismatch inside the common prefix is an error, a
    short input that matches so far is incomplete *)
Fixpoint tag (t i : list N) : pr unit :=
  match t with
  | [] => Done i tt
  | a :: t' =>
    match i with
    | [] => Inc
    | b :: i' => if N.eqb a b then tag t' i' else Er
    end
  end.

Definition take (n : nat) (i : list N) : pr (list N) :=
  if length i <? n then Inc else Done (skipn n i) (firstn n i).

Definition be_u8 (i : list N) : pr N :=
  match i with [] => Inc | b :: r => Done r b end.

Definition be_u16 (i : list N) : pr N :=
  match i with a :: b :: r => Done r (256 * a + b)%N | _ => Inc end.

(** [parse_ipv4_on_v2] / [parse_ipv6_on_v2] with the address width [w] *)
Definition parse_ip (w : nat) (mk : list N -> list N -> N -> N -> paddr) (i : list N) : pr paddr :=
  match take w i with
  | Done i1 s =>
    match take w i1 with
    | Done i2 d =>
      match be_u16 i2 with
      | Done i3 sp =>
        match be_u16 i3 with
        | Done i4 dp => Done i4 (mk s d sp dp)
        | Inc => Inc | Er => Er
        end
      | Inc => Inc | Er => Er
      end
    | Inc => Inc | Er => Er
    end
  | Inc => Inc | Er => Er
  end.

(** [parse_addr_v2] *)
Definition parse_addr (family : N) (i : list N) : pr paddr :=
  let nib := N.modulo (N.div family 16) 16 in
  if N.eqb nib 0 then Done i AUnspec
  else if N.eqb nib 1 then parse_ip 4 A4 i
  else if N.eqb nib 2 then parse_ip 16 A6 i
  else Er.

(** [parse_command] *)
Definition parse_command (i : list N) : pr command :=
  match i with
  | [] => Inc
  | c :: r => if N.eqb c 32 then Done r Local else if N.eqb c 33 then Done r Proxy else Er
  end.

Inductive pres := PIncomplete | PError | POk (rest : list N) (h : header).

(** [parse_v2_header] *)
Definition parse_v2 (i : list N) : pres :=
  match tag sig i with
  | Inc => PIncomplete | Er => PError
  | Done i1 _ =>
    match parse_command i1 with
    | Inc => PIncomplete | Er => PError
    | Done i2 cmd =>
      match be_u8 i2 with
      | Inc => PIncomplete | Er => PError
      | Done i3 fam =>
        match be_u16 i3 with
        | Inc => PIncomplete | Er => PError
        | Done i4 len =>
          match take (N.to_nat len) i4 with
          | Inc => PIncomplete | Er => PError
          | Done rest data =>
            match parse_addr fam data with
            | Inc => PIncomplete | Er => PError
            | Done _ a => POk rest (mkh cmd fam a)
            end
          end
        end
      end
    end
  end.

(* ------------------------------------------------------------------ *)
(** * Sockets and readiness *)

Inductive sres := SContinue | SClosed | SWouldBlock | SError.

Record sock := mksock {
  inq : list N; ieof : bool; ierr : bool;
  wcap : option nat; wclosed : bool; outq : list N
}.

Definition sock0 : sock := mksock [] false false None false [].

Definition sres_eqb (a b : sres) : bool :=
  match a, b with
  | SContinue, SContinue | SClosed, SClosed | SWouldBlock, SWouldBlock | SError, SError => true
  | _, _ => false
  end.

(** [tcp_socket_read] into a slice of [space] bytes *)
Definition sock_read (s : sock) (space : nat) : sock * list N * sres :=
  let n := Nat.min space (length (inq s)) in
  (mksock (skipn n (inq s)) (ieof s) (ierr s) (wcap s) (wclosed s) (outq s),
   firstn n (inq s),
   if n =? space then SContinue
   else if ierr s then SError else if ieof s then SClosed else SWouldBlock).

Definition accept_len (s : sock) (d : list N) : nat :=
  match wcap s with None => length d | Some c => Nat.min c (length d) end.

Definition sock_after_write (s : sock) (d : list N) (n : nat) : sock :=
  mksock (inq s) (ieof s) (ierr s)
         (match wcap s with None => None | Some c => Some (c - n) end)
         (wclosed s) (outq s ++ firstn n d).

(** [tcp_socket_write] *)
Definition sock_write (s : sock) (d : list N) : sock * nat * sres :=
  if wclosed s then (s, 0, SClosed)
  else
    let n := accept_len s d in
    (sock_after_write s d n, n, if n =? length d then SContinue else SWouldBlock).

(** one [write(2)] as [send.rs]/[relay.rs] use it ([socket.write]) *)
Inductive wres := WOk (n : nat) | WBlock | WErr.
Definition raw_write (s : sock) (d : list N) : sock * wres :=
  if wclosed s then (s, WErr)
  else
    let n := accept_len s d in
    if (n =? 0) && negb (length d =? 0) then (s, WBlock)
    else (sock_after_write s d n, WOk n).

(** [Ready]: READABLE=1 WRITABLE=2 ERROR=4 HUP=8 *)
Record rd := mkrd { rr : bool; rw : bool; re : bool; rh : bool }.
Definition rd_empty : rd := mkrd false false false false.
Definition rd_all : rd := mkrd true true true true.
Definition rd_and (a b : rd) : rd := mkrd (rr a && rr b) (rw a && rw b) (re a && re b) (rh a && rh b).
Definition rd_or (a b : rd) : rd := mkrd (rr a || rr b) (rw a || rw b) (re a || re b) (rh a || rh b).
Definition rd_is_empty (a : rd) : bool := negb (rr a || rw a || re a || rh a).
Definition set_r (a : rd) (v : bool) : rd := mkrd v (rw a) (re a) (rh a).
Definition set_w (a : rd) (v : bool) : rd := mkrd (rr a) v (re a) (rh a).
Definition set_h (a : rd) (v : bool) : rd := mkrd (rr a) (rw a) (re a) v.

Inductive result := Continue | Close | Upgrade.

(* ------------------------------------------------------------------ *)
(** * ExpectProxyProtocol *)

Inductive stage := SV4 | SV6 | SUnix.
Definition stage_len (s : stage) : nat :=
  match s with SV4 => window_v4 | SV6 => window_v6 | SUnix => window_unix end.

Record expect := mkx {
  xbuf : list N;          (* frontend_buffer[..index] *)
  xstage : stage;
  xint : rd; xev : rd;
  xaddr : option paddr
}.

Definition expect_new : expect :=
  mkx [] SV4 (mkrd true false true true) rd_empty None.

(** [ExpectProxyProtocol::readable] *)
Definition expect_readable (x : expect) (s : sock) : expect * sock * result :=
  let total := stage_len (xstage x) in
  let '(s', bs, res) := sock_read s (total - length (xbuf x)) in
  let sz := length bs in
  let buf := xbuf x ++ bs in
  let x1 :=
    if 0 <? sz then
      mkx buf (xstage x) (if length buf =? window_unix then set_r (xint x) false else xint x) (xev x) (xaddr x)
    else mkx buf (xstage x) (xint x) (set_r (xev x) false) (xaddr x) in
  let parse (x2 : expect) :=
    match parse_v2 (xbuf x2) with
    | POk rest h => (mkx (xbuf x2) (xstage x2) (xint x2) (xev x2) (Some (haddr h)), s', Upgrade)
    | PIncomplete =>
      match xstage x2 with
      | SV4 => (mkx (xbuf x2) (if length (xbuf x2) =? window_v4 then SV6 else SV4) (xint x2) (xev x2) (xaddr x2), s', Continue)
      | SV6 => (mkx (xbuf x2) (if length (xbuf x2) =? window_v6 then SUnix else SV6) (xint x2) (xev x2) (xaddr x2), s', Continue)
      | SUnix =>
        if length (xbuf x2) =? window_unix
        then (mkx (xbuf x2) SUnix rd_empty rd_empty (xaddr x2), s', Close)
        else (x2, s', Continue)
      end
    | PError => (mkx (xbuf x2) (xstage x2) rd_empty rd_empty (xaddr x2), s', Close)
    end in
  match res with
  | SError => (mkx (xbuf x1) (xstage x1) rd_empty rd_empty (xaddr x1), s', Close)
  | SWouldBlock => parse (mkx (xbuf x1) (xstage x1) (xint x1) (set_r (xev x1) false) (xaddr x1))
  | SClosed => if length (xbuf x1) =? 0 then (x1, s', Close) else parse x1
  | SContinue => parse x1
  end.

(* ------------------------------------------------------------------ *)
(** * Pipe *)

Inductive cstatus := CNormal | CReadOpen | CWriteOpen | CClosed.

Record pipe := mkp {
  fbuf : buf;               (* frontend_buffer: client -> backend *)
  bbuf : buf;               (* backend_buffer: backend -> client *)
  fi : rd; fe : rd; bi : rd; be : rd;
  fst_ : cstatus; bst : cstatus;
  has_back : bool;
  bfin : bool               (* the client's end-of-stream was passed on: shutdown(Write) on the backend socket *)
}.

Definition pipe_new (size : nat) (has_backend : bool) : pipe :=
  mkp (with_capacity size) (with_capacity size) rd_all rd_empty rd_all rd_empty
      CNormal (if has_backend then CNormal else CClosed) has_backend false.

Definition p_fbuf (p : pipe) (b : buf) := mkp b (bbuf p) (fi p) (fe p) (bi p) (be p) (fst_ p) (bst p) (has_back p) (bfin p).
Definition p_bbuf (p : pipe) (b : buf) := mkp (fbuf p) b (fi p) (fe p) (bi p) (be p) (fst_ p) (bst p) (has_back p) (bfin p).
Definition p_fi (p : pipe) (v : rd) := mkp (fbuf p) (bbuf p) v (fe p) (bi p) (be p) (fst_ p) (bst p) (has_back p) (bfin p).
Definition p_fe (p : pipe) (v : rd) := mkp (fbuf p) (bbuf p) (fi p) v (bi p) (be p) (fst_ p) (bst p) (has_back p) (bfin p).
Definition p_bi (p : pipe) (v : rd) := mkp (fbuf p) (bbuf p) (fi p) (fe p) v (be p) (fst_ p) (bst p) (has_back p) (bfin p).
Definition p_be (p : pipe) (v : rd) := mkp (fbuf p) (bbuf p) (fi p) (fe p) (bi p) v (fst_ p) (bst p) (has_back p) (bfin p).
Definition p_fst (p : pipe) (v : cstatus) := mkp (fbuf p) (bbuf p) (fi p) (fe p) (bi p) (be p) v (bst p) (has_back p) (bfin p).
Definition p_bst (p : pipe) (v : cstatus) := mkp (fbuf p) (bbuf p) (fi p) (fe p) (bi p) (be p) (fst_ p) v (has_back p) (bfin p).

(** [reset_readiness_for_close] *)
Definition p_reset (p : pipe) : pipe :=
  mkp (fbuf p) (bbuf p) rd_empty rd_empty rd_empty rd_empty (fst_ p) (bst p) (has_back p) (bfin p).

(** [check_connections] *)
Definition check_connections (p : pipe) : bool :=
  let req := (0 <? avail_data (fbuf p)) || rr (fe p) in
  let resp := (0 <? avail_data (bbuf p)) || rr (be p) in
  match fst_ p, bst p with
  | CNormal, CNormal => true
  | CNormal, CReadOpen => true
  | CNormal, CWriteOpen => req || resp
  | CNormal, CClosed => resp
  | CWriteOpen, CNormal => true
  | CWriteOpen, CReadOpen => true
  | CWriteOpen, CWriteOpen => req || resp
  | CWriteOpen, CClosed => resp
  | CReadOpen, CNormal => true
  | CReadOpen, CReadOpen => false
  | CReadOpen, CWriteOpen => true
  | CReadOpen, CClosed => false
  | CClosed, CNormal => req
  | CClosed, CReadOpen => false
  | CClosed, CWriteOpen => req
  | CClosed, CClosed => false
  end.

(** [propagate_frontend_eof]: the client has half-closed and all its bytes are
    out: shutdown(Write) on the backend socket *)
Definition p_propagate (p : pipe) : pipe :=
  match fst_ p with
  | CWriteOpen =>
    if (avail_data (fbuf p) =? 0) && has_back p
    then mkp (fbuf p) (bbuf p) (fi p) (fe p) (bi p) (be p) (fst_ p) (bst p) (has_back p) true
    else p
  | _ => p
  end.

(** status transition after a 0-byte read that is not a WouldBlock *)
Definition st_read_closed (c : cstatus) : cstatus :=
  match c with CNormal => CWriteOpen | CReadOpen => CClosed | s => s end.
(** status transition after a 0-byte write that is not a WouldBlock *)
Definition st_write_closed (c : cstatus) : cstatus :=
  match c with CNormal => CReadOpen | CWriteOpen => CClosed | s => s end.

(** [Pipe::frontend_hup] *)
Definition pipe_frontend_hup (p : pipe) : pipe * result :=
  if ((0 <? avail_data (fbuf p)) || rr (fe p)) && has_back p then (p, Continue)
  else (p_fst p CClosed, Close).

(** [Pipe::backend_hup] *)
Definition pipe_backend_hup (p : pipe) : pipe * result :=
  if (0 <? avail_data (fbuf p)) && negb (re (be p)) then
    (p_be (p_bi p (set_w (bi p) true)) (set_h (be p) false), Continue)
  else
  let p := p_bst p CClosed in
  if avail_data (bbuf p) =? 0 then
    if rr (be p) then (p_bi p (set_r (bi p) true), Continue) else (p, Close)
  else
    let p := p_fi p (set_w (fi p) true) in
    (if rr (be p) then p_bi p (set_r (bi p) true) else p, Continue).

(** [Pipe::readable] *)
Definition pipe_readable (p : pipe) (s : sock) : pipe * sock * result :=
  if avail_space (fbuf p) =? 0 then
    (p_bi (p_fi p (set_r (fi p) false)) (set_w (bi p) true), s, Continue)
  else
    let '(s', bs, res) := sock_read s (avail_space (fbuf p)) in
    let sz := length bs in
    let p1 :=
      if 0 <? sz then
        let p := p_fbuf p (fst (fill_bytes (fbuf p) bs)) in
        let p := if avail_space (fbuf p) =? 0 then p_fi p (set_r (fi p) false) else p in
        p_bi p (set_w (bi p) true)
      else
        let p := p_fe p (set_r (fe p) false) in
        if sres_eqb res SContinue then p_fst p (st_read_closed (fst_ p)) else p in
    if negb (check_connections p1) then (p_reset p1, s', Close)
    else
      match res with
      | SError => (p_reset p1, s', Close)
      | SClosed =>
        let p2 := p_fst p1 (st_read_closed (fst_ p1)) in
        let p3 := p_fe (p_fi p2 (set_r (fi p2) false)) (set_r (fe p2) false) in
        if negb (check_connections p3) then (p_reset p3, s', Close)
        else let p4 := p_propagate p3 in (p_bi p4 (set_w (bi p4) true), s', Continue)
      | SWouldBlock =>
        let p2 := p_fe p1 (set_r (fe p1) false) in
        (p_bi p2 (set_w (bi p2) true), s', Continue)
      | SContinue => (p_bi p1 (set_w (bi p1) true), s', Continue)
      end.

(** [Pipe::writable]; the [while res == Continue] loop with fuel *)
Fixpoint pipe_writable_loop (fuel : nat) (p : pipe) (s : sock) (sz : nat) (res : sres)
  : pipe * sock * option result * nat * sres :=
  match fuel with
  | O => (p, s, None, sz, res)
  | S fuel' =>
    if negb (sres_eqb res SContinue) then (p, s, None, sz, res)
    else if avail_data (bbuf p) =? 0 then
      (p_fi (p_bi p (set_r (bi p) true)) (set_w (fi p) false), s, Some Continue, sz, res)
    else
      let '(s', n, r) := sock_write s (dat (bbuf p)) in
      let p1 := p_bbuf p (fst (consume (bbuf p) n)) in
      let p2 := if (n =? 0) && sres_eqb r SContinue then p_fst p1 (st_write_closed (fst_ p1)) else p1 in
      if negb (check_connections p2) then (p_reset p2, s', Some Close, sz + n, r)
      else pipe_writable_loop fuel' p2 s' (sz + n) r
  end.

Definition pipe_writable (p : pipe) (s : sock) : pipe * sock * result :=
  if avail_data (bbuf p) =? 0 then
    (p_fi (p_bi p (set_r (bi p) true)) (set_w (fi p) false), s, Continue)
  else
    let '(p1, s', early, sz, res) := pipe_writable_loop 4 p s 0 SContinue in
    match early with
    | Some r => (p1, s', r)
    | None =>
      let p2 := if 0 <? sz then p_bi p1 (set_r (bi p1) true) else p1 in
      match res with
      | SError | SClosed => (p_reset p2, s', Close)
      | SWouldBlock => (p_fe p2 (set_w (fe p2) false), s', Continue)
      | SContinue => (p2, s', Continue)
      end
    end.

(** [Pipe::backend_writable] *)
Fixpoint pipe_bw_loop (fuel : nat) (p : pipe) (s : sock) (res : sres)
  : pipe * sock * option result * sres :=
  match fuel with
  | O => (p, s, None, res)
  | S fuel' =>
    if negb (sres_eqb res SContinue) then (p, s, None, res)
    else if avail_data (fbuf p) =? 0 then
      let p' := p_bi (p_fi p (set_r (fi p) true)) (set_w (bi p) false) in
      if negb (check_connections p') then (p_reset p', s, Some Close, res)
      else (p_propagate p', s, Some Continue, res)
    else
      let '(s', n, r) := sock_write s (dat (fbuf p)) in
      let p1 := p_fbuf p (fst (consume (fbuf p) n)) in
      let p2 := if (n =? 0) && sres_eqb r SContinue then p_bst p1 (st_write_closed (bst p1)) else p1 in
      pipe_bw_loop fuel' p2 s' r
  end.

Definition pipe_backend_writable (p : pipe) (s : sock) : pipe * sock * result :=
  if avail_data (fbuf p) =? 0 then
    (p_bi (p_fi p (set_r (fi p) true)) (set_w (bi p) false), s, Continue)
  else
    let '(p1, s', early, res) :=
      if has_back p then pipe_bw_loop 4 p s SContinue else (p, s, None, SContinue) in
    match early with
    | Some r => (p1, s', r)
    | None =>
      if negb (check_connections p1) then (p_reset p1, s', Close)
      else
        match res with
        | SError | SClosed => (p_reset p1, s', Close)
        | SWouldBlock => (p_be p1 (set_w (be p1) false), s', Continue)
        | SContinue => (p1, s', Continue)
        end
    end.

(** [Pipe::backend_readable] *)
Definition pipe_backend_readable (p : pipe) (s : sock) : pipe * sock * result :=
  if avail_space (bbuf p) =? 0 then (p_bi p (set_r (bi p) false), s, Continue)
  else if negb (has_back p) then (p, s, Continue)
  else
    let '(s', bs, res) := sock_read s (avail_space (bbuf p)) in
    let size := length bs in
    let p1 := p_bbuf p (fst (fill_bytes (bbuf p) bs)) in
    let p2 := if negb (sres_eqb res SContinue) || (size =? 0) then p_be p1 (set_r (be p1) false) else p1 in
    let p3 := if 0 <? size then p_fi p2 (set_w (fi p2) true) else p2 in
    let p4 := if (size =? 0) && sres_eqb res SClosed then p_bst p3 (st_read_closed (bst p3)) else p3 in
    if (size =? 0) && sres_eqb res SClosed && negb (check_connections p4) then (p_reset p4, s', Close)
    else
      match res with
      | SError => (p_reset p4, s', Close)
      | SClosed => if negb (check_connections p4) then (p_reset p4, s', Close) else (p4, s', Continue)
      | SWouldBlock => (p_be p4 (set_r (be p4) false), s', Continue)
      | SContinue => (p4, s', Continue)
      end.

(* ------------------------------------------------------------------ *)
(** * SendProxyProtocol *)

Record send := mks {
  shdr : option (list N);
  scursor : nat;
  sfi : rd; sfe : rd; sbi : rd; sbe : rd;
  sback : bool
}.

Definition send_new : send :=
  mks None 0 (mkrd false false true true) rd_empty (mkrd false false true true) rd_empty false.

(** [SendProxyProtocol::back_writable]; [hdr] is the serialized header of the
    session's addresses ([HeaderV2::new(Proxy, peer, local).into_bytes()]) *)
Fixpoint send_loop (fuel : nat) (x : send) (hdr : list N) (s : sock) : send * sock * result :=
  match fuel with
  | O => (x, s, Close)
  | S fuel' =>
    match raw_write s (skipn (scursor x) hdr) with
    | (s', WOk n) =>
      let x' := mks (shdr x) (scursor x + n) (sfi x) (sfe x) (sbi x) (sbe x) (sback x) in
      if scursor x' =? length hdr then (x', s', Upgrade) else send_loop fuel' x' hdr s'
    | (s', WBlock) => (mks (shdr x) (scursor x) (sfi x) (sfe x) (sbi x) (set_w (sbe x) false) (sback x), s', Continue)
    | (s', WErr) => (x, s', Close)
    end
  end.

Definition send_back_writable (x : send) (hdr0 : list N) (s : sock) : send * sock * result :=
  let hdr := match shdr x with Some h => h | None => hdr0 end in
  let x1 := mks (Some hdr) (scursor x) (sfi x) (sfe x) (sbi x) (sbe x) (sback x) in
  if sback x1 then send_loop (S (S (length hdr))) x1 hdr s else (x1, s, Close).

(** [set_back_connected(Connected)] *)
Definition send_connected (x : send) : send :=
  mks (shdr x) (scursor x) (sfi x) (sfe x) (set_w (sbi x) true) (sbe x) true.

(** [SendProxyProtocol::into_pipe] *)
Definition send_into_pipe (x : send) (size : nat) : pipe :=
  mkp (with_capacity size) (with_capacity size)
      (set_r (sfi x) true) (sfe x) (set_r (sbi x) true) (sbe x) CNormal CNormal true false.

(* ------------------------------------------------------------------ *)
(** * RelayProxyProtocol *)

Record relay := mkr {
  rbuf : buf;
  rcursor : nat;
  rhsize : option nat;
  rfi : rd; rfe : rd; rbi : rd; rbe : rd;
  raddr : option paddr;
  rback : bool
}.

Definition relay_new (size : nat) : relay :=
  mkr (with_capacity size) 0 None (mkrd true false true true) rd_empty (mkrd false false true true) rd_empty None false.

Definition r_reset (x : relay) : relay :=
  mkr (rbuf x) (rcursor x) (rhsize x) rd_empty rd_empty rd_empty rd_empty (raddr x) (rback x).

(** [RelayProxyProtocol::readable] *)
Definition relay_readable (x : relay) (s : sock) : relay * sock * result :=
  let '(s', bs, res) := sock_read s (avail_space (rbuf x)) in
  if 0 <? length bs then
    let x1 := mkr (fst (fill_bytes (rbuf x) bs)) (rcursor x) (rhsize x) (rfi x) (rfe x) (rbi x) (rbe x) (raddr x) (rback x) in
    if sres_eqb res SError then (r_reset x1, s', Close)
    else
      let x2 := if sres_eqb res SWouldBlock
                then mkr (rbuf x1) (rcursor x1) (rhsize x1) (rfi x1) (set_r (rfe x1) false) (rbi x1) (rbe x1) (raddr x1) (rback x1)
                else x1 in
      match parse_v2 (dat (rbuf x2)) with
      | POk rest h =>
        (mkr (rbuf x2) (rcursor x2) (Some (length (dat (rbuf x2)) - length rest))
             (set_r (rfi x2) false) (rfe x2) (set_w (rbi x2) true) (rbe x2) (Some (haddr h)) (rback x2), s', Continue)
      | PIncomplete => (x2, s', Continue)
      | PError => (x2, s', Close)
      end
  else (x, s', Continue).

(** [RelayProxyProtocol::back_writable]; fuel exhaustion = the loop that
    never ends ([None]) *)
Fixpoint relay_loop (fuel : nat) (x : relay) (hs : nat) (s : sock) : relay * sock * option result :=
  match fuel with
  | O => (x, s, None)
  | S fuel' =>
    match raw_write s (dat (rbuf x)) with
    | (s', WOk n) =>
      let x' := mkr (fst (consume (rbuf x) n)) (rcursor x + n) (rhsize x) (rfi x) (rfe x) (rbi x) (rbe x) (raddr x) (rback x) in
      if hs <=? rcursor x' then (x', s', Some Upgrade) else relay_loop fuel' x' hs s'
    | (s', _) => (r_reset x, s', Some Continue)
    end
  end.

Definition relay_back_writable (x : relay) (s : sock) : relay * sock * option result :=
  if rback x then
    match rhsize x with
    | Some hs => relay_loop (S (S (avail_data (rbuf x)))) x hs s
    | None => (x, s, Some Continue)
    end
  else (x, s, Some Continue).

Definition relay_connected (x : relay) : relay :=
  mkr (rbuf x) (rcursor x) (rhsize x) (rfi x) (rfe x) (rbi x) (rbe x) (raddr x) true.

(** [RelayProxyProtocol::into_pipe]: default interests, events carried over,
    the frontend buffer moves into the pipe *)
Definition relay_into_pipe (x : relay) (size : nat) : pipe :=
  mkp (rbuf x) (with_capacity size) rd_all (rfe x) rd_all (rbe x) CNormal CNormal true false.

(** [ExpectProxyProtocol::into_pipe] (+ [set_back_socket] when the backend
    connection exists): the bytes behind the header go to the frontend buffer *)
Definition expect_rest (x : expect) : list N :=
  match parse_v2 (xbuf x) with POk rest _ => rest | _ => [] end.

Definition expect_into_pipe (x : expect) (size : nat) (has_backend : bool) : pipe :=
  let fb := with_capacity size in
  let rest := expect_rest x in
  let n := Nat.min (length rest) (avail_space fb) in
  mkp (fst (fill_bytes fb (firstn n rest))) (with_capacity size)
      rd_all (xev x) rd_all rd_empty CNormal (if has_backend then CNormal else CClosed) has_backend false.

(* ------------------------------------------------------------------ *)
(** * The session: state sum and [TcpSession::ready_inner] *)

Inductive sess := SExpect (x : expect) | SSend (x : send) | SRelay (x : relay) | SPipe (p : pipe) | SDone.

Record env := mkenv {
  se : sess; fsock : sock; bsock : sock;
  bsize : nat;
  back_avail : bool;        (* the backend connection not yet handed to the session *)
  hdr0 : list N             (* what [send] would serialize for this session's addresses *)
}.

Definition fr_int (s : sess) : rd :=
  match s with SExpect x => xint x | SSend x => sfi x | SRelay x => rfi x | SPipe p => fi p | SDone => rd_empty end.
Definition fr_ev (s : sess) : rd :=
  match s with SExpect x => xev x | SSend x => sfe x | SRelay x => rfe x | SPipe p => fe p | SDone => rd_empty end.
Definition br_int (s : sess) : rd :=
  match s with SSend x => sbi x | SRelay x => rbi x | SPipe p => bi p | _ => rd_empty end.
Definition br_ev (s : sess) : rd :=
  match s with SSend x => sbe x | SRelay x => rbe x | SPipe p => be p | _ => rd_empty end.

Definition set_fr_int (s : sess) (v : rd) : sess :=
  match s with
  | SExpect x => SExpect (mkx (xbuf x) (xstage x) v (xev x) (xaddr x))
  | SSend x => SSend (mks (shdr x) (scursor x) v (sfe x) (sbi x) (sbe x) (sback x))
  | SRelay x => SRelay (mkr (rbuf x) (rcursor x) (rhsize x) v (rfe x) (rbi x) (rbe x) (raddr x) (rback x))
  | SPipe p => SPipe (p_fi p v)
  | SDone => SDone
  end.
Definition set_fr_ev (s : sess) (v : rd) : sess :=
  match s with
  | SExpect x => SExpect (mkx (xbuf x) (xstage x) (xint x) v (xaddr x))
  | SSend x => SSend (mks (shdr x) (scursor x) (sfi x) v (sbi x) (sbe x) (sback x))
  | SRelay x => SRelay (mkr (rbuf x) (rcursor x) (rhsize x) (rfi x) v (rbi x) (rbe x) (raddr x) (rback x))
  | SPipe p => SPipe (p_fe p v)
  | SDone => SDone
  end.
Definition set_br_int (s : sess) (v : rd) : sess :=
  match s with
  | SSend x => SSend (mks (shdr x) (scursor x) (sfi x) (sfe x) v (sbe x) (sback x))
  | SRelay x => SRelay (mkr (rbuf x) (rcursor x) (rhsize x) (rfi x) (rfe x) v (rbe x) (raddr x) (rback x))
  | SPipe p => SPipe (p_bi p v)
  | s => s
  end.
Definition set_br_ev (s : sess) (v : rd) : sess :=
  match s with
  | SSend x => SSend (mks (shdr x) (scursor x) (sfi x) (sfe x) (sbi x) v (sback x))
  | SRelay x => SRelay (mkr (rbuf x) (rcursor x) (rhsize x) (rfi x) (rfe x) (rbi x) v (raddr x) (rback x))
  | SPipe p => SPipe (p_be p v)
  | s => s
  end.

Definition e_se (e : env) (s : sess) : env := mkenv s (fsock e) (bsock e) (bsize e) (back_avail e) (hdr0 e).
Definition e_all (e : env) (s : sess) (f b : sock) : env := mkenv s f b (bsize e) (back_avail e) (hdr0 e).

(** the handlers as [TcpSession] dispatches them; [None] = the call never returns *)
Definition h_readable (e : env) : env * option result :=
  match se e with
  | SPipe p => let '(p', f, r) := pipe_readable p (fsock e) in (e_all e (SPipe p') f (bsock e), Some r)
  | SRelay x => let '(x', f, r) := relay_readable x (fsock e) in (e_all e (SRelay x') f (bsock e), Some r)
  | SExpect x => let '(x', f, r) := expect_readable x (fsock e) in (e_all e (SExpect x') f (bsock e), Some r)
  | SSend _ => (e, Some Continue)
  | SDone => (e, Some Close)
  end.
Definition h_writable (e : env) : env * option result :=
  match se e with
  | SPipe p => let '(p', f, r) := pipe_writable p (fsock e) in (e_all e (SPipe p') f (bsock e), Some r)
  | _ => (e, Some Continue)
  end.
Definition h_back_readable (e : env) : env * option result :=
  match se e with
  | SPipe p => let '(p', b, r) := pipe_backend_readable p (bsock e) in (e_all e (SPipe p') (fsock e) b, Some r)
  | _ => (e, Some Continue)
  end.
Definition h_back_writable (e : env) : env * option result :=
  match se e with
  | SPipe p => let '(p', b, r) := pipe_backend_writable p (bsock e) in (e_all e (SPipe p') (fsock e) b, Some r)
  | SRelay x => let '(x', b, r) := relay_back_writable x (bsock e) in (e_all e (SRelay x') (fsock e) b, r)
  | SSend x => let '(x', b, r) := send_back_writable x (hdr0 e) (bsock e) in (e_all e (SSend x') (fsock e) b, Some r)
  | SExpect _ => (e, Some Continue)
  | SDone => (e, Some Close)
  end.
Definition h_front_hup (e : env) : env * option result :=
  match se e with
  | SPipe p => let '(p', r) := pipe_frontend_hup p in (e_se e (SPipe p'), Some r)
  | _ => (e, Some Close)
  end.
Definition h_back_hup (e : env) : env * option result :=
  match se e with
  | SPipe p => let '(p', r) := pipe_backend_hup p in (e_se e (SPipe p'), Some r)
  | _ => (e, Some Close)
  end.

Definition is_continue (r : option result) : bool :=
  match r with Some Continue => true | _ => false end.

(** the [while counter < MAX_LOOP_ITERATIONS] loop of [ready_inner]; running
    out of iterations closes the session *)
Fixpoint ready_loop (fuel : nat) (e : env) : env * option result :=
  match fuel with
  | O => (e, Some Close)
  | S fuel' =>
    let s := se e in
    let fint := rd_and (fr_int s) (fr_ev s) in
    let bint := rd_and (br_int s) (br_ev s) in
    if rd_is_empty fint && rd_is_empty bint then (e, Some Continue)
    else if rh (br_ev s) && rw (fr_int s) && negb (rw (fr_ev s)) then (e, Some Continue)
    else
      let '(e1, r1) := if rr fint then h_readable e else (e, Some Continue) in
      if negb (is_continue r1) then (e1, r1) else
      let '(e2, r2) := if rw bint then h_back_writable e1 else (e1, Some Continue) in
      if negb (is_continue r2) then (e2, r2) else
      let '(e3, r3) := if rr bint then h_back_readable e2 else (e2, Some Continue) in
      if negb (is_continue r3) then (e3, r3) else
      let '(e4, r4) := if rw fint then h_writable e3 else (e3, Some Continue) in
      if negb (is_continue r4) then (e4, r4) else
      let '(e5, r5) := if rh bint then h_back_hup e4 else (e4, Some Continue) in
      if negb (is_continue r5) then (e5, r5) else
      if re fint then
        (e_se e5 (set_br_int (set_fr_int (se e5) rd_empty) rd_empty), Some Close)
      else
        let '(e6, r6) := if re bint then h_back_hup e5 else (e5, Some Continue) in
        if re bint && negb (is_continue r6) then
          (e_se e6 (set_br_int (set_fr_int (se e6) rd_empty) rd_empty), Some Close)
        else ready_loop fuel' e6
  end.

Definition ready_fuel : nat := 1000.

(** [ready_inner] from the front-HUP test on *)
Definition ready_inner (e : env) : env * option result :=
  match se e with
  | SDone => (e, Some Close)
  | s =>
    if rh (fr_ev s) then
      let '(e1, r) := h_front_hup e in
      if is_continue r
      then ready_loop ready_fuel (e_se e1 (set_fr_ev (se e1) (set_h (fr_ev (se e1)) false)))
      else (e1, r)
    else ready_loop ready_fuel e
  end.

(** [TcpSession::upgrade] *)
Definition upgrade (e : env) : env * bool :=
  match se e with
  | SSend x => if sback x then (e_se e (SPipe (send_into_pipe x (bsize e))), true) else (e_se e SDone, false)
  | SRelay x => if rback x then (e_se e (SPipe (relay_into_pipe x (bsize e))), true) else (e_se e SDone, false)
  | SExpect x =>
    (mkenv (SPipe (expect_into_pipe x (bsize e) (back_avail e))) (fsock e) (bsock e) (bsize e) false (hdr0 e), true)
  | _ => (e, false)
  end.

(** [TcpSession::ready]: an Upgrade result upgrades and runs [ready] again *)
Fixpoint ready (fuel : nat) (e : env) : env * option result :=
  match fuel with
  | O => (e, Some Close)
  | S fuel' =>
    match ready_inner e with
    | (e1, Some Upgrade) =>
      let '(e2, ok) := upgrade e1 in
      if ok then ready fuel' e2 else (e2, Some Close)
    | r => r
    end
  end.
