(** C19 — token interface of the model for the correspondence check.

    The affinity hash ([DefaultHasher]) is an oracle: the model is instantiated
    with an injective encoding of the hashed value, and BOTH sides print, in
    place of the 64-bit key, the index of its first occurrence within the case
    (so what is compared is the equality pattern of the keys: the real hash must
    be a function of exactly (affinity mode, affinity key)).  The driver
    separately recomputes the real hash and reports a violation if it differs. *)
From Coq Require Import List Arith ZArith NArith String Bool.
From SV Require Import Common.Tok Common.Slab C19.Model C19.Shell.
Import ListNotations.
Open Scope string_scope.
Open Scope list_scope.

Definition enc_hash (wp : bool) (a : addr) : N :=
  fold_left (fun acc x => (acc * 65536 + x + 1)%N)
            ([if wp then 1%N else 0%N; N.of_nat (List.length (a_ip a))] ++ a_ip a ++ [a_port a]) 0%N.

Record rstate := mkr { rm : mgr; rnow : N; rseen : list N; rtimer : option N; rsel : option nat; rwq : wq }.

(** the flow named by the most recent [SelectBackend] (the shell resolves it at once) *)
Fixpoint last_sel (os : list lout) (acc : option nat) : option nat :=
  match os with
  | [] => acc
  | (_, SelectBackend id _ _) :: os' => last_sel os' (Some id)
  | _ :: os' => last_sel os' acc
  end.

(** the shell's one-shot timer: every [ArmTimer] replaces it *)
Fixpoint last_arm (os : list lout) (acc : option N) : option N :=
  match os with
  | [] => acc
  | (_, ArmTimer d) :: os' => last_arm os' (Some d)
  | _ :: os' => last_arm os' acc
  end.

Fixpoint index_of (v : N) (l : list N) (k : nat) : option nat :=
  match l with
  | [] => None
  | x :: l' => if N.eqb x v then Some k else index_of v l' (S k)
  end.

Definition reason_name (r : drop_reason) : string :=
  match r with
  | DInvalid => "invalid" | DTruncated => "truncated" | DNoBackend => "nobackend"
  | DShed => "shed" | DUnknownFlow => "unknownflow"
  end.

Definition addr_toks (a : addr) : list tok := [TB (a_ip a); tn_N (a_port a)].

(** tokens of one output; threads the list of hash values seen so far *)
Definition out_toks (seen : list N) (o : output) : list N * list tok :=
  match o with
  | SelectBackend id cl key =>
    match index_of key seen 0 with
    | Some k => (seen, [TS "sel"; tn_nat id; TB cl; tn_nat k])
    | None => (seen ++ [key], [TS "sel"; tn_nat id; TB cl; tn_nat (List.length seen)])
    end
  | OpenUpstream id b => (seen, [TS "open"; tn_nat id] ++ addr_toks b)
  | SendToBackend d p => (seen, [TS "tob"] ++ addr_toks d ++ [TB p])
  | SendToClient d p => (seen, [TS "toc"] ++ addr_toks d ++ [TB p])
  | ArmTimer d => (seen, [TS "arm"; tn_N d])
  | Metric MCreated => (seen, [TS "mcreated"])
  | Metric MEvicted => (seen, [TS "mevicted"])
  | Metric MShed => (seen, [TS "mshed"])
  | Metric (MIn n) => (seen, [TS "min"; tn_N n])
  | Metric (MOut n) => (seen, [TS "mout"; tn_N n])
  | Metric (MDropped r) => (seen, [TS "mdrop"; TS (reason_name r)])
  | CloseFlow id => (seen, [TS "close"; tn_nat id])
  | Drop r => (seen, [TS "drop"; TS (reason_name r)])
  end.

Fixpoint outs_toks (seen : list N) (os : list lout) : list N * list tok :=
  match os with
  | [] => (seen, [])
  | (_, o) :: os' =>
    let '(seen1, t) := out_toks seen o in
    let '(seen2, ts) := outs_toks seen1 os' in
    (seen2, t ++ ts)
  end.

Definition st_toks (m : mgr) : list tok :=
  [TS "st"; tn_nat (slen (m_flows m));
   match m_armed m with Some d => tn_N d | None => TN (-1) end;
   tn_N (m_max_flows m); tn_bool (m_draining m); tn_bool (c_with_port (m_cluster m))].

Definition phase_tok (p : phase) : tok :=
  match p with Awaiting => TN 0 | Established => TN 1 | Closing => TN 2 end.

Definition flow_toks (kf : nat * flow) : list tok :=
  let '(id, f) := kf in
  [TS "f"; tn_nat id] ++ addr_toks (f_client f) ++ [phase_tok (f_phase f)]
  ++ match f_backend_id f with Some b => [TB b] | None => [TS "none"] end
  ++ match f_backend_addr f with Some a => addr_toks a | None => [TS "none"] end
  ++ [tn_N (f_req f); tn_N (f_resp f); tn_N (f_deadline f); tn_N (f_gen f); tn_bool (f_first f)]
  ++ match f_pending f with Some p => [TB p] | None => [TS "none"] end
  ++ [tn_bool (c_with_port (f_cfg f)); tn_N (c_requests (f_cfg f)); tn_N (c_responses (f_cfg f))].

Definition cfg_of (args : list tok) : option (cfg * list tok) :=
  match args with
  | TB cl :: TN wp :: TN resp :: TN req :: TN front :: TN back :: TN pp :: TN every :: rest =>
    Some (mkcfg cl (Z.eqb wp 1) (Z.to_N resp) (Z.to_N req) (Z.to_N front) (Z.to_N back)
                (Z.eqb pp 1) (Z.eqb every 1), rest)
  | _ => None
  end.

Definition do_step (st : rstate) (i : input) : rstate * list tok :=
  let '(m', os) := step enc_hash (rm st) (rnow st) i in
  let '(seen', ts) := outs_toks (rseen st) os in
  (mkr m' (rnow st) seen' (last_arm os (rtimer st)) (last_sel os (rsel st)) (rwq st), ts ++ st_toks m').

Definition step_op (st : rstate) (op : list tok) : rstate * list tok :=
  let bad := (st, [TS "badop"]) in
  match op with
  | TS name :: args =>
    if name =? "new" then
      match cfg_of args with
      | Some (c, [TN mf; TN mrx; TN _seed]) =>
        (mkr (mgr_new c (Z.to_N mf) (Z.to_N mrx)) (rnow st) (rseen st) None None (rwq st), [])
      | _ => bad end
    else if name =? "cd" then
      match args with
      | [TB ip; TN port; TB p] => do_step st (IClient (mkaddr ip (Z.to_N port)) p)
      | _ => bad end
    else if name =? "bd" then
      match args with
      | [TN id; TB p] => do_step st (IBackend (Z.to_nat id) p)
      | _ => bad end
    else if name =? "res" then
      match args with
      | [TN id; TB bid; TB ip; TN port] => do_step st (IResolved (Z.to_nat id) bid (mkaddr ip (Z.to_N port)))
      | _ => bad end
    else if name =? "resnew" then
      (* the shell's synchronous resolution of the flow just selected *)
      match args, rsel st with
      | [TB bid; TB ip; TN port], Some id =>
        do_step (mkr (rm st) (rnow st) (rseen st) (rtimer st) None (rwq st)) (IResolved id bid (mkaddr ip (Z.to_N port)))
      | [TB _; TB _; TN _], None => (st, [])
      | _, _ => bad end
    else if name =? "setc" then
      match cfg_of args with
      | Some (c, []) => do_step st (ISetCluster c)
      | _ => bad end
    else if name =? "setmax" then
      match args with [TN n] => do_step st (ISetMaxFlows (Z.to_N n)) | _ => bad end
    else if name =? "setrx" then
      match args with [TN n] => do_step st (ISetMaxRx (Z.to_N n)) | _ => bad end
    else if name =? "drain" then do_step st IDrain
    else if name =? "tick" then
      match args with
      | [TN d] => (mkr (rm st) (rnow st + Z.to_N d)%N (rseen st) (rtimer st) (rsel st) (rwq st), [])
      | _ => bad end
    else if name =? "fire" then
      (* the shell's timer fires, at the armed deadline or [e] ms early *)
      match args, rtimer st with
      | [TN e], Some d =>
        do_step (mkr (rm st) (N.max (rnow st) (d - Z.to_N e)) (rseen st) None (rsel st) (rwq st)) ITimeout
      | [TN _], None => (st, [])
      | _, _ => bad end
    else if name =? "timeout" then do_step st ITimeout
    else if name =? "abort" then
      match args with [TN id] => do_step st (IAbort (Z.to_nat id)) | _ => bad end
    else if name =? "closeall" then do_step st ICloseAll
    else if (name =? "setup") || (name =? "send") || (name =? "sleep") || (name =? "recluster") then
      (* ops of the black-box tier (harness/src/bin/c19e.rs): nothing for the in-process model to do *)
      (st, [])
    else if name =? "wq_new" then
      match args with
      | [TN cap] => (mkr (rm st) (rnow st) (rseen st) (rtimer st) (rsel st) (wq_new (Z.to_nat cap)), [])
      | _ => bad end
    else if name =? "wq_push" then
      match args with
      | [TB ip; TN port; TB p] =>
        let '(q', ok) := wq_push (rwq st) (mkaddr ip (Z.to_N port)) p in
        (mkr (rm st) (rnow st) (rseen st) (rtimer st) (rsel st) q', [tn_bool ok; tn_bool (wq_is_empty q')])
      | _ => bad end
    else if name =? "wq_drain" then
      match args with
      | [TB script] =>
        let sched := map (fun c => if N.eqb c 0 then Sent else if N.eqb c 1 then WouldBlock else HardErr) script in
        let '(rest, sent, _) := wq_drain_items (wq_items (rwq st)) sched in
        (mkr (rm st) (rnow st) (rseen st) (rtimer st) (rsel st) (mkwq rest (wq_cap (rwq st))),
         tn_bool (match rest with [] => true | _ => false end)
         :: flat_map (fun x => addr_toks (fst x) ++ [TB (snd x)]) sent)
      | _ => bad end
    else if name =? "dump" then
      (st, flat_map flow_toks (sitems (m_flows (rm st))))
    else bad
  | _ => bad
  end.

Fixpoint run_from (st : rstate) (ops : list (list tok)) : list (list tok) :=
  match ops with
  | [] => []
  | op :: ops' => let '(st', o) := step_op st op in o :: run_from st' ops'
  end.

Definition empty_cfg : cfg := mkcfg [] false 0 0 0 0 false false.

Definition run_case (ops : list (list tok)) : list (list tok) :=
  run_from (mkr (mgr_new empty_cfg 0 0) 0%N [] None None (wq_new 0)) ops.
