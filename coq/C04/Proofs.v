(** C04 — lemmas. *)
From Coq Require Import List Arith NArith ZArith Bool Lia Permutation.
From SV Require Import Common.Trie Common.TrieProofs C04.Gen C04.Model.
Import ListNotations.

(** the constants read from the source are the ones the proofs need *)
Lemma gen_arms : path_eq_arm_prefix = true /\ path_eq_arm_regex = true /\ path_eq_arm_equals = true.
Proof. repeat split; reflexivity. Qed.
Lemma gen_ranks :
  (rank_prefix < rank_regex)%nat /\ (rank_regex < rank_equals)%nat /\ (mrank_all < mrank_equals)%nat.
Proof. cbv. repeat split; repeat constructor. Qed.

(** ** rule identity *)
Lemma prule_eqb_eq a b : prule_eqb a b = true <-> a = b.
Proof.
  destruct gen_arms as (A1 & A2 & A3).
  destruct a as [ka va], b as [kb vb]; unfold prule_eqb; cbn [p_kind p_val].
  rewrite A1, A2, A3.
  destruct ka, kb; cbn [andb]; rewrite ?beq_eq; split; intros H; try congruence; try discriminate;
    try (inversion H; reflexivity).
Qed.
Lemma mrule_eqb_eq a b : mrule_eqb a b = true <-> a = b.
Proof.
  destruct a, b; cbn [mrule_eqb]; rewrite ?beq_eq; split; intros H; try congruence; try discriminate;
    try (inversion H; reflexivity).
Qed.
Lemma drule_eqb_eq a b : drule_eqb a b = true <-> a = b.
Proof.
  destruct a, b; cbn [drule_eqb]; rewrite ?beq_eq; split; intros H; try congruence; try discriminate;
    try (inversion H; reflexivity); try reflexivity.
Qed.

(** ** ranks *)
Definition rank_lt (a b : rank) : Prop :=
  let '(a1, a2, a3) := a in let '(b1, b2, b3) := b in
  (a1 < b1 \/ (a1 = b1 /\ (a2 < b2 \/ (a2 = b2 /\ a3 < b3))))%nat.

Lemma rank_ltb_lt a b : rank_ltb a b = true <-> rank_lt a b.
Proof.
  destruct a as [[a1 a2] a3], b as [[b1 b2] b3]; unfold rank_ltb, rank_lt.
  rewrite !orb_true_iff, !andb_true_iff, !orb_true_iff, !andb_true_iff, !Nat.ltb_lt, !Nat.eqb_eq. tauto.
Qed.
Lemma rank_lt_irrefl a : ~ rank_lt a a.
Proof. destruct a as [[a1 a2] a3]; unfold rank_lt; lia. Qed.
Lemma rank_lt_trans a b c : rank_lt a b -> rank_lt b c -> rank_lt a c.
Proof. destruct a as [[a1 a2] a3], b as [[b1 b2] b3], c as [[c1 c2] c3]; unfold rank_lt; lia. Qed.
Lemma rank_trich a b : ~ rank_lt a b -> ~ rank_lt b a -> a = b.
Proof.
  destruct a as [[a1 a2] a3], b as [[b1 b2] b3]; unfold rank_lt; intros H1 H2.
  assert (a1 = b1) by lia. assert (a2 = b2) by lia. assert (a3 = b3) by lia. subst; reflexivity.
Qed.
Lemma rank_nlt_trans a b c : ~ rank_lt a b -> ~ rank_lt b c -> ~ rank_lt a c.
Proof. destruct a as [[a1 a2] a3], b as [[b1 b2] b3], c as [[c1 c2] c3]; unfold rank_lt; lia. Qed.

Section Sel.
  Variable re_match : bytes -> bytes -> bool.
  Variables (path m : bytes).

  Definition rr (e : prule * mrule * route) : option rank :=
    let '(p, mr, _) := e in rule_rank re_match p mr path m.
  Definition rt_of (e : prule * mrule * route) : route := let '(_, _, r) := e in r.

  (** The documented choice, stated on membership only: the answer is a
      matching rule of maximal rank [(kind, prefix length, method)]. *)
  Definition is_best (rules : leafv) (o : option route) : Prop :=
    match o with
    | None => forall e, In e rules -> rr e = None
    | Some r => exists e rk, In e rules /\ rt_of e = r /\ rr e = Some rk /\
                             forall e' rk', In e' rules -> rr e' = Some rk' -> ~ rank_lt rk rk'
    end.

  Definition sel_inv (seen : leafv) (best : rank) (matched : option route) : Prop :=
    match matched with
    | None => forall e, In e seen -> rr e = None
    | Some r => exists e, In e seen /\ rt_of e = r /\ rr e = Some best /\
                          forall e' rk', In e' seen -> rr e' = Some rk' -> ~ rank_lt best rk'
    end.

  Lemma select_gen rules : forall seen best matched,
      sel_inv seen best matched ->
      is_best (seen ++ rules) (select_loop re_match rules path m best matched).
  Proof.
    induction rules as [|[[p mr] r] rest IH]; intros seen best matched Inv; cbn [select_loop].
    - rewrite app_nil_r. destruct matched as [r0|]; cbn [sel_inv is_best] in *; [|exact Inv].
      destruct Inv as (e & He & Hr & Hk & Hmax). exists e, best. auto.
    - replace (seen ++ (p, mr, r) :: rest) with ((seen ++ [(p, mr, r)]) ++ rest)
        by (rewrite <- app_assoc; reflexivity).
      destruct (rule_rank re_match p mr path m) as [rk|] eqn:Erk.
      + destruct (negb (is_some matched) || rank_ltb best rk) eqn:Ec.
        * apply IH. cbn [sel_inv]. exists (p, mr, r). repeat split.
          -- apply in_or_app; right; left; reflexivity.
          -- exact Erk.
          -- intros e' rk' Hin Hrk'. apply in_app_or in Hin. destruct Hin as [Hin|[<-|[]]].
             ++ destruct matched as [r0|]; cbn [sel_inv] in Inv.
                ** destruct Inv as (e & He & Hr & Hk & Hmax).
                   cbn [is_some negb orb] in Ec. apply rank_ltb_lt in Ec.
                   intros Hlt. apply (Hmax e' rk' Hin Hrk'). eapply rank_lt_trans; eauto.
                ** rewrite (Inv e' Hin) in Hrk'. discriminate.
             ++ cbn [rr] in Hrk'. rewrite Erk in Hrk'. inversion Hrk'; subst. apply rank_lt_irrefl.
        * apply IH. apply orb_false_iff in Ec. destruct Ec as [Ec1 Ec2].
          destruct matched as [r0|]; [|discriminate]. cbn [sel_inv] in *.
          destruct Inv as (e & He & Hr & Hk & Hmax). exists e. repeat split; auto.
          -- apply in_or_app; left; exact He.
          -- intros e' rk' Hin Hrk'. apply in_app_or in Hin. destruct Hin as [Hin|[<-|[]]].
             ++ eauto.
             ++ cbn [rr] in Hrk'. rewrite Erk in Hrk'. inversion Hrk'; subst.
                intros Hlt. apply rank_ltb_lt in Hlt. congruence.
      + apply IH. destruct matched as [r0|]; cbn [sel_inv] in *.
        * destruct Inv as (e & He & Hr & Hk & Hmax). exists e. repeat split; auto.
          -- apply in_or_app; left; exact He.
          -- intros e' rk' Hin Hrk'. apply in_app_or in Hin. destruct Hin as [Hin|[<-|[]]]; eauto.
             cbn [rr] in Hrk'. congruence.
        * intros e Hin. apply in_app_or in Hin. destruct Hin as [Hin|[<-|[]]]; auto.
  Qed.

  Lemma select_is_best rules :
    is_best rules (select_loop re_match rules path m (0, 0, 0)%nat None).
  Proof. apply (select_gen rules [] (0, 0, 0)%nat None). intros e []. Qed.

  (** no two matching rules of the same rank that decide differently *)
  Definition no_ties (rules : leafv) : Prop :=
    forall e1 e2 rk, In e1 rules -> In e2 rules -> rr e1 = Some rk -> rr e2 = Some rk -> rt_of e1 = rt_of e2.

  Lemma is_best_unique rules o1 o2 :
    no_ties rules -> is_best rules o1 -> is_best rules o2 -> o1 = o2.
  Proof.
    intros NT H1 H2. destruct o1 as [r1|], o2 as [r2|]; cbn [is_best] in *; auto.
    - destruct H1 as (e1 & k1 & I1 & R1 & K1 & M1), H2 as (e2 & k2 & I2 & R2 & K2 & M2).
      assert (k1 = k2) by (apply rank_trich; eauto). subst k2.
      f_equal. rewrite <- R1, <- R2. eapply NT; eauto.
    - destruct H1 as (e1 & k1 & I1 & R1 & K1 & M1). rewrite (H2 e1 I1) in K1. discriminate.
    - destruct H2 as (e2 & k2 & I2 & R2 & K2 & M2). rewrite (H1 e2 I2) in K2. discriminate.
  Qed.

  Lemma is_best_ext rules rules' o :
    (forall e, In e rules <-> In e rules') -> is_best rules o -> is_best rules' o.
  Proof.
    intros E H. destruct o as [r|]; cbn [is_best] in *.
    - destruct H as (e & k & I & R & K & M). exists e, k. repeat split; auto.
      + apply E; exact I.
      + intros e' rk' I'. apply M. apply E; exact I'.
    - intros e I. apply H. apply E; exact I.
  Qed.

  Lemma select_order_independent rules rules' :
    (forall e, In e rules <-> In e rules') -> no_ties rules ->
    select_loop re_match rules path m (0, 0, 0)%nat None = select_loop re_match rules' path m (0, 0, 0)%nat None.
  Proof.
    intros E NT. apply (is_best_unique rules); auto.
    - apply select_is_best.
    - apply (is_best_ext rules'); [intros e; symmetry; apply E|]. apply select_is_best.
  Qed.

  (** ties only arise between two REGEX rules (documented as undefined) *)
  Lemma starts_with_same p q l :
    starts_with p l = true -> starts_with q l = true -> length p = length q -> p = q.
  Proof.
    revert q l; induction p as [|x p IH]; destruct q as [|y q]; cbn [length]; intros l H1 H2 HL; try discriminate; auto.
    destruct l as [|z l]; cbn [starts_with] in *; [discriminate|].
    apply andb_true_iff in H1, H2. destruct H1 as [E1 H1], H2 as [E2 H2].
    apply N.eqb_eq in E1, E2. subst. f_equal. eapply IH; eauto.
  Qed.

  Lemma rule_rank_inv p mr rk :
    rule_rank re_match p mr path m = Some rk ->
    exists k s mm, rk = (k, s, mm) /\
      ((p_kind p = PPrefix /\ starts_with (p_val p) path = true /\ k = rank_prefix /\ s = length (p_val p)) \/
       (p_kind p = PRegex /\ k = rank_regex /\ s = 0%nat) \/
       (p_kind p = PEquals /\ path = p_val p /\ k = rank_equals /\ s = 0%nat)) /\
      ((mr = None /\ mm = mrank_all) \/ (mr = Some m /\ mm = mrank_equals)).
  Proof.
    unfold rule_rank, prule_matches, mrule_matches. intros H.
    destruct (p_kind p) eqn:EK.
    - destruct (starts_with (p_val p) path) eqn:ES; [|discriminate].
      destruct mr as [x|].
      + destruct (beq m x) eqn:EM; [|discriminate]. apply beq_eq in EM; subst x.
        inversion H; subst. do 3 eexists. split; [reflexivity|]. split; [left; auto|right; auto].
      + inversion H; subst. do 3 eexists. split; [reflexivity|]. split; [left; auto|left; auto].
    - destruct (re_match (p_val p) path) eqn:ES; [|discriminate].
      destruct mr as [x|].
      + destruct (beq m x) eqn:EM; [|discriminate]. apply beq_eq in EM; subst x.
        inversion H; subst. do 3 eexists. split; [reflexivity|]. split; [right; left; auto|right; auto].
      + inversion H; subst. do 3 eexists. split; [reflexivity|]. split; [right; left; auto|left; auto].
    - destruct (beq path (p_val p)) eqn:ES; [|discriminate]. apply beq_eq in ES.
      destruct mr as [x|].
      + destruct (beq m x) eqn:EM; [|discriminate]. apply beq_eq in EM; subst x.
        inversion H; subst. do 3 eexists. split; [reflexivity|]. split; [right; right; auto|right; auto].
      + inversion H; subst. do 3 eexists. split; [reflexivity|]. split; [right; right; auto|left; auto].
  Qed.

  Lemma tie_only_regex p1 m1 p2 m2 rk :
    rule_rank re_match p1 m1 path m = Some rk -> rule_rank re_match p2 m2 path m = Some rk ->
    (p1, m1) <> (p2, m2) -> p_kind p1 = PRegex /\ p_kind p2 = PRegex.
  Proof.
    destruct gen_ranks as (G1 & G2 & G3).
    intros H1 H2 NE.
    apply rule_rank_inv in H1, H2.
    destruct H1 as (k1 & s1 & mm1 & -> & P1 & M1), H2 as (k2 & s2 & mm2 & E & P2 & M2).
    inversion E; subst k2 s2 mm2; clear E.
    assert (EM : m1 = m2).
    { destruct M1 as [[-> A]|[-> A]], M2 as [[-> B]|[-> B]]; auto; exfalso; lia. }
    subst m2.
    destruct p1 as [kd1 v1], p2 as [kd2 v2]; cbn [p_kind p_val] in *.
    destruct P1 as [(K1 & S1 & A1 & L1)|[(K1 & A1 & L1)|(K1 & S1 & A1 & L1)]],
             P2 as [(K2 & S2 & A2 & L2)|[(K2 & A2 & L2)|(K2 & S2 & A2 & L2)]];
      subst kd1 kd2; auto; try (exfalso; lia).
    - exfalso. apply NE. f_equal. f_equal. eapply starts_with_same; eauto. lia.
    - exfalso. apply NE. f_equal. f_equal. congruence.
  Qed.
End Sel.

(** ** Refinement of the router to a configuration

    The abstract configuration keeps the pre and post lists as they are (their
    order is part of the documented semantics) and, for the tree, one rule
    list per hostname ([s_tree], a function: [[]] = no frontend on that
    host).  Nothing of the trie's shape, nor of the order in which hostnames
    were added, is left in it. *)
Definition upd (T : bytes -> leafv) (k : bytes) (v : leafv) : bytes -> leafv :=
  fun k' => if beq k' k then v else T k'.

Record astate := mkast { s_pre : flat; s_tree : bytes -> leafv; s_post : flat }.
Definition empty_astate : astate := mkast [] (fun _ => []) [].

Definition a_add_tree (T : bytes -> leafv) (host : bytes) p m r : (bytes -> leafv) * bool :=
  if existsb (same_leaf p m) (T host) then (T, false) else (upd T host (T host ++ [(p, m, r)]), true).
Definition a_del_tree (T : bytes -> leafv) (host : bytes) p m : bytes -> leafv :=
  upd T host (filter (fun e => negb (same_leaf p m e)) (T host)).

Definition nonempty (l : leafv) : option leafv := if is_nil l then None else Some l.

Section Refine.
  Variable re_ok : bytes -> bool.
  Variable re_match : bytes -> bytes -> bool.

  Definition a_add (S : astate) (fr : frontend) : astate * opres :=
    match parse_path re_ok (f_pkind fr) (f_pval fr) with
    | None => (S, OErrPath)
    | Some p =>
      match parse_domain re_ok (f_host fr) with
      | DErr => (S, OErrDomain)
      | DOk d =>
        let r := mk_route fr in
        let m := f_method fr in
        match f_pos fr with
        | Pre => let '(l, b) := add_flat (s_pre S) d p m r in
                 (mkast l (s_tree S) (s_post S), if b then OOk else OErrAdd)
        | Post => let '(l, b) := add_flat (s_post S) d p m r in
                  (mkast (s_pre S) (s_tree S) l, if b then OOk else OErrAdd)
        | Tree => let '(T, b) := a_add_tree (s_tree S) (f_host fr) p m r in
                  (mkast (s_pre S) T (s_post S), if b then OOk else OErrAdd)
        end
      end
    end.

  Definition a_del (S : astate) (fr : frontend) : astate * opres :=
    match parse_path re_ok (f_pkind fr) (f_pval fr) with
    | None => (S, OErrPath)
    | Some p =>
      let m := f_method fr in
      match f_pos fr with
      | Tree => (mkast (s_pre S) (a_del_tree (s_tree S) (f_host fr) p m) (s_post S), OOk)
      | Pre =>
        match parse_domain re_ok (f_host fr) with
        | DErr => (S, OErrDomain)
        | DOk d => let '(l, b) := remove_flat (s_pre S) d p m in
                   (mkast l (s_tree S) (s_post S), if b then OOk else OErrRemove)
        end
      | Post =>
        match parse_domain re_ok (f_host fr) with
        | DErr => (S, OErrDomain)
        | DOk d => let '(l, b) := remove_flat (s_post S) d p m in
                   (mkast (s_pre S) (s_tree S) l, if b then OOk else OErrRemove)
        end
      end
    end.

  (** the rules consulted for a host: its own leaf, else the wild-card leaf
      replacing its left-most label *)
  Definition a_rules (S : astate) (h : bytes) : leafv :=
    match nonempty (s_tree S h) with Some l => l | None => s_tree S (wild_of h) end.

  Definition a_lookup (S : astate) (h path m : bytes) : option route :=
    match scan_flat re_match (s_pre S) h path m with
    | Some r => Some r
    | None =>
      match select_loop re_match (a_rules S h) path m (0, 0, 0)%nat None with
      | Some r => Some r
      | None => scan_flat re_match (s_post S) h path m
      end
    end.

  (** under every storable plain hostname the trie holds exactly the
      configuration's rule list, stored under that very hostname *)
  Definition tree_inv (t : trie leafv) (T : bytes -> leafv) : Prop :=
    forall k, good_key k -> getk leafv re_match t k = option_map (fun l => (k, l)) (nonempty (T k)).

  Lemma tree_inv_snd t T k : tree_inv t T -> good_key k -> option_map snd (getk leafv re_match t k) = nonempty (T k).
  Proof. intros I G. rewrite (I k G). destruct (nonempty (T k)); reflexivity. Qed.

  Lemma own_leaf_inv t T k : tree_inv t T -> good_key k -> own_leaf re_match t k = nonempty (T k).
  Proof.
    intros I G. unfold own_leaf. pose proof (I k G) as H. unfold getk in H. rewrite H.
    destruct (nonempty (T k)); cbn [option_map]; [rewrite beq_refl|]; reflexivity.
  Qed.

  Definition refines (rt : router) (S : astate) : Prop :=
    pre rt = s_pre S /\ post rt = s_post S /\ wf leafv (tree rt) /\ tree_inv (tree rt) (s_tree S).

  Lemma refines_empty : refines empty_router empty_astate.
  Proof.
    split; [reflexivity|]. split; [reflexivity|]. split; [apply wf_root|].
    intros k G. cbn [empty_router tree empty_astate s_tree].
    rewrite getk_cget by (try assumption; apply wf_root). rewrite cget_root by (apply canon_good; exact G). reflexivity.
  Qed.

  Lemma nonempty_app l e : nonempty (l ++ [e]) = Some (l ++ [e]).
  Proof. destruct l; reflexivity. Qed.

  Lemma add_tree_refines t T host p m r :
    wf leafv t -> tree_inv t T -> good_key host ->
    let '(t', b) := add_tree_rule re_ok re_match t host p m r in
    let '(T', b') := a_add_tree T host p m r in
    b = b' /\ wf leafv t' /\ tree_inv t' T'.
  Proof.
    intros W I G. unfold add_tree_rule, a_add_tree.
    rewrite (own_leaf_inv t T host I G). pose proof (I host G) as Ih.
    unfold nonempty in *. destruct (is_nil (T host)) eqn:EN; cbn [option_map] in Ih.
    - assert (ET : T host = []) by (destruct (T host); [reflexivity|discriminate]).
      rewrite ET. cbn [existsb app].
      pose proof (insert_ok_absent leafv re_ok re_match t host [(p, m, r)] G W Ih) as OK.
      pose proof (wf_insert_k leafv re_ok t host [(p, m, r)] G W) as W'.
      destruct (insert re_ok t host [(p, m, r)]) as [t' res] eqn:EI. cbn [snd fst] in *. subst res.
      split; [reflexivity|]. split; [exact W'|].
      intros k Gk. unfold upd. destruct (beq k host) eqn:E.
      + apply beq_eq in E; subst k.
        rewrite (getk_insert_same leafv re_ok re_match t host [(p, m, r)] t' G W EI). reflexivity.
      + apply beq_neq in E.
        pose proof (getk_insert_other leafv re_ok re_match t host k [(p, m, r)] G Gk ltac:(congruence) W) as O.
        rewrite EI in O. cbn [fst] in O. rewrite O. apply I; exact Gk.
    - destruct (existsb (same_leaf p m) (T host)); [auto|].
      split; [reflexivity|]. split; [apply wf_modify_k; assumption|].
      intros k Gk. unfold upd. destruct (beq k host) eqn:E.
      + apply beq_eq in E; subst k. rewrite getk_modify_same by assumption. rewrite Ih.
        cbn [option_map fst snd]. destruct (T host); reflexivity.
      + apply beq_neq in E. rewrite getk_modify_other by (auto; congruence). apply I; exact Gk.
  Qed.

  Lemma del_tree_refines t T host p m :
    wf leafv t -> tree_inv t T -> good_key host ->
    wf leafv (remove_tree_rule re_match t host p m) /\
    tree_inv (remove_tree_rule re_match t host p m) (a_del_tree T host p m).
  Proof.
    intros W I G. unfold remove_tree_rule, a_del_tree.
    rewrite (own_leaf_inv t T host I G). pose proof (I host G) as Ih.
    unfold nonempty in Ih |- *. destruct (is_nil (T host)) eqn:EN; cbn [option_map] in Ih.
    - assert (ET : T host = []) by (destruct (T host); [reflexivity|discriminate]).
      split; [exact W|]. intros k Gk. unfold upd, nonempty. destruct (beq k host) eqn:E.
      + apply beq_eq in E; subst k. rewrite ET. cbn [filter is_nil option_map]. exact Ih.
      + rewrite (I k Gk). reflexivity.
    - set (keep := filter (fun e => negb (same_leaf p m e)) (T host)).
      set (t1 := modify_mut re_match t host false (fun _ => keep)).
      assert (W1 : wf leafv t1) by (apply wf_modify_k; assumption).
      destruct (is_nil keep) eqn:EK.
      + split; [apply wf_remove_k; assumption|].
        intros k Gk. unfold upd, nonempty. destruct (beq k host) eqn:E.
        * apply beq_eq in E; subst k. rewrite getk_remove_same by assumption. rewrite EK. reflexivity.
        * apply beq_neq in E. rewrite getk_remove_other by (auto; congruence).
          unfold t1. rewrite getk_modify_other by (auto; congruence). rewrite (I k Gk). reflexivity.
      + split; [exact W1|].
        intros k Gk. unfold upd, nonempty. destruct (beq k host) eqn:E.
        * apply beq_eq in E; subst k. unfold t1. rewrite getk_modify_same by assumption. rewrite Ih.
          cbn [option_map fst snd]. rewrite EK. reflexivity.
        * apply beq_neq in E. unfold t1. rewrite getk_modify_other by (auto; congruence). rewrite (I k Gk). reflexivity.
  Qed.

  (** tree frontends of a history are on plain, storable hostnames *)
  Definition plain_front (fr : frontend) : Prop :=
    match f_pos fr with Tree => good_key (f_host fr) | _ => True end.

  Lemma add_refines rt S fr :
    refines rt S -> plain_front fr ->
    refines (fst (add_front re_ok re_match rt fr)) (fst (a_add S fr)) /\
    snd (add_front re_ok re_match rt fr) = snd (a_add S fr).
  Proof.
    intros (E1 & E2 & W & I) PF. unfold add_front, a_add, plain_front in *.
    destruct (parse_path re_ok (f_pkind fr) (f_pval fr)) as [p|]; [|cbn [fst snd]; unfold refines; auto 10].
    destruct (parse_domain re_ok (f_host fr)) as [d|]; [|cbn [fst snd]; unfold refines; auto 10].
    destruct (f_pos fr).
    - rewrite <- E1. destruct (add_flat (pre rt) d p (f_method fr) (mk_route fr)) as [l b].
      cbn [fst snd]. unfold refines; cbn [pre post tree s_pre s_post s_tree]; auto 10.
    - rewrite <- E2. destruct (add_flat (post rt) d p (f_method fr) (mk_route fr)) as [l b].
      cbn [fst snd]. unfold refines; cbn [pre post tree s_pre s_post s_tree]; auto 10.
    - pose proof (add_tree_refines (tree rt) (s_tree S) (f_host fr) p (f_method fr) (mk_route fr) W I PF) as R.
      destruct (add_tree_rule re_ok re_match (tree rt) (f_host fr) p (f_method fr) (mk_route fr)) as [t' b].
      destruct (a_add_tree (s_tree S) (f_host fr) p (f_method fr) (mk_route fr)) as [T' b'].
      destruct R as (-> & W' & I'). cbn [fst snd]. unfold refines; cbn [pre post tree s_pre s_post s_tree]; auto 10.
  Qed.

  Lemma del_refines rt S fr :
    refines rt S -> plain_front fr ->
    refines (fst (remove_front re_ok re_match rt fr)) (fst (a_del S fr)) /\
    snd (remove_front re_ok re_match rt fr) = snd (a_del S fr).
  Proof.
    intros (E1 & E2 & W & I) PF. unfold remove_front, a_del, plain_front in *.
    destruct (parse_path re_ok (f_pkind fr) (f_pval fr)) as [p|]; [|cbn [fst snd]; unfold refines; auto 10].
    destruct (f_pos fr).
    - destruct (parse_domain re_ok (f_host fr)) as [d|]; [|cbn [fst snd]; unfold refines; auto 10].
      rewrite <- E1. destruct (remove_flat (pre rt) d p (f_method fr)) as [l b]. cbn [fst snd]. unfold refines; cbn [pre post tree s_pre s_post s_tree]; auto 10.
    - destruct (parse_domain re_ok (f_host fr)) as [d|]; [|cbn [fst snd]; unfold refines; auto 10].
      rewrite <- E2. destruct (remove_flat (post rt) d p (f_method fr)) as [l b]. cbn [fst snd]. unfold refines; cbn [pre post tree s_pre s_post s_tree]; auto 10.
    - destruct (del_tree_refines (tree rt) (s_tree S) (f_host fr) p (f_method fr) W I PF) as [W' I'].
      cbn [fst snd]. unfold refines; cbn [pre post tree s_pre s_post s_tree]; auto 10.
  Qed.

  (** histories *)
  Inductive op := OAdd (fr : frontend) | ODel (fr : frontend).
  Definition op_front (o : op) : frontend := match o with OAdd f | ODel f => f end.

  Definition step_rt (rt : router) (o : op) : router :=
    match o with
    | OAdd f => fst (add_front re_ok re_match rt f)
    | ODel f => fst (remove_front re_ok re_match rt f)
    end.
  Definition step_a (S : astate) (o : op) : astate :=
    match o with
    | OAdd f => fst (a_add S f)
    | ODel f => fst (a_del S f)
    end.
  Definition run (h : list op) : router := fold_left step_rt h empty_router.
  Definition config (h : list op) : astate := fold_left step_a h empty_astate.
  Definition plain_history (h : list op) : Prop := Forall (fun o => plain_front (op_front o)) h.

  Lemma run_refines_gen h : forall rt S,
      refines rt S -> plain_history h -> refines (fold_left step_rt h rt) (fold_left step_a h S).
  Proof.
    induction h as [|o h IH]; intros rt S R P; cbn [fold_left]; [exact R|].
    inversion P as [|? ? Po Ph]; subst. apply IH; [|exact Ph].
    destruct o as [f|f]; cbn [step_rt step_a op_front] in *.
    - apply add_refines; assumption.
    - apply del_refines; assumption.
  Qed.

  Lemma run_refines h : plain_history h -> refines (run h) (config h).
  Proof. apply run_refines_gen. apply refines_empty. Qed.

  (** lookups only see the configuration *)
  Lemma lookup_refines rt S h path m :
    refines rt S -> good_key h -> label_of h <> [STAR] ->
    route_lookup re_match rt h path m = a_lookup S h path m.
  Proof.
    intros (E1 & E2 & W & I) G NS. unfold route_lookup, a_lookup. rewrite E1, E2.
    destruct (scan_flat re_match (s_pre S) h path m); [reflexivity|].
    rewrite (lookup_getk leafv re_match (tree rt) h G NS W).
    assert (GW : good_key (wild_of h)).
    { apply good_key_wild. apply (good_key_parts h G). }
    pose proof (tree_inv_snd _ _ h I G) as Ih. pose proof (tree_inv_snd _ _ (wild_of h) I GW) as Iw.
    unfold a_rules.
    destruct (getk leafv re_match (tree rt) h) as [[k0 rules]|]; cbn [option_map snd] in Ih.
    - rewrite <- Ih. reflexivity.
    - rewrite <- Ih.
      destruct (getk leafv re_match (tree rt) (wild_of h)) as [[k0 rules]|]; cbn [option_map snd] in Iw.
      + unfold nonempty in Iw. destruct (is_nil (s_tree S (wild_of h))); [discriminate|].
        inversion Iw; subst. reflexivity.
      + unfold nonempty in Iw. destruct (s_tree S (wild_of h)); [|discriminate]. reflexivity.
  Qed.
End Refine.

(** ** The documented precedence, stated on the configuration *)
Section Spec.
  Variable re_ok : bytes -> bool.
  Variable re_match : bytes -> bytes -> bool.

  Definition flat_matches (e : drule * prule * mrule * route) (h path m : bytes) : bool :=
    let '(d, p, mr, _) := e in
    drule_matches re_match d h && pres_some (prule_matches re_match p path) && mres_some (mrule_matches mr m).
  Definition flat_route (e : drule * prule * mrule * route) : route := let '(_, _, _, r) := e in r.

  (** pre / post: the first matching rule, in list order *)
  Lemma scan_flat_first l h path m :
    match scan_flat re_match l h path m with
    | Some r => exists l1 e l2, l = l1 ++ e :: l2 /\ flat_matches e h path m = true /\ flat_route e = r /\
                                forall e', In e' l1 -> flat_matches e' h path m = false
    | None => forall e, In e l -> flat_matches e h path m = false
    end.
  Proof.
    induction l as [|[[[d p] mr] r] l IH]; cbn [scan_flat]; [intros e []|].
    destruct (drule_matches re_match d h && pres_some (prule_matches re_match p path) &&
              mres_some (mrule_matches mr m)) eqn:E.
    - exists [], (d, p, mr, r), l. repeat split; auto. intros e' [].
    - destruct (scan_flat re_match l h path m) as [r'|].
      + destruct IH as (l1 & e & l2 & -> & M & R & F). exists ((d, p, mr, r) :: l1), e, l2.
        repeat split; auto. intros e' [<-|Hin]; auto.
      + intros e [<-|Hin]; auto.
  Qed.

  (** [o] is the documented answer for the request on configuration [S] *)
  Definition documented_choice (S : astate) (h path m : bytes) (o : option route) : Prop :=
    match scan_flat re_match (s_pre S) h path m with
    | Some r => o = Some r
    | None =>
      exists ot, is_best re_match path m (a_rules S h) ot /\
                 match ot with
                 | Some r => o = Some r
                 | None => o = scan_flat re_match (s_post S) h path m
                 end
    end.

  Lemma a_lookup_documented S h path m : documented_choice S h path m (a_lookup re_match S h path m).
  Proof.
    unfold documented_choice, a_lookup. destruct (scan_flat re_match (s_pre S) h path m); [reflexivity|].
    exists (select_loop re_match (a_rules S h) path m (0, 0, 0)%nat None). split; [apply select_is_best|].
    destruct (select_loop re_match (a_rules S h) path m (0, 0, 0)%nat None); reflexivity.
  Qed.

  Theorem lookup_refines_spec_lemma hist h path m :
    plain_history hist -> good_key h -> label_of h <> [STAR] ->
    documented_choice (config re_ok hist) h path m (route_lookup re_match (run re_ok re_match hist) h path m).
  Proof.
    intros P G NS. rewrite (lookup_refines re_match _ _ h path m (run_refines re_ok re_match hist P) G NS).
    apply a_lookup_documented.
  Qed.

  (** same members *)
  Definition same_members (l l' : leafv) : Prop := forall e, In e l <-> In e l'.

  Lemma same_members_nonempty l l' : same_members l l' -> is_nil l = is_nil l'.
  Proof.
    intros E. destruct l as [|a l], l' as [|b l']; cbn [is_nil]; auto.
    - exfalso. apply (proj2 (E b)). left; reflexivity.
    - exfalso. apply (proj1 (E a)). left; reflexivity.
  Qed.

  Lemma a_rules_members S S' h :
    (forall k, same_members (s_tree S k) (s_tree S' k)) -> same_members (a_rules S h) (a_rules S' h).
  Proof.
    intros E. unfold a_rules, nonempty. rewrite (same_members_nonempty _ _ (E h)).
    destruct (is_nil (s_tree S' h)); apply E.
  Qed.

  Lemma order_independent_lemma h1 h2 h path m :
    plain_history h1 -> plain_history h2 -> good_key h -> label_of h <> [STAR] ->
    s_pre (config re_ok h1) = s_pre (config re_ok h2) ->
    s_post (config re_ok h1) = s_post (config re_ok h2) ->
    (forall k, same_members (s_tree (config re_ok h1) k) (s_tree (config re_ok h2) k)) ->
    no_ties re_match path m (a_rules (config re_ok h1) h) ->
    route_lookup re_match (run re_ok re_match h1) h path m = route_lookup re_match (run re_ok re_match h2) h path m.
  Proof.
    intros P1 P2 G NS E1 E2 ET NT.
    rewrite (lookup_refines re_match _ _ h path m (run_refines re_ok re_match h1 P1) G NS).
    rewrite (lookup_refines re_match _ _ h path m (run_refines re_ok re_match h2 P2) G NS).
    unfold a_lookup. rewrite E1, E2.
    rewrite (select_order_independent re_match path m (a_rules (config re_ok h1) h) (a_rules (config re_ok h2) h));
      [reflexivity|apply a_rules_members; exact ET|exact NT].
  Qed.

  (** *** a removed frontend is no longer in the configuration *)
  Lemma config_snoc hist o : config re_ok (hist ++ [o]) = step_a re_ok (config re_ok hist) o.
  Proof. unfold config. rewrite fold_left_app. reflexivity. Qed.

  Lemma removed_from_tree hist fr p e :
    f_pos fr = Tree -> parse_path re_ok (f_pkind fr) (f_pval fr) = Some p ->
    In e (s_tree (config re_ok (hist ++ [ODel fr])) (f_host fr)) -> same_leaf p (f_method fr) e = false.
  Proof.
    intros EP PP. rewrite config_snoc. cbn [step_a]. unfold a_del. rewrite PP, EP. cbn [fst s_tree].
    unfold a_del_tree, upd. rewrite beq_refl. intros H. apply filter_In in H. destruct H as [_ H].
    apply negb_true_iff in H. exact H.
  Qed.

  (** every answer is the decision of a rule of the configuration *)
  Lemma scan_flat_in l h path m r :
    scan_flat re_match l h path m = Some r -> exists e, In e l /\ flat_route e = r /\ flat_matches e h path m = true.
  Proof.
    intros H. pose proof (scan_flat_first l h path m) as F. rewrite H in F.
    destruct F as (l1 & e & l2 & -> & M & R & _). exists e. split; [apply in_or_app; right; left; reflexivity|auto].
  Qed.

  Lemma answers_come_from_config S h path m r :
    a_lookup re_match S h path m = Some r ->
    (exists e, In e (s_pre S) /\ flat_route e = r /\ flat_matches e h path m = true) \/
    (exists e, In e (a_rules S h) /\ rt_of e = r /\ rr re_match path m e <> None) \/
    (exists e, In e (s_post S) /\ flat_route e = r /\ flat_matches e h path m = true).
  Proof.
    unfold a_lookup. intros H.
    destruct (scan_flat re_match (s_pre S) h path m) as [r0|] eqn:E0.
    - inversion H; subst. left. apply scan_flat_in; exact E0.
    - pose proof (select_is_best re_match path m (a_rules S h)) as B.
      destruct (select_loop re_match (a_rules S h) path m (0, 0, 0)%nat None) as [r1|].
      + inversion H; subst. right; left. cbn [is_best] in B. destruct B as (e & rk & I & R & K & _).
        exists e. repeat split; auto. congruence.
      + right; right. apply scan_flat_in; exact H.
  Qed.

  (** *** frontends that do not match the request *)
  Lemma select_app_nonmatching path m l e best matched :
    rr re_match path m e = None ->
    select_loop re_match (l ++ [e]) path m best matched = select_loop re_match l path m best matched.
  Proof.
    intros N. revert best matched. induction l as [|[[p mr] r] l IH]; intros best matched; cbn [app select_loop].
    - destruct e as [[p mr] r]. cbn [rr] in N. rewrite N. reflexivity.
    - destruct (rule_rank re_match p mr path m); [destruct (negb (is_some matched) || rank_ltb best r0)|]; apply IH.
  Qed.

  Lemma select_filter_nonmatching path m (f : prule * mrule * route -> bool) l :
    (forall e, In e l -> f e = false -> rr re_match path m e = None) ->
    forall best matched,
      select_loop re_match (filter f l) path m best matched = select_loop re_match l path m best matched.
  Proof.
    induction l as [|[[p mr] r] l IH]; intros H best matched; cbn [filter select_loop]; [reflexivity|].
    destruct (f (p, mr, r)) eqn:Ef; cbn [select_loop].
    - destruct (rule_rank re_match p mr path m); [destruct (negb (is_some matched) || rank_ltb best r0)|];
        apply IH; intros e Hin; apply H; right; exact Hin.
    - pose proof (H (p, mr, r) (or_introl eq_refl) Ef) as N. cbn [rr] in N. rewrite N.
      apply IH; intros e Hin; apply H; right; exact Hin.
  Qed.
End Spec.

Section Unrelated.
  Variable re_ok : bytes -> bool.
  Variable re_match : bytes -> bytes -> bool.

  Definition sel (path m : bytes) (l : leafv) : option route :=
    select_loop re_match l path m (0, 0, 0)%nat None.

  Definition with_tree (S : astate) (T : bytes -> leafv) : astate := mkast (s_pre S) T (s_post S).

  Lemma a_lookup_upd S host newl h path m :
    sel path m newl = sel path m (s_tree S host) ->
    (host = h -> is_nil newl = is_nil (s_tree S h)) ->
    a_lookup re_match (with_tree S (upd (s_tree S) host newl)) h path m = a_lookup re_match S h path m.
  Proof.
    intros ES EN. unfold a_lookup, with_tree; cbn [s_pre s_post].
    destruct (scan_flat re_match (s_pre S) h path m); [reflexivity|].
    assert (E : sel path m (a_rules (mkast (s_pre S) (upd (s_tree S) host newl) (s_post S)) h)
                = sel path m (a_rules S h)); [|unfold sel in E; rewrite E; reflexivity].
    unfold a_rules, nonempty, upd; cbn [s_tree].
    destruct (beq h host) eqn:E1.
    - apply beq_eq in E1; subst host. rewrite (EN eq_refl).
      destruct (is_nil (s_tree S h)) eqn:EE; [|exact ES].
      destruct (beq (wild_of h) h) eqn:E2; [|reflexivity].
      apply beq_eq in E2. rewrite E2. exact ES.
    - destruct (is_nil (s_tree S h)); [|reflexivity].
      destruct (beq (wild_of h) host) eqn:E2; [|reflexivity].
      apply beq_eq in E2. rewrite E2. exact ES.
  Qed.

  Lemma a_lookup_upd_far S host newl h path m :
    host <> h -> host <> wild_of h ->
    a_lookup re_match (with_tree S (upd (s_tree S) host newl)) h path m = a_lookup re_match S h path m.
  Proof.
    intros N1 N2. unfold a_lookup, with_tree, a_rules, nonempty, upd; cbn [s_pre s_post s_tree].
    assert (beq h host = false) as -> by (apply beq_neq; congruence).
    assert (beq (wild_of h) host = false) as -> by (apply beq_neq; congruence).
    reflexivity.
  Qed.

  (** An operation on a tree frontend that does not match the request leaves
      the request's route unchanged, as long as it does not create or delete
      the request host's own leaf (see [unrelated_refuted_lemma]). *)
  Lemma unrelated_tree_op S o h path m :
    let fr := op_front o in
    f_pos fr = Tree ->
    ((f_host fr <> h /\ f_host fr <> wild_of h) \/
     (forall p, parse_path re_ok (f_pkind fr) (f_pval fr) = Some p ->
                rule_rank re_match p (f_method fr) path m = None)) ->
    (f_host fr = h -> is_nil (s_tree (step_a re_ok S o) h) = is_nil (s_tree S h)) ->
    a_lookup re_match (step_a re_ok S o) h path m = a_lookup re_match S h path m.
  Proof.
    intros fr EP NM NC. subst fr.
    destruct o as [fr|fr]; cbn [op_front step_a] in *.
    - unfold a_add in *. destruct (parse_path re_ok (f_pkind fr) (f_pval fr)) as [p|] eqn:PP; [|reflexivity].
      destruct (parse_domain re_ok (f_host fr)) as [d|]; [|reflexivity]. rewrite EP in *.
      unfold a_add_tree in *. destruct (existsb (same_leaf p (f_method fr)) (s_tree S (f_host fr))); [reflexivity|].
      cbn [fst s_tree] in *. change (mkast (s_pre S) ?T (s_post S)) with (with_tree S T).
      destruct NM as [[N1 N2]|NM]; [apply a_lookup_upd_far; assumption|].
      apply a_lookup_upd.
      + unfold sel. apply select_app_nonmatching. cbn [rr]. apply NM; reflexivity.
      + intros E. specialize (NC E). unfold upd in NC. rewrite <- E, beq_refl in NC. rewrite <- E. exact NC.
    - unfold a_del in *. destruct (parse_path re_ok (f_pkind fr) (f_pval fr)) as [p|] eqn:PP; [|reflexivity].
      rewrite EP in *. cbn [fst s_tree] in *. unfold a_del_tree in *.
      change (mkast (s_pre S) ?T (s_post S)) with (with_tree S T).
      destruct NM as [[N1 N2]|NM]; [apply a_lookup_upd_far; assumption|].
      apply a_lookup_upd.
      + unfold sel. apply select_filter_nonmatching. intros [[p' m'] r'] _ F.
        apply negb_false_iff in F. cbn [same_leaf] in F. apply andb_true_iff in F. destruct F as [F1 F2].
        apply prule_eqb_eq in F1. apply mrule_eqb_eq in F2. subst. cbn [rr]. apply NM; reflexivity.
      + intros E. specialize (NC E). unfold upd in NC. rewrite <- E, beq_refl in NC. rewrite <- E. exact NC.
  Qed.
End Unrelated.

(** the general statement is false: host shadowing (known finding) *)
Definition w_star_a_com : bytes := [42; 46; 97; 46; 99; 111; 109]%N.         (* "*.a.com" *)
Definition w_x_a_com : bytes := [120; 46; 97; 46; 99; 111; 109]%N.          (* "x.a.com" *)
Definition w_front (host pval cl : bytes) : frontend :=
  mkfront Tree host 0%Z pval None (Some cl) None None.

Lemma unrelated_refuted_lemma :
  exists hist fr h path m,
    plain_history (hist ++ [OAdd fr]) /\ f_pos fr = Tree /\
    (forall p, parse_path (fun _ => true) (f_pkind fr) (f_pval fr) = Some p ->
               rule_rank (fun _ _ => false) p (f_method fr) path m = None) /\
    route_lookup (fun _ _ => false) (run (fun _ => true) (fun _ _ => false) (hist ++ [OAdd fr])) h path m
    <> route_lookup (fun _ _ => false) (run (fun _ => true) (fun _ _ => false) hist) h path m.
Proof.
  exists [OAdd (w_front w_star_a_com [47]%N [48]%N)], (w_front w_x_a_com [47; 97]%N [49]%N),
         w_x_a_com, [47; 98]%N, [71]%N.
  split; [|split; [reflexivity|split]].
  - repeat constructor; cbn; discriminate.
  - intros p H. vm_compute in H. inversion H; subst. vm_compute. reflexivity.
  - vm_compute. discriminate.
Qed.

(** ** history-level statements *)
Section History.
  Variable re_ok : bytes -> bool.
  Variable re_match : bytes -> bytes -> bool.
  Notation run := (run re_ok re_match).
  Notation config := (config re_ok).

  Lemma plain_history_app h1 h2 : plain_history (h1 ++ h2) -> plain_history h1 /\ plain_history h2.
  Proof. unfold plain_history. intros H. apply Forall_app in H. exact H. Qed.

  Lemma answers_from_configuration hist h path m r :
    plain_history hist -> good_key h -> label_of h <> [STAR] ->
    route_lookup re_match (run hist) h path m = Some r ->
    (exists e, In e (s_pre (config hist)) /\ flat_route e = r /\ flat_matches re_match e h path m = true) \/
    (exists e, In e (a_rules (config hist) h) /\ rt_of e = r /\ rr re_match path m e <> None) \/
    (exists e, In e (s_post (config hist)) /\ flat_route e = r /\ flat_matches re_match e h path m = true).
  Proof.
    intros P G NS H. rewrite (lookup_refines re_match _ _ h path m (run_refines re_ok re_match hist P) G NS) in H.
    apply answers_come_from_config; exact H.
  Qed.

  Lemma unrelated_history hist o h path m :
    let fr := op_front o in
    plain_history (hist ++ [o]) -> good_key h -> label_of h <> [STAR] ->
    f_pos fr = Tree ->
    ((f_host fr <> h /\ f_host fr <> wild_of h) \/
     (forall p, parse_path re_ok (f_pkind fr) (f_pval fr) = Some p ->
                rule_rank re_match p (f_method fr) path m = None)) ->
    (f_host fr = h -> is_nil (s_tree (config (hist ++ [o])) h) = is_nil (s_tree (config hist) h)) ->
    route_lookup re_match (run (hist ++ [o])) h path m = route_lookup re_match (run hist) h path m.
  Proof.
    intros fr P G NS EP NM NC. destruct (plain_history_app _ _ P) as [P1 _].
    rewrite (lookup_refines re_match _ _ h path m (run_refines re_ok re_match _ P) G NS).
    rewrite (lookup_refines re_match _ _ h path m (run_refines re_ok re_match _ P1) G NS).
    rewrite config_snoc in *. apply unrelated_tree_op; assumption.
  Qed.
End History.

Section Results.
  Variable re_ok : bytes -> bool.
  Variable re_match : bytes -> bytes -> bool.

  Definition op_result_rt (rt : router) (o : op) : opres :=
    match o with
    | OAdd f => snd (add_front re_ok re_match rt f)
    | ODel f => snd (remove_front re_ok re_match rt f)
    end.
  Definition op_result_cfg (S : astate) (o : op) : opres :=
    match o with
    | OAdd f => snd (a_add re_ok S f)
    | ODel f => snd (a_del re_ok S f)
    end.

  (** the answer to an add / remove (Ok, AddRoute, RemoveRoute, ...) is a
      function of the configuration only *)
  Lemma op_results_from_config hist o :
    plain_history (hist ++ [o]) ->
    op_result_rt (run re_ok re_match hist) o = op_result_cfg (config re_ok hist) o.
  Proof.
    intros P. destruct (plain_history_app _ _ P) as [P1 P2].
    pose proof (run_refines re_ok re_match hist P1) as R.
    inversion P2 as [|? ? Po _]; subst.
    destruct o as [f|f]; cbn [op_result_rt op_result_cfg op_front] in *.
    - apply add_refines; assumption.
    - apply del_refines; assumption.
  Qed.
End Results.

(** regex-segment hostnames (outside [plain_history]): the witness of the
    former order dependence; since the fixes in pattern_trie.rs both orders
    route alike *)
Definition w_re_a_com : bytes := [47; 114; 47; 46; 97; 46; 99; 111; 109]%N.              (* "/r/.a.com" *)
Definition w_w_re_a_com : bytes := [119; 46; 47; 114; 47; 46; 97; 46; 99; 111; 109]%N.   (* "w./r/.a.com" *)
Definition w_xyz_a_com : bytes := [120; 121; 122; 46; 97; 46; 99; 111; 109]%N.          (* "xyz.a.com" *)

(** ** pre / post lists: order and identity *)
Lemma remove_first_spec {A} (f : A -> bool) (l : list A) :
  match remove_first f l with
  | (l', true) => exists l1 e l2, l = l1 ++ e :: l2 /\ f e = true /\ (forall x, In x l1 -> f x = false) /\ l' = l1 ++ l2
  | (l', false) => l' = l /\ forall x, In x l -> f x = false
  end.
Proof.
  induction l as [|x r IH]; cbn [remove_first]; [split; [reflexivity|intros x []]|].
  destruct (f x) eqn:E.
  - exists [], x, r. repeat split; auto. intros y [].
  - destruct (remove_first f r) as [r' b]. destruct b.
    + destruct IH as (l1 & e & l2 & -> & Fe & F1 & ->). exists (x :: l1), e, l2. repeat split; auto.
      intros y [<-|Hy]; auto.
    + destruct IH as [-> F]. split; [reflexivity|]. intros y [<-|Hy]; auto.
Qed.

Definition ident (e : drule * prule * mrule * route) : drule * prule * mrule :=
  let '(d, p, m, _) := e in (d, p, m).

Lemma same_flat_ident d p m e : same_flat d p m e = true <-> ident e = (d, p, m).
Proof.
  destruct e as [[[d' p'] m'] r]. cbn [same_flat ident].
  rewrite !andb_true_iff, drule_eqb_eq, prule_eqb_eq, mrule_eqb_eq.
  split; [intros [[-> ->] ->]; reflexivity|intros H; inversion H; auto].
Qed.

Lemma existsb_same_flat d p m l : existsb (same_flat d p m) l = true <-> In (d, p, m) (map ident l).
Proof.
  rewrite existsb_exists, in_map_iff. split.
  - intros (e & I & S). exists e. split; [apply same_flat_ident; exact S|exact I].
  - intros (e & S & I). exists e. split; [exact I|apply same_flat_ident; exact S].
Qed.

(** [add_pre_rule] / [add_post_rule]: a new identity goes to the end, a known one is refused *)
Lemma add_flat_spec l d p m r :
  (In (d, p, m) (map ident l) /\ add_flat l d p m r = (l, false)) \/
  (~ In (d, p, m) (map ident l) /\ add_flat l d p m r = (l ++ [(d, p, m, r)], true)).
Proof.
  unfold add_flat. destruct (existsb (same_flat d p m) l) eqn:E.
  - left. split; [apply existsb_same_flat; exact E|reflexivity].
  - right. split; [|reflexivity]. intros H. apply existsb_same_flat in H. congruence.
Qed.

(** [remove_pre_rule] / [remove_post_rule]: the entry with that identity is
    taken out, every other entry keeps its place relative to the others *)
Lemma remove_flat_spec l d p m :
  NoDup (map ident l) ->
  match remove_flat l d p m with
  | (l', true) => exists l1 r l2, l = l1 ++ (d, p, m, r) :: l2 /\ l' = l1 ++ l2 /\ ~ In (d, p, m) (map ident l')
  | (l', false) => l' = l /\ ~ In (d, p, m) (map ident l)
  end.
Proof.
  intros ND. unfold remove_flat. pose proof (remove_first_spec (same_flat d p m) l) as S.
  destruct (remove_first (same_flat d p m) l) as [l' b]. destruct b.
  - destruct S as (l1 & e & l2 & -> & Fe & F1 & ->). apply same_flat_ident in Fe.
    destruct e as [[[d' p'] m'] r]. cbn [ident] in Fe. inversion Fe; subst.
    exists l1, r, l2. repeat split; auto.
    rewrite map_app in *. cbn [map ident] in ND. apply NoDup_remove_2 in ND. exact ND.
  - destruct S as [-> F]. split; [reflexivity|]. intros H. apply in_map_iff in H.
    destruct H as (e & Ie & He). apply same_flat_ident in Ie. rewrite (F e He) in Ie. discriminate.
Qed.

Lemma add_flat_nodup l d p m r : NoDup (map ident l) -> NoDup (map ident (fst (add_flat l d p m r))).
Proof.
  intros ND. destruct (add_flat_spec l d p m r) as [[_ ->]|[NI ->]]; cbn [fst]; [exact ND|].
  rewrite map_app. cbn [map ident].
  assert (G : forall (xs : list (drule * prule * mrule)) x, NoDup xs -> ~ In x xs -> NoDup (xs ++ [x])).
  { induction xs as [|y xs IH]; intros x Nx NIx; cbn [app]; [constructor; [intros []|constructor]|].
    inversion Nx as [|? ? Hy Hxs]; subst. constructor.
    - intros H. apply in_app_or in H. destruct H as [H|[H|[]]]; [contradiction|subst; apply NIx; left; reflexivity].
    - apply IH; [exact Hxs|]. intros H; apply NIx; right; exact H. }
  apply G; assumption.
Qed.

Lemma remove_flat_nodup l d p m : NoDup (map ident l) -> NoDup (map ident (fst (remove_flat l d p m))).
Proof.
  intros ND. pose proof (remove_flat_spec l d p m ND) as S.
  destruct (remove_flat l d p m) as [l' b]. cbn [fst]. destruct b.
  - destruct S as (l1 & r & l2 & -> & -> & _). rewrite map_app in *. cbn [map] in ND.
    apply NoDup_remove_1 in ND. exact ND.
  - destruct S as [-> _]. exact ND.
Qed.

Section FlatHistory.
  Variable re_ok : bytes -> bool.

  Definition flat_ok (S : astate) : Prop := NoDup (map ident (s_pre S)) /\ NoDup (map ident (s_post S)).

  Lemma flat_ok_step S o : flat_ok S -> flat_ok (step_a re_ok S o).
  Proof.
    intros [N1 N2]. destruct o as [fr|fr]; cbn [step_a].
    - unfold a_add. destruct (parse_path re_ok (f_pkind fr) (f_pval fr)) as [p|]; [|split; assumption].
      destruct (parse_domain re_ok (f_host fr)) as [d|]; [|split; assumption].
      destruct (f_pos fr).
      + pose proof (add_flat_nodup (s_pre S) d p (f_method fr) (mk_route fr) N1) as N.
        destruct (add_flat (s_pre S) d p (f_method fr) (mk_route fr)) as [l b]. split; assumption.
      + pose proof (add_flat_nodup (s_post S) d p (f_method fr) (mk_route fr) N2) as N.
        destruct (add_flat (s_post S) d p (f_method fr) (mk_route fr)) as [l b]. split; assumption.
      + destruct (a_add_tree (s_tree S) (f_host fr) p (f_method fr) (mk_route fr)) as [T b]. split; assumption.
    - unfold a_del. destruct (parse_path re_ok (f_pkind fr) (f_pval fr)) as [p|]; [|split; assumption].
      destruct (f_pos fr).
      + destruct (parse_domain re_ok (f_host fr)) as [d|]; [|split; assumption].
        pose proof (remove_flat_nodup (s_pre S) d p (f_method fr) N1) as N.
        destruct (remove_flat (s_pre S) d p (f_method fr)) as [l b]. split; assumption.
      + destruct (parse_domain re_ok (f_host fr)) as [d|]; [|split; assumption].
        pose proof (remove_flat_nodup (s_post S) d p (f_method fr) N2) as N.
        destruct (remove_flat (s_post S) d p (f_method fr)) as [l b]. split; assumption.
      + split; assumption.
  Qed.

  Lemma flat_ok_config hist : flat_ok (config re_ok hist).
  Proof.
    unfold config. assert (G : forall h S, flat_ok S -> flat_ok (fold_left (step_a re_ok) h S)).
    { induction h as [|o h IH]; intros S F; cbn [fold_left]; [exact F|]. apply IH, flat_ok_step, F. }
    apply G. split; constructor.
  Qed.

  (** a removed pre (post) frontend is no longer in the pre (post) list, and the
      others are still there in the same relative order *)
  Lemma removed_from_flat hist fr p d :
    f_pos fr <> Tree -> parse_path re_ok (f_pkind fr) (f_pval fr) = Some p ->
    parse_domain re_ok (f_host fr) = DOk d ->
    let S := config re_ok hist in
    let S' := config re_ok (hist ++ [ODel fr]) in
    let l := match f_pos fr with Pre => s_pre S | _ => s_post S end in
    let l' := match f_pos fr with Pre => s_pre S' | _ => s_post S' end in
    ~ In (d, p, f_method fr) (map ident l') /\
    ((l' = l /\ ~ In (d, p, f_method fr) (map ident l)) \/
     exists l1 r l2, l = l1 ++ (d, p, f_method fr, r) :: l2 /\ l' = l1 ++ l2).
  Proof.
    intros NT PP PD. cbv zeta. rewrite config_snoc. cbn [step_a]. unfold a_del. rewrite PP, PD.
    destruct (flat_ok_config hist) as [N1 N2].
    destruct (f_pos fr); [| |congruence].
    - pose proof (remove_flat_spec (s_pre (config re_ok hist)) d p (f_method fr) N1) as S.
      destruct (remove_flat (s_pre (config re_ok hist)) d p (f_method fr)) as [l' b]. cbn [fst s_pre]. destruct b.
      + destruct S as (l1 & r & l2 & E & -> & NI). split; [exact NI|]. right. exists l1, r, l2. auto.
      + destruct S as [-> NI]. split; [exact NI|]. left; auto.
    - pose proof (remove_flat_spec (s_post (config re_ok hist)) d p (f_method fr) N2) as S.
      destruct (remove_flat (s_post (config re_ok hist)) d p (f_method fr)) as [l' b]. cbn [fst s_post]. destruct b.
      + destruct S as (l1 & r & l2 & E & -> & NI). split; [exact NI|]. right. exists l1, r, l2. auto.
      + destruct S as [-> NI]. split; [exact NI|]. left; auto.
  Qed.
End FlatHistory.


(** ** permuting the adds of tree frontends *)
Section Permute.
  Variable re_ok : bytes -> bool.
  Variable re_match : bytes -> bytes -> bool.

  (** a tree frontend the router accepts *)
  Definition tree_front_ok (fr : frontend) : Prop :=
    f_pos fr = Tree /\ good_key (f_host fr) /\
    (exists p, parse_path re_ok (f_pkind fr) (f_pval fr) = Some p) /\
    (exists d, parse_domain re_ok (f_host fr) = DOk d).

  Definition tree_entry (fr : frontend) : option (prule * mrule * route) :=
    match parse_path re_ok (f_pkind fr) (f_pval fr) with
    | Some p => Some (p, f_method fr, mk_route fr)
    | None => None
    end.
  Definition tree_ident (fr : frontend) : bytes * option prule * mrule :=
    (f_host fr, parse_path re_ok (f_pkind fr) (f_pval fr), f_method fr).

  Lemma same_leaf_iff p m e : same_leaf p m e = true <-> exists r, e = (p, m, r).
  Proof.
    destruct e as [[p' m'] r]. cbn [same_leaf]. rewrite andb_true_iff, prule_eqb_eq, mrule_eqb_eq.
    split; [intros [-> ->]; eauto|intros (r0 & H); inversion H; auto].
  Qed.

  Lemma adds_members fs : forall S,
      Forall tree_front_ok fs -> NoDup (map tree_ident fs) ->
      (forall fr p e, In fr fs -> parse_path re_ok (f_pkind fr) (f_pval fr) = Some p ->
                      In e (s_tree S (f_host fr)) -> same_leaf p (f_method fr) e = false) ->
      let S' := fold_left (step_a re_ok) (map OAdd fs) S in
      s_pre S' = s_pre S /\ s_post S' = s_post S /\
      forall k e, In e (s_tree S' k) <->
                  In e (s_tree S k) \/ exists fr, In fr fs /\ f_host fr = k /\ tree_entry fr = Some e.
  Proof.
    induction fs as [|fr fs IH]; intros S OK ND FRESH; cbn [map fold_left].
    - repeat split; auto. intros [H|(fr & [] & _)]; exact H.
    - inversion OK as [|? ? (EP & G & (p & PP) & (d & PD)) OK']; subst.
      inversion ND as [|? ? NI ND']; subst.
      assert (E1 : existsb (same_leaf p (f_method fr)) (s_tree S (f_host fr)) = false).
      { destruct (existsb (same_leaf p (f_method fr)) (s_tree S (f_host fr))) eqn:E; [|reflexivity].
        apply existsb_exists in E. destruct E as (e & Ie & Se).
        rewrite (FRESH fr p e (or_introl eq_refl) PP Ie) in Se. discriminate. }
      set (S1 := step_a re_ok S (OAdd fr)).
      assert (ES1 : S1 = mkast (s_pre S) (upd (s_tree S) (f_host fr) (s_tree S (f_host fr) ++ [(p, f_method fr, mk_route fr)])) (s_post S)).
      { unfold S1. cbn [step_a]. unfold a_add. rewrite PP, PD, EP. unfold a_add_tree. rewrite E1. reflexivity. }
      specialize (IH S1 OK' ND').
      assert (FRESH1 : forall fr' p' e, In fr' fs -> parse_path re_ok (f_pkind fr') (f_pval fr') = Some p' ->
                                        In e (s_tree S1 (f_host fr')) -> same_leaf p' (f_method fr') e = false).
      { intros fr' p' e I' PP' Ie. rewrite ES1 in Ie. cbn [s_tree] in Ie. unfold upd in Ie.
        destruct (beq (f_host fr') (f_host fr)) eqn:EH.
        - apply beq_eq in EH. apply in_app_or in Ie. destruct Ie as [Ie|[<-|[]]].
          + rewrite <- EH in Ie. apply (FRESH fr' p' e (or_intror I') PP' Ie).
          + destruct (same_leaf p' (f_method fr') (p, f_method fr, mk_route fr)) eqn:SL; [|reflexivity].
            apply same_leaf_iff in SL. destruct SL as (r0 & H). inversion H; subst.
            exfalso. apply NI. apply in_map_iff. exists fr'. split; [|exact I'].
            unfold tree_ident. rewrite PP, PP', EH. congruence.
        - apply (FRESH fr' p' e (or_intror I') PP' Ie). }
      specialize (IH FRESH1). cbv zeta in IH. destruct IH as (P1 & P2 & M).
      rewrite P1, P2. split; [rewrite ES1; reflexivity|]. split; [rewrite ES1; reflexivity|].
      intros k e. rewrite M. rewrite ES1. cbn [s_tree]. unfold upd. split.
      + intros [H|(fr' & I' & Hk & He)].
        * destruct (beq k (f_host fr)) eqn:EH.
          -- apply beq_eq in EH; subst k. apply in_app_or in H. destruct H as [H|[<-|[]]]; [left; exact H|].
             right. exists fr. split; [left; reflexivity|]. split; [reflexivity|].
             unfold tree_entry. rewrite PP. reflexivity.
          -- left; exact H.
        * right. exists fr'. split; [right; exact I'|]. split; assumption.
      + intros [H|(fr' & [<-|I'] & Hk & He)].
        * left. destruct (beq k (f_host fr)) eqn:EH; [|exact H].
          apply beq_eq in EH; subst k. apply in_or_app; left; exact H.
        * left. subst k. rewrite beq_refl. unfold tree_entry in He. rewrite PP in He. inversion He; subst.
          apply in_or_app; right; left; reflexivity.
        * right. exists fr'. split; [exact I'|]. split; assumption.
  Qed.

  Lemma plain_adds fs : Forall tree_front_ok fs -> plain_history (map OAdd fs).
  Proof.
    intros OK. unfold plain_history. rewrite Forall_map. eapply Forall_impl; [|exact OK].
    intros fr (EP & G & _). cbn [op_front]. unfold plain_front. rewrite EP. exact G.
  Qed.

  Lemma permuted_adds_lemma fs fs' h path m :
    Forall tree_front_ok fs -> NoDup (map tree_ident fs) -> Permutation fs fs' ->
    good_key h -> label_of h <> [STAR] ->
    no_ties re_match path m (a_rules (config re_ok (map OAdd fs)) h) ->
    route_lookup re_match (run re_ok re_match (map OAdd fs)) h path m
    = route_lookup re_match (run re_ok re_match (map OAdd fs')) h path m.
  Proof.
    intros OK ND PM G NS NT.
    assert (OK' : Forall tree_front_ok fs').
    { rewrite Forall_forall in *. intros x Hx. apply OK. eapply Permutation_in; [apply Permutation_sym; exact PM|exact Hx]. }
    assert (ND' : NoDup (map tree_ident fs')) by (eapply Permutation_NoDup; [apply Permutation_map; exact PM|exact ND]).
    destruct (adds_members fs empty_astate OK ND ltac:(intros ? ? ? _ _ [])) as (A1 & A2 & AM).
    destruct (adds_members fs' empty_astate OK' ND' ltac:(intros ? ? ? _ _ [])) as (B1 & B2 & BM).
    apply (order_independent_lemma re_ok re_match); auto using plain_adds.
    - unfold config. rewrite A1, B1. reflexivity.
    - unfold config. rewrite A2, B2. reflexivity.
    - intros k e. unfold config. rewrite AM, BM. cbn [empty_astate s_tree In].
      split; intros [[]|(fr & I & H)]; right; exists fr; (split; [|exact H]).
      + eapply Permutation_in; eauto.
      + eapply Permutation_in; [apply Permutation_sym; exact PM|exact I].
  Qed.
End Permute.

(** ** [has_hostname] *)
Section HasHostname.
  Variable re_ok : bytes -> bool.
  Variable re_match : bytes -> bytes -> bool.

  (** for a plain hostname that is not a wild-card name, [has_hostname] says
      exactly whether the configuration still holds something for it: a pre or
      post rule whose domain matches it, or tree rules under that very name *)
  Lemma has_hostname_config rt S h :
    refines re_match rt S -> good_key h -> label_of h <> [STAR] ->
    has_hostname re_match rt h
    = flat_any re_match (s_pre S) h || negb (is_nil (s_tree S h)) || flat_any re_match (s_post S) h.
  Proof.
    intros (E1 & E2 & W & I) G NS. unfold has_hostname, has_hostname_at. rewrite E1, E2.
    rewrite (lookup_exact_getk leafv re_match (tree rt) h G NS W). rewrite (I h G).
    unfold nonempty. destruct (is_nil (s_tree S h)); reflexivity.
  Qed.

  Lemma has_hostname_history hist h :
    plain_history hist -> good_key h -> label_of h <> [STAR] ->
    has_hostname re_match (run re_ok re_match hist) h
    = flat_any re_match (s_pre (config re_ok hist)) h || negb (is_nil (s_tree (config re_ok hist) h))
      || flat_any re_match (s_post (config re_ok hist)) h.
  Proof. intros P G NS. apply has_hostname_config; auto. apply run_refines; exact P. Qed.
End HasHostname.

(** for a wild-card NAME the immutable lookup reads '*' as a literal label:
    the answer is [false] although a frontend is configured under that name *)
Lemma has_hostname_wildcard_refuted_lemma :
  exists hist h,
    plain_history hist /\ good_key h /\ s_tree (config (fun _ => true) hist) h <> [] /\
    has_hostname (fun _ _ => false) (run (fun _ => true) (fun _ _ => false) hist) h = false.
Proof.
  exists [OAdd (w_front w_star_a_com [47]%N [48]%N)], w_star_a_com.
  split; [repeat constructor; cbn; discriminate|]. split; [repeat constructor; cbn; discriminate|].
  split; vm_compute; [discriminate|reflexivity].
Qed.
