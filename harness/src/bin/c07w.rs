//! C07, worker side: does a listener patch that the live proxy answers with an
//! error leave a trace in the live listener?  In-process, on the real
//! `sozu_lib::{http::HttpListener, https::HttpsListener}::update_config`
//! (the function `Server::notify_update_http(s)_listener` calls after
//! `config_state.dispatch`).
//!
//! ops:  http_patch  <connect_timeout> <sticky idx> <answer idx>
//!       https_patch <connect_timeout> <sticky idx> <answer idx> <hsts: 0 none, 1 enabled=Some(true), 2 enabled=None>
//!                   [<listener's own hsts default: 0 none, 1 enabled, 2 disabled>]
//!       front_tags  <tls 0|1> <how the second add is made unacceptable: 0 same route again, 1 unknown path kind,
//!                   2 nothing (accepted)> <tags idx of the first add> <tags idx of the second add>
//!                   on the real `HttpProxy::add_http_frontend` / `HttpsProxy::add_https_frontend`
//!       front_seq   <tls 0|1> (<verb 0 add | 1 remove> <route 0..3> <tags idx>)*   a history of AddHttp(s)Frontend /
//!                   RemoveHttp(s)Frontend on ONE hostname of the real proxy object (routes 0-2: paths / /a /b,
//!                   route 3: an unknown path kind, never acceptable); model: coq/C07/Tags.v
//! obs:  ok|err  connect_timeout-after  sticky-changed
//!       front_tags: ok|err (first add)  ok|err (second add)  tags-of-the-hostname-changed-by-the-second-add
//!       front_seq:  per step: ok|err  tags token of the hostname after the step (0 none, i+1 = tags pool i, 99 other)
use mio::Token;
use sozu_command_lib::proto::command::{
    CustomHttpAnswers, HstsConfig, HttpListenerConfig, HttpsListenerConfig, SocketAddress, UpdateHttpListenerConfig,
    UpdateHttpsListenerConfig,
};
use sozu_command_lib::{proto::command::request::RequestType, state::ConfigState};
use sozu_lib::{http::HttpListener, https::HttpsListener, L7ListenerHandler};
use verif_harness::{drive, tn, ts, Case, Out};

const STICKY: [&str; 2] = ["SOZUBALANCEID", "OTHER"];
const ANSWERS: [&str; 3] = [
    "HTTP/1.1 404 Not Found\r\nCache-Control: no-cache\r\nConnection: close\r\n\r\n",
    "this is not an HTTP response",
    "HTTP/1.1 404 Not Found\r\nX: %NOT_A_VARIABLE_BUT_FINE\r\n\r\n",
];

fn run(c: &Case, out: &mut Out) {
    let addr = SocketAddress::new_v4(127, 0, 0, 1, 8080);
    for op in &c.ops {
        let a: Vec<i128> = op.args.iter().map(|t| t.n()).collect();
        match op.name.as_str() {
            "http_patch" => {
                let cfg = HttpListenerConfig { address: addr, sticky_name: STICKY[0].into(), ..Default::default() };
                let mut l = HttpListener::new(cfg, Token(0)).expect("listener");
                let (ct0, st0) = (l.get_connect_timeout(), l.get_sticky_name().to_string());
                let patch = UpdateHttpListenerConfig {
                    address: addr,
                    connect_timeout: Some(a[0] as u32),
                    sticky_name: Some(STICKY[a[1] as usize % 2].into()),
                    http_answers: Some(CustomHttpAnswers { answer_404: Some(ANSWERS[a[2] as usize % 3].into()), ..Default::default() }),
                    ..Default::default()
                };
                let r = l.update_config(&patch);
                let changed = l.get_connect_timeout() != ct0 || l.get_sticky_name() != st0;
                // what the worker's (and the main process') ConfigState says about the same patch:
                // server.rs applies it first and ignores the result
                let mut st = ConfigState::new();
                let cfg2 = HttpListenerConfig { address: addr, sticky_name: STICKY[0].into(), ..Default::default() };
                st.dispatch(&RequestType::AddHttpListener(cfg2).into()).expect("add listener");
                let before = st.clone();
                let view = st.dispatch(&RequestType::UpdateHttpListener(patch.clone()).into());
                out.obs(&[ts(if r.is_ok() { "ok" } else { "err" }), tn(l.get_connect_timeout()), tn(changed as i128)]);
                if r.is_err() && view.is_ok() && st.http_listeners != before.http_listeners {
                    out.viol("worker-view-drift", "UpdateHttpListener: the worker answers Failure (the proxy rejects the answer template) but config_state.dispatch, applied first and its result ignored, accepted the patch: the queryable view (and the main process' state) keep a patch the live listener refused");
                }
                if let Err(e) = &r {
                    if changed {
                        out.viol("worker-patch-trace", &format!("HttpListener::update_config answered an error ({e}) but the live listener changed: connect_timeout {ct0} -> {}, sticky_name {st0} -> {}", l.get_connect_timeout(), l.get_sticky_name()));
                    }
                }
            }
            "https_patch" => {
                let mut cfg: HttpsListenerConfig = sozu_command_lib::config::ListenerBuilder::new_https(addr)
                    .to_tls(None)
                    .expect("default https listener config");
                cfg.sticky_name = STICKY[0].into();
                cfg.hsts = match a.get(4).copied().unwrap_or(0) {
                    0 => None,
                    1 => Some(HstsConfig { enabled: Some(true), max_age: Some(5), ..Default::default() }),
                    _ => Some(HstsConfig { enabled: Some(false), ..Default::default() }),
                };
                let mut l = match HttpsListener::try_new(cfg, Token(0)) {
                    Ok(l) => l,
                    Err(e) => {
                        out.note(&format!("invalid-case: cannot build an HTTPS listener: {e}"));
                        out.obs(&[]);
                        continue;
                    }
                };
                let (ct0, st0) = (l.get_connect_timeout(), l.get_sticky_name().to_string());
                let patch = UpdateHttpsListenerConfig {
                    address: addr,
                    connect_timeout: Some(a[0] as u32),
                    sticky_name: Some(STICKY[a[1] as usize % 2].into()),
                    http_answers: Some(CustomHttpAnswers { answer_404: Some(ANSWERS[a[2] as usize % 3].into()), ..Default::default() }),
                    hsts: match a[3] {
                        0 => None,
                        1 => Some(HstsConfig { enabled: Some(true), max_age: Some(10), ..Default::default() }),
                        _ => Some(HstsConfig { enabled: None, max_age: Some(10), ..Default::default() }),
                    },
                    ..Default::default()
                };
                let r = l.update_config(&patch);
                let changed = l.get_connect_timeout() != ct0 || l.get_sticky_name() != st0;
                out.obs(&[ts(if r.is_ok() { "ok" } else { "err" }), tn(l.get_connect_timeout()), tn(changed as i128)]);
                if let Err(e) = &r {
                    if changed {
                        out.viol("worker-patch-trace", &format!("HttpsListener::update_config answered an error ({e}) but the live listener changed: connect_timeout {ct0} -> {}, sticky_name {st0} -> {}", l.get_connect_timeout(), l.get_sticky_name()));
                    }
                }
            }
            "front_tags" => {
                let (tls, how, t1, t2) = (a[0] != 0, a[1], a[2], a[3]);
                match front_tags(tls, how, t1, t2) {
                    Ok((r1, r2, before, after)) => {
                        let changed = before != after;
                        out.obs(&[ts(if r1.is_ok() { "ok" } else { "err" }), ts(if r2.is_ok() { "ok" } else { "err" }), tn(changed as i128)]);
                        if let Err(e) = &r2 {
                            if changed {
                                out.viol(
                                    "worker-front-trace",
                                    &format!(
                                        "{}: answered an error ({e}) but the tags the listener keeps for the hostname changed: {before:?} -> {after:?}",
                                        if tls { "HttpsProxy::add_https_frontend" } else { "HttpProxy::add_http_frontend" }
                                    ),
                                );
                            }
                        }
                        if r2.is_ok() && how == 2 && !changed && t1 != t2 {
                            out.viol("worker-front-tags-not-applied", "an accepted frontend with other tags left the hostname's tags as they were");
                        }
                    }
                    Err(e) => {
                        out.note(&format!("invalid-case: cannot build the proxy: {e}"));
                        out.obs(&[]);
                    }
                }
            }
            "front_seq" => {
                let tls = a[0] != 0;
                let steps: Vec<(i128, i128, i128)> = a[1..].chunks(3).filter(|c| c.len() == 3).map(|c| (c[0], c[1], c[2])).collect();
                match front_seq(tls, &steps) {
                    Ok(res) => {
                        // the bookkeeping of coq/C07/Tags.v on the answers: the routes accepted and not yet removed
                        let mut routes = std::collections::BTreeSet::new();
                        let mut tags: i128 = 0;
                        let mut o = vec![];
                        let who = if tls { "HttpsProxy" } else { "HttpProxy" };
                        for (i, ((verb, r, t), (ok, tok))) in steps.iter().zip(res.iter()).enumerate() {
                            o.push(ts(if *ok { "ok" } else { "err" }));
                            o.push(tn(*tok));
                            let what = format!("{who} step {i} ({} route {r} tags {t})", if *verb == 0 { "add" } else { "remove" });
                            // (the router answers the removal of a route it does not hold with success: removal is idempotent,
                            // only a rule it cannot parse is refused)
                            let acceptable = if *verb == 0 { *r < 3 && !routes.contains(r) } else { *r < 3 };
                            if *ok != acceptable {
                                out.viol("worker-front-answer", &format!("{what}: answered {} although the route was {}", if *ok { "ok" } else { "an error" }, if *r >= 3 { "unparsable" } else if routes.contains(r) { "present" } else { "absent" }));
                            }
                            if !*ok {
                                if *tok != tags {
                                    out.viol("worker-front-trace", &format!("{what}: answered an error but the tags the listener keeps for the hostname changed: {tags} -> {tok}"));
                                }
                            } else if *verb == 0 {
                                routes.insert(*r);
                                if *tok != t.rem_euclid(3) + 1 {
                                    out.viol("worker-front-tags", &format!("{what}: accepted but the hostname's tags are {tok}, not the frontend's"));
                                }
                            } else {
                                routes.remove(r);
                                let want = if routes.is_empty() { 0 } else { tags };
                                if *tok != want {
                                    out.viol("worker-front-tags", &format!("{what}: accepted, {} route(s) left for the hostname, but its tags went {tags} -> {tok} (want {want})", routes.len()));
                                }
                            }
                            tags = *tok;
                        }
                        out.obs(&o);
                    }
                    Err(e) => {
                        out.note(&format!("invalid-case: cannot build the proxy: {e}"));
                        out.obs(&[]);
                    }
                }
            }
            _ => {
                out.note("invalid-case: unknown op");
                out.obs(&[]);
            }
        }
    }
}

fn tags_tok(t: Option<String>) -> i128 {
    match t {
        None => 0,
        Some(s) => (0..3)
            .find(|i| sozu_command_lib::logging::CachedTags::new(tags_of(*i)).concatenated == s)
            .map(|i| i + 1)
            .unwrap_or(99),
    }
}

/// -> per step (accepted, tags token of the hostname after the step)
fn front_seq(tls: bool, steps: &[(i128, i128, i128)]) -> Result<Vec<(bool, i128)>, String> {
    use sozu_command_lib::proto::command::{PathRule, RequestHttpFrontend};
    use sozu_lib::ListenerHandler;
    let parts = sozu_lib::testing::prebuild_server(8, 16384, false).map_err(|e| e.to_string())?;
    let addr = SocketAddress::new_v4(127, 0, 0, 1, 8080);
    let token = Token(7);
    let front = |r: i128, t: i128| {
        let mut f = RequestHttpFrontend {
            cluster_id: Some("c0".into()),
            address: addr,
            hostname: HOST.into(),
            path: PathRule::prefix(["/", "/a", "/b", "/c"][r.rem_euclid(4) as usize]),
            position: 2,
            tags: tags_of(t),
            ..Default::default()
        };
        if r.rem_euclid(4) == 3 {
            f.path.kind = 7;
        }
        f
    };
    let mut out = vec![];
    if tls {
        let cfg: HttpsListenerConfig =
            sozu_command_lib::config::ListenerBuilder::new_https(addr).to_tls(None).map_err(|e| e.to_string())?;
        let mut p = sozu_lib::https::HttpsProxy::new(parts.registry, parts.sessions.clone(), parts.pool.clone(), parts.backends.clone());
        p.add_listener(cfg, token).map_err(|e| e.to_string())?;
        let l = p.verif_get_listener(&token).ok_or("no listener")?;
        for (verb, r, t) in steps {
            let ok = if *verb == 0 { p.add_https_frontend(front(*r, *t)).is_ok() } else { p.remove_https_frontend(front(*r, *t)).is_ok() };
            out.push((ok, tags_tok(l.borrow().get_concatenated_tags(HOST).map(|s| s.to_string()))));
        }
    } else {
        let cfg = HttpListenerConfig { address: addr, ..Default::default() };
        let mut p = sozu_lib::http::HttpProxy::new(parts.registry, parts.sessions.clone(), parts.pool.clone(), parts.backends.clone());
        p.add_listener(cfg, token).map_err(|e| e.to_string())?;
        let l = p.get_listener(&token).ok_or("no listener")?;
        for (verb, r, t) in steps {
            let ok = if *verb == 0 { p.add_http_frontend(front(*r, *t)).is_ok() } else { p.remove_http_frontend(front(*r, *t)).is_ok() };
            out.push((ok, tags_tok(l.borrow().get_concatenated_tags(HOST).map(|s| s.to_string()))));
        }
    }
    Ok(out)
}

const HOST: &str = "tags.example.com";
fn tags_of(i: i128) -> std::collections::BTreeMap<String, String> {
    let mut m = std::collections::BTreeMap::new();
    match i % 3 {
        0 => {}
        1 => {
            m.insert("owner".to_string(), "a".to_string());
        }
        _ => {
            m.insert("owner".to_string(), "b".to_string());
            m.insert("env".to_string(), "x".to_string());
        }
    }
    m
}

type AddResult = Result<(), String>;
/// the real proxy objects (what `Server::notify_proxys` calls), one listener, two AddHttp(s)Frontend:
/// -> (first answer, second answer, the hostname's tags before / after the second)
fn front_tags(tls: bool, how: i128, t1: i128, t2: i128) -> Result<(AddResult, AddResult, Option<String>, Option<String>), String> {
    use sozu_command_lib::proto::command::{PathRule, RequestHttpFrontend};
    use sozu_lib::ListenerHandler;
    let parts = sozu_lib::testing::prebuild_server(8, 16384, false).map_err(|e| e.to_string())?;
    let addr = SocketAddress::new_v4(127, 0, 0, 1, 8080);
    let token = Token(7);
    let first = RequestHttpFrontend {
        cluster_id: Some("c0".into()),
        address: addr,
        hostname: HOST.into(),
        path: PathRule::prefix("/"),
        position: 2,
        tags: tags_of(t1),
        ..Default::default()
    };
    let mut second = RequestHttpFrontend { cluster_id: Some("c1".into()), tags: tags_of(t2), ..first.clone() };
    match how {
        0 => {}
        1 => second.path.kind = 7,
        _ => second.path = PathRule::prefix("/other"),
    }
    if tls {
        let cfg: HttpsListenerConfig =
            sozu_command_lib::config::ListenerBuilder::new_https(addr).to_tls(None).map_err(|e| e.to_string())?;
        let mut p = sozu_lib::https::HttpsProxy::new(parts.registry, parts.sessions.clone(), parts.pool.clone(), parts.backends.clone());
        p.add_listener(cfg, token).map_err(|e| e.to_string())?;
        let l = p.verif_get_listener(&token).ok_or("no listener")?;
        let r1 = p.add_https_frontend(first).map(|_| ()).map_err(|e| e.to_string());
        let before = l.borrow().get_concatenated_tags(HOST).map(|s| s.to_string());
        let r2 = p.add_https_frontend(second).map(|_| ()).map_err(|e| e.to_string());
        let after = l.borrow().get_concatenated_tags(HOST).map(|s| s.to_string());
        Ok((r1, r2, before, after))
    } else {
        let cfg = HttpListenerConfig { address: addr, ..Default::default() };
        let mut p = sozu_lib::http::HttpProxy::new(parts.registry, parts.sessions.clone(), parts.pool.clone(), parts.backends.clone());
        p.add_listener(cfg, token).map_err(|e| e.to_string())?;
        let l = p.get_listener(&token).ok_or("no listener")?;
        let r1 = p.add_http_frontend(first).map_err(|e| e.to_string());
        let before = l.borrow().get_concatenated_tags(HOST).map(|s| s.to_string());
        let r2 = p.add_http_frontend(second).map_err(|e| e.to_string());
        let after = l.borrow().get_concatenated_tags(HOST).map(|s| s.to_string());
        Ok((r1, r2, before, after))
    }
}

// ---------------------------------------------------------------------------
// black box: a real worker (`sozu_lib::server::Server`) in a thread, driven over its command
// channel (same pattern as harness/src/bin/c08.rs).  For every request: the worker's answer,
// what ConfigState::dispatch says about it (the worker's config_state is that function applied
// to the same request sequence), and the worker's own QueryClusterById answer as cross-check.

mod bb {
    use std::io::{Read, Write};
    use std::os::unix::net::UnixStream;
    use std::time::{Duration, Instant};

    use prost::Message;
    use sozu_command_lib::{
        channel::Channel,
        config::{ConfigBuilder, FileConfig},
        logging::LOGGER,
        proto::command::{
            request::RequestType, response_content::ContentType, AddBackend, AddCertificate, CertificateAndKey, Cluster,
            HardStop, HttpListenerConfig, PathRule, RemoveBackend, Request, RequestHttpFrontend, RequestTcpFrontend,
            ServerConfig, SocketAddress, Status, WorkerRequest, WorkerResponse,
        },
        scm_socket::{Listeners, ScmSocket},
        state::ConfigState,
    };
    use sozu_lib::server::Server;

    fn frame(payload: &[u8]) -> Vec<u8> {
        let mut v = (payload.len() + 8).to_le_bytes().to_vec();
        v.extend_from_slice(payload);
        v
    }

    pub struct W {
        sock: UnixStream,
        buf: Vec<u8>,
        job: Option<std::thread::JoinHandle<()>>,
        _scm: UnixStream,
        n: usize,
        pub view: ConfigState,
    }

    pub fn start() -> W {
        let (a, b) = UnixStream::pair().unwrap();
        let (s1, s2) = UnixStream::pair().unwrap();
        a.set_nonblocking(true).unwrap();
        let s2k = s2.try_clone().unwrap();
        let job = std::thread::Builder::new()
            .name("worker".into())
            .spawn(move || {
                use std::os::fd::IntoRawFd;
                LOGGER.with(|l| l.borrow_mut().set_directives(vec![]));
                let config = ConfigBuilder::new(FileConfig::default(), "").into_config().expect("config");
                let sc = ServerConfig::from(&config);
                let channel: Channel<WorkerResponse, WorkerRequest> =
                    Channel::new(mio::net::UnixStream::from_std(a), sc.command_buffer_size, sc.max_command_buffer_size);
                let scm_main = ScmSocket::new(s2.into_raw_fd()).expect("scm");
                scm_main.send_listeners(&Listeners::default()).expect("send listeners");
                let scm = ScmSocket::new(s1.into_raw_fd()).expect("scm");
                let mut server =
                    Server::try_new_from_config(channel, scm, sc, ConfigState::new().produce_initial_state(), false).expect("worker");
                server.run();
            })
            .unwrap();
        W { sock: b, buf: vec![], job: Some(job), _scm: s2k, n: 0, view: ConfigState::new() }
    }

    impl W {
        fn write(&mut self, id: &str, req: &Request) -> bool {
            let wr = WorkerRequest { id: id.to_string(), content: req.clone() };
            self.sock.set_nonblocking(false).ok();
            self.sock.set_write_timeout(Some(Duration::from_secs(5))).ok();
            self.sock.write_all(&frame(&wr.encode_to_vec())).is_ok()
        }
        fn wait(&mut self, id: &str) -> Option<WorkerResponse> {
            let t0 = Instant::now();
            self.sock.set_nonblocking(true).ok();
            let mut tmp = [0u8; 65536];
            loop {
                while self.buf.len() >= 8 {
                    let len = usize::from_le_bytes(self.buf[..8].try_into().unwrap());
                    if len < 8 || self.buf.len() < len {
                        break;
                    }
                    let payload = self.buf[8..len].to_vec();
                    self.buf.drain(..len);
                    if let Ok(r) = WorkerResponse::decode(&payload[..]) {
                        if r.id == id && r.status != 1 {
                            return Some(r);
                        }
                    }
                }
                match self.sock.read(&mut tmp) {
                    Ok(0) => return None,
                    Ok(n) => self.buf.extend_from_slice(&tmp[..n]),
                    Err(e) if e.kind() == std::io::ErrorKind::WouldBlock => {
                        if t0.elapsed() > Duration::from_secs(20) {
                            return None;
                        }
                        std::thread::sleep(Duration::from_micros(300));
                    }
                    Err(_) => return None,
                }
            }
        }
        /// -> (worker answered OK, ConfigState accepted, the view changed)
        pub fn send(&mut self, req: Request) -> Option<(bool, bool, bool)> {
            self.n += 1;
            let id = format!("REQ-{}", self.n);
            let before = self.view.clone();
            let state_ok = self.view.dispatch(&req).is_ok();
            let mut a = before.clone();
            let mut b = self.view.clone();
            a.request_counts.clear();
            b.request_counts.clear();
            let changed = a != b;
            if !self.write(&id, &req) {
                return None;
            }
            let r = self.wait(&id)?;
            Some((r.status == 0, state_ok, changed))
        }
        /// the worker's own answer to QueryClusterById must be what the local copy of the view says
        pub fn view_agrees(&mut self, cluster: &str) -> Option<bool> {
            self.n += 1;
            let id = format!("Q-{}", self.n);
            if !self.write(&id, &RequestType::QueryClusterById(cluster.to_string()).into()) {
                return None;
            }
            let r = self.wait(&id)?;
            let got = match r.content.and_then(|c| c.content_type) {
                Some(ContentType::Clusters(cs)) => cs.vec,
                _ => vec![],
            };
            let want: Vec<_> = self.view.cluster_state(cluster).into_iter().collect();
            Some(got == want)
        }
        pub fn stop(mut self) {
            self.n += 1;
            let _ = self.write("STOP", &RequestType::HardStop(HardStop {}).into());
            let t0 = Instant::now();
            while let Some(j) = self.job.as_ref() {
                if j.is_finished() || t0.elapsed() > Duration::from_secs(5) {
                    break;
                }
                let _ = self.wait("never");
                std::thread::sleep(Duration::from_millis(5));
            }
            if let Some(j) = self.job.take() {
                if j.is_finished() {
                    let _ = j.join();
                }
            }
        }
    }

    pub fn addr(port: u16) -> SocketAddress {
        SocketAddress::new_v4(127, 0, 0, 1, port)
    }
    pub fn cluster(id: &str) -> Request {
        RequestType::AddCluster(Cluster { cluster_id: id.into(), ..Default::default() }).into()
    }
    pub fn front(cluster: &str, port: u16, host: &str) -> RequestHttpFrontend {
        RequestHttpFrontend {
            cluster_id: Some(cluster.into()),
            address: addr(port),
            hostname: host.into(),
            path: PathRule::prefix("/"),
            position: 2,
            ..Default::default()
        }
    }
    pub fn backend(cluster: &str, id: &str, port: u16) -> Request {
        RequestType::AddBackend(AddBackend { cluster_id: cluster.into(), backend_id: id.into(), address: addr(port), ..Default::default() }).into()
    }
    pub fn remove_backend(cluster: &str, id: &str, port: u16) -> Request {
        RequestType::RemoveBackend(RemoveBackend { cluster_id: cluster.into(), backend_id: id.into(), address: addr(port) }).into()
    }
    pub fn http_listener(port: u16) -> Request {
        RequestType::AddHttpListener(HttpListenerConfig { address: addr(port), ..Default::default() }).into()
    }
    pub fn cert(port: u16) -> Request {
        RequestType::AddCertificate(AddCertificate {
            address: addr(port),
            certificate: CertificateAndKey {
                certificate: include_str!("/repo/lib/assets/certificate.pem").into(),
                key: include_str!("/repo/lib/assets/key.pem").into(),
                ..Default::default()
            },
            expired_at: None,
        })
        .into()
    }
    pub fn tcp_front(cluster: &str, port: u16) -> Request {
        RequestType::AddTcpFrontend(RequestTcpFrontend { cluster_id: cluster.into(), address: addr(port), ..Default::default() }).into()
    }
    pub fn status() -> Request {
        RequestType::Status(Status {}).into()
    }
}

/// scenario -> the requests; the LAST one is the request under test
fn scenario(name: &str) -> Option<Vec<sozu_command_lib::proto::command::Request>> {
    use bb::*;
    use sozu_command_lib::proto::command::request::RequestType as RT;
    Some(match name {
        "http_front_no_listener" => vec![cluster("c0"), RT::AddHttpFrontend(front("c0", 18080, "a.test")).into()],
        "https_front_no_listener" => vec![cluster("c0"), RT::AddHttpsFrontend(front("c0", 18443, "a.test")).into()],
        "tcp_front_no_listener" => vec![cluster("c0"), tcp_front("c0", 18081)],
        "remove_cluster_unknown" => vec![cluster("c0"), RT::RemoveCluster("nope".into()).into()],
        "remove_backend_unknown" => vec![cluster("c0"), remove_backend("c0", "b0", 19000)],
        "remove_backend_wrong_id" => vec![cluster("c0"), backend("c0", "b0", 19000), remove_backend("c0", "other", 19000)],
        "cert_no_https_listener" => vec![cert(18443)],
        "backend_duplicate" => vec![cluster("c0"), backend("c0", "b0", 19000), backend("c0", "b0", 19000)],
        "http_front_duplicate" => vec![http_listener(18080), cluster("c0"), RT::AddHttpFrontend(front("c0", 18080, "a.test")).into(), RT::AddHttpFrontend(front("c0", 18080, "a.test")).into()],
        "http_front_ok" => vec![http_listener(18080), cluster("c0"), RT::AddHttpFrontend(front("c0", 18080, "a.test")).into()],
        "remove_front_unknown" => vec![http_listener(18080), cluster("c0"), RT::RemoveHttpFrontend(front("c0", 18080, "a.test")).into()],
        "status" => vec![status()],
        _ => return None,
    })
}

fn run_bb(c: &Case, out: &mut Out) {
    for op in &c.ops {
        let name = op.args[0].s().to_string();
        let Some(reqs) = scenario(&name) else {
            out.note("invalid-case: unknown scenario");
            out.obs(&[]);
            continue;
        };
        let mut w = bb::start();
        let mut toks = vec![];
        let mut last = None;
        let mut dead = false;
        for r in reqs {
            let verb = r.short_name().to_string();
            match w.send(r) {
                Some((ok, sok, ch)) => {
                    toks.extend([tn(ok as i128), tn(sok as i128), tn(ch as i128)]);
                    last = Some((verb, ok, sok, ch));
                }
                None => {
                    dead = true;
                    break;
                }
            }
        }
        if dead {
            out.viol("worker-died", &format!("scenario {name}: the worker stopped answering"));
            out.obs(&[ts("gone")]);
            continue;
        }
        match w.view_agrees("c0") {
            Some(true) => toks.push(tn(1)),
            Some(false) => {
                toks.push(tn(0));
                out.viol("worker-view-mismatch", &format!("scenario {name}: QueryClusterById(c0) of the worker differs from ConfigState applied to the same requests"));
            }
            None => toks.push(ts("gone")),
        }
        out.obs(&toks);
        if let Some((verb, ok, sok, ch)) = last {
            if !ok && ch {
                out.viol(
                    "worker-view-drift",
                    &format!("{verb} ({name}): the worker answers Failure (the live proxy refuses) but config_state.dispatch, applied first and its result ignored, accepted it: the worker's queryable view keeps an object its proxy refused"),
                );
            }
            if ok && !sok {
                out.viol(
                    "worker-view-drift",
                    &format!("{verb} ({name}): the worker's config_state rejected the request (view unchanged) yet the proxies were invoked and the worker answered OK"),
                );
            }
        }
        w.stop();
    }
}

fn main() {
    drive(|c, o| {
        if c.ops.iter().all(|op| op.name == "scenario") {
            run_bb(c, o)
        } else {
            run(c, o)
        }
    });
}
