(** C04 — refinement of the router to the configuration for histories whose
    tree hostnames are plain OR have a left-most regex segment ([/re/.rest]).
    Same abstract configuration as [C04.Proofs]; the invariant is stated on the
    exact walk [cgetr] and accounts for everything stored in the trie. *)
From Coq Require Import List Arith NArith ZArith Bool Lia.
From SV Require Import Common.Trie Common.TrieProofs Common.TrieRegex C04.Gen C04.Model C04.Proofs.
Import ListNotations.

Lemma kstep_eq_dec (a b : kstep) : {a = b} + {a <> b}.
Proof. decide equality; try apply Bool.bool_dec; apply (list_eq_dec N.eq_dec). Qed.
Definition steps_eq_dec := list_eq_dec kstep_eq_dec.

Section RefineR.
  Variable re_ok : bytes -> bool.
  Variable re_match : bytes -> bytes -> bool.
  Notation hostk := (host_key re_ok).

  (** everything stored in the trie is a configured hostname with exactly its
      (non-empty) rule list, and every configured hostname is stored *)
  Definition tree_inv_r (t : trie leafv) (T : bytes -> leafv) : Prop :=
    forall steps, canonr steps ->
      match cgetr leafv t steps with
      | Some (k, l) => hostk k /\ ksteps k = steps /\ l = T k /\ l <> []
      | None => forall k, hostk k -> ksteps k = steps -> T k = []
      end.

  Definition refines_r (rt : router) (S : astate) : Prop :=
    pre rt = s_pre S /\ post rt = s_post S /\ wfr leafv (tree rt) /\ tree_inv_r (tree rt) (s_tree S).

  Lemma refines_r_empty : refines_r empty_router empty_astate.
  Proof.
    split; [reflexivity|]. split; [reflexivity|]. split; [apply wfr_root|].
    intros steps C. cbn [empty_router tree empty_astate s_tree]. rewrite cgetr_root by exact C. reflexivity.
  Qed.

  Lemma inv_at t T k : tree_inv_r t T -> hostk k ->
    cgetk leafv t k = option_map (fun l => (k, l)) (nonempty (T k)).
  Proof.
    intros I G. unfold cgetk. pose proof (I (ksteps k) (host_key_canonr re_ok k G)) as H.
    destruct (cgetr leafv t (ksteps k)) as [[k' l]|].
    - destruct H as (G' & E & -> & NE). assert (k' = k) by (apply (host_key_steps_inj re_ok); assumption). subst k'.
      unfold nonempty. destruct (T k); [congruence|reflexivity].
    - rewrite (H k G eq_refl). reflexivity.
  Qed.

  Lemma slash_not_good k k' : good_key k -> mem SLASH k' = true -> k' <> k.
  Proof. intros (_ & NS & _) H E. subst. congruence. Qed.

  Lemma own_leaf_inv_r t T k : wfr leafv t -> tree_inv_r t T -> hostk k -> own_leaf re_match t k = nonempty (T k).
  Proof.
    intros W I G. unfold own_leaf, lookup_mut.
    pose proof (access_spec leafv re_match (ksteps k) (host_key_canonr re_ok k G) t (fun v => v) W) as A.
    pose proof (inv_at t T k I G) as E. unfold cgetk in E. rewrite E in A.
    destruct (nonempty (T k)) as [l|]; cbn [option_map] in A.
    - rewrite A. rewrite beq_refl. reflexivity.
    - destruct A as [A|(k' & v & ss & l & A & SL & ES)]; rewrite A; [reflexivity|].
      destruct (beq k' k) eqn:EB; [|reflexivity]. apply beq_eq in EB. subst k'. exfalso.
      destruct G as [G|(body & r & -> & [NS T'] & OK)].
      + apply (slash_not_good k k G SL). reflexivity.
      + rewrite ksteps_rkey in ES by (split; assumption). apply app_inj_tail in ES. destruct ES as [_ ES]. discriminate.
  Qed.

  Lemma add_tree_refines_r t T host p m r :
    wfr leafv t -> tree_inv_r t T -> hostk host ->
    let '(t', b) := add_tree_rule re_ok re_match t host p m r in
    let '(T', b') := a_add_tree T host p m r in
    b = b' /\ wfr leafv t' /\ tree_inv_r t' T'.
  Proof.
    intros W I G. unfold add_tree_rule, a_add_tree.
    rewrite (own_leaf_inv_r t T host W I G). pose proof (inv_at t T host I G) as Ih. unfold cgetk in Ih.
    pose proof (host_key_canonr re_ok host G) as CH.
    unfold nonempty in *. destruct (is_nil (T host)) eqn:EN; cbn [option_map] in Ih.
    - assert (ET : T host = []) by (destruct (T host); [reflexivity|discriminate]).
      rewrite ET. cbn [existsb app].
      pose proof (insert_ok_absent_r leafv re_ok t host [(p, m, r)] G W Ih) as OK.
      pose proof (wfr_insert_k leafv re_ok t host [(p, m, r)] G W) as W'.
      pose proof (insert_unfold_r leafv re_ok t host [(p, m, r)] G) as IU.
      destruct (insert re_ok t host [(p, m, r)]) as [t' res] eqn:EI. cbn [snd fst] in *. subst res.
      split; [reflexivity|]. split; [exact W'|].
      destruct (insert_w re_ok t (ksteps host) host [(p, m, r)]) as [t1 r1] eqn:EW.
      assert (r1 = IOk /\ t1 = t') as [-> ->] by (destruct r1; inversion IU; auto).
      intros steps C. unfold upd. destruct (steps_eq_dec steps (ksteps host)) as [->|NE].
      + rewrite (cgetr_insert_same leafv re_ok (ksteps host) CH t host [(p, m, r)] t' EW).
        rewrite beq_refl. repeat split; auto. discriminate.
      + pose proof (cgetr_insert_other leafv re_ok (ksteps host) CH steps t host [(p, m, r)] C W ltac:(congruence)) as O.
        rewrite EW in O. cbn [fst] in O. rewrite O. pose proof (I steps C) as Is.
        destruct (cgetr leafv t steps) as [[k l]|].
        * destruct Is as (Gk & Ek & El & Nl). repeat split; auto.
          destruct (beq k host) eqn:EB; [apply beq_eq in EB; subst k; congruence|exact El].
        * intros k Gk Ek. destruct (beq k host) eqn:EB; [apply beq_eq in EB; subst k; congruence|]. apply Is; assumption.
    - assert (CG : cgetr leafv t (ksteps host) = Some (host, T host)) by exact Ih.
      destruct (existsb (same_leaf p m) (T host)); [auto|].
      split; [reflexivity|].
      change (modify_mut re_match t host false (fun ps => ps ++ [(p, m, r)]))
        with (modr leafv re_match t (ksteps host) (fun ps => ps ++ [(p, m, r)])).
      split; [eapply wfr_modr; eauto|].
      intros steps C. unfold upd. destruct (steps_eq_dec steps (ksteps host)) as [->|NE].
      + rewrite (modr_same leafv re_match (ksteps host) CH t _ _ W CG). cbn [fst snd].
        rewrite beq_refl. repeat split; auto. destruct (T host); discriminate.
      + rewrite (modr_other leafv re_match (ksteps host) CH steps t _ _ C W CG ltac:(congruence)).
        pose proof (I steps C) as Is. destruct (cgetr leafv t steps) as [[k l]|].
        * destruct Is as (Gk & Ek & El & Nl). repeat split; auto.
          destruct (beq k host) eqn:EB; [apply beq_eq in EB; subst k; congruence|exact El].
        * intros k Gk Ek. destruct (beq k host) eqn:EB; [apply beq_eq in EB; subst k; congruence|]. apply Is; assumption.
  Qed.

  Lemma del_tree_refines_r t T host p m :
    wfr leafv t -> tree_inv_r t T -> hostk host ->
    wfr leafv (remove_tree_rule re_match t host p m) /\
    tree_inv_r (remove_tree_rule re_match t host p m) (a_del_tree T host p m).
  Proof.
    intros W I G. unfold remove_tree_rule, a_del_tree.
    rewrite (own_leaf_inv_r t T host W I G). pose proof (inv_at t T host I G) as Ih. unfold cgetk in Ih.
    pose proof (host_key_canonr re_ok host G) as CH.
    unfold nonempty in Ih |- *. destruct (is_nil (T host)) eqn:EN; cbn [option_map] in Ih.
    - assert (ET : T host = []) by (destruct (T host); [reflexivity|discriminate]).
      split; [exact W|]. intros steps C. unfold upd. pose proof (I steps C) as Is.
      destruct (cgetr leafv t steps) as [[k l]|].
      + destruct Is as (Gk & Ek & El & Nl). repeat split; auto.
        destruct (beq k host) eqn:EB; [apply beq_eq in EB; subst k; congruence|exact El].
      + intros k Gk Ek. destruct (beq k host) eqn:EB; [|apply Is; assumption].
        apply beq_eq in EB. subst k. rewrite ET. reflexivity.
    - assert (CG : cgetr leafv t (ksteps host) = Some (host, T host)) by exact Ih.
      set (keep := filter (fun e => negb (same_leaf p m e)) (T host)).
      change (modify_mut re_match t host false (fun _ => keep)) with (modr leafv re_match t (ksteps host) (fun _ => keep)).
      set (t1 := modr leafv re_match t (ksteps host) (fun _ => keep)).
      assert (W1 : wfr leafv t1) by (eapply wfr_modr; eauto).
      assert (C1 : cgetr leafv t1 (ksteps host) = Some (host, keep)).
      { unfold t1. rewrite (modr_same leafv re_match (ksteps host) CH t _ _ W CG). reflexivity. }
      assert (O1 : forall steps, canonr steps -> steps <> ksteps host -> cgetr leafv t1 steps = cgetr leafv t steps).
      { intros steps C NE. unfold t1. apply (modr_other leafv re_match (ksteps host) CH steps t _ _ C W CG). congruence. }
      destruct (is_nil keep) eqn:EK.
      + split; [apply (wfr_remove_k leafv re_ok); assumption|].
        intros steps C. unfold upd. destruct (steps_eq_dec steps (ksteps host)) as [->|NE].
        * unfold remove. rewrite (cgetr_remove_same leafv (ksteps host) CH t1 W1).
          intros k Gk Ek. assert (k = host) by (apply (host_key_steps_inj re_ok); assumption). subst k.
          rewrite beq_refl. destruct keep; [reflexivity|discriminate].
        * unfold remove. rewrite (cgetr_remove_other leafv (ksteps host) CH steps t1 C W1 ltac:(congruence)).
          rewrite (O1 steps C NE). pose proof (I steps C) as Is. destruct (cgetr leafv t steps) as [[k l]|].
          -- destruct Is as (Gk & Ek & El & Nl). repeat split; auto.
             destruct (beq k host) eqn:EB; [apply beq_eq in EB; subst k; congruence|exact El].
          -- intros k Gk Ek. destruct (beq k host) eqn:EB; [apply beq_eq in EB; subst k; congruence|]. apply Is; assumption.
      + split; [exact W1|].
        intros steps C. unfold upd. destruct (steps_eq_dec steps (ksteps host)) as [->|NE].
        * rewrite C1. rewrite beq_refl. repeat split; auto. destruct keep; [discriminate|discriminate].
        * rewrite (O1 steps C NE). pose proof (I steps C) as Is. destruct (cgetr leafv t steps) as [[k l]|].
          -- destruct Is as (Gk & Ek & El & Nl). repeat split; auto.
             destruct (beq k host) eqn:EB; [apply beq_eq in EB; subst k; congruence|exact El].
          -- intros k Gk Ek. destruct (beq k host) eqn:EB; [apply beq_eq in EB; subst k; congruence|]. apply Is; assumption.
  Qed.

  (** tree frontends on plain or left-most-regex hostnames *)
  Definition rplain_front (fr : frontend) : Prop :=
    match f_pos fr with Tree => hostk (f_host fr) | _ => True end.
  Definition rplain_history (h : list op) : Prop := Forall (fun o => rplain_front (op_front o)) h.

  Lemma add_refines_r rt S fr :
    refines_r rt S -> rplain_front fr ->
    refines_r (fst (add_front re_ok re_match rt fr)) (fst (a_add re_ok S fr)) /\
    snd (add_front re_ok re_match rt fr) = snd (a_add re_ok S fr).
  Proof.
    intros (E1 & E2 & W & I) PF. unfold add_front, a_add, rplain_front in *.
    destruct (parse_path re_ok (f_pkind fr) (f_pval fr)) as [p|]; [|cbn [fst snd]; unfold refines_r; auto 10].
    destruct (parse_domain re_ok (f_host fr)) as [d|]; [|cbn [fst snd]; unfold refines_r; auto 10].
    destruct (f_pos fr).
    - rewrite <- E1. destruct (add_flat (pre rt) d p (f_method fr) (mk_route fr)) as [l b].
      cbn [fst snd]. unfold refines_r; cbn [pre post tree s_pre s_post s_tree]; auto 10.
    - rewrite <- E2. destruct (add_flat (post rt) d p (f_method fr) (mk_route fr)) as [l b].
      cbn [fst snd]. unfold refines_r; cbn [pre post tree s_pre s_post s_tree]; auto 10.
    - pose proof (add_tree_refines_r (tree rt) (s_tree S) (f_host fr) p (f_method fr) (mk_route fr) W I PF) as R.
      destruct (add_tree_rule re_ok re_match (tree rt) (f_host fr) p (f_method fr) (mk_route fr)) as [t' b].
      destruct (a_add_tree (s_tree S) (f_host fr) p (f_method fr) (mk_route fr)) as [T' b'].
      destruct R as (-> & W' & I'). cbn [fst snd]. unfold refines_r; cbn [pre post tree s_pre s_post s_tree]; auto 10.
  Qed.

  Lemma del_refines_r rt S fr :
    refines_r rt S -> rplain_front fr ->
    refines_r (fst (remove_front re_ok re_match rt fr)) (fst (a_del re_ok S fr)) /\
    snd (remove_front re_ok re_match rt fr) = snd (a_del re_ok S fr).
  Proof.
    intros (E1 & E2 & W & I) PF. unfold remove_front, a_del, rplain_front in *.
    destruct (parse_path re_ok (f_pkind fr) (f_pval fr)) as [p|]; [|cbn [fst snd]; unfold refines_r; auto 10].
    destruct (f_pos fr).
    - destruct (parse_domain re_ok (f_host fr)) as [d|]; [|cbn [fst snd]; unfold refines_r; auto 10].
      rewrite <- E1. destruct (remove_flat (pre rt) d p (f_method fr)) as [l b]. cbn [fst snd].
      unfold refines_r; cbn [pre post tree s_pre s_post s_tree]; auto 10.
    - destruct (parse_domain re_ok (f_host fr)) as [d|]; [|cbn [fst snd]; unfold refines_r; auto 10].
      rewrite <- E2. destruct (remove_flat (post rt) d p (f_method fr)) as [l b]. cbn [fst snd].
      unfold refines_r; cbn [pre post tree s_pre s_post s_tree]; auto 10.
    - destruct (del_tree_refines_r (tree rt) (s_tree S) (f_host fr) p (f_method fr) W I PF) as [W' I'].
      cbn [fst snd]. unfold refines_r; cbn [pre post tree s_pre s_post s_tree]; auto 10.
  Qed.

  Lemma run_refines_r_gen h : forall rt S,
      refines_r rt S -> rplain_history h ->
      refines_r (fold_left (step_rt re_ok re_match) h rt) (fold_left (step_a re_ok) h S).
  Proof.
    induction h as [|o h IH]; intros rt S R P; cbn [fold_left]; [exact R|].
    inversion P as [|? ? Po Ph]; subst. apply IH; [|exact Ph].
    destruct o as [f|f]; cbn [step_rt step_a op_front] in *.
    - apply add_refines_r; assumption.
    - apply del_refines_r; assumption.
  Qed.

  Lemma run_refines_r h : rplain_history h -> refines_r (run re_ok re_match h) (config re_ok h).
  Proof. apply run_refines_r_gen. apply refines_r_empty. Qed.
End RefineR.

(** ** lookups *)
Section LookupR.
  Variable re_ok : bytes -> bool.
  Variable re_match : bytes -> bytes -> bool.
  Notation hostk := (host_key re_ok).

  (** [k] is a configured regex hostname [/body/.rest] covering the request
      host [h = label.rest]: its regex matches the left-most label *)
  Definition regex_host_for (S : astate) (h k : bytes) : Prop :=
    exists body, k = rkey body (tail_of h) /\ mem SLASH body = false /\ re_ok (anchored body) = true /\
                 re_match (anchored body) (label_of h) = true /\ s_tree S k <> [].

  (** the rule list consulted for [h]: its own hostname, else the wild-card
      hostname, else a covering regex hostname, else nothing *)
  Definition host_rules (S : astate) (h : bytes) (rules : leafv) : Prop :=
    match nonempty (s_tree S h) with
    | Some l => rules = l
    | None =>
      match nonempty (s_tree S (wild_of h)) with
      | Some l => rules = l
      | None => (exists k, regex_host_for S h k /\ rules = s_tree S k) \/
                (rules = [] /\ forall k, ~ regex_host_for S h k)
      end
    end.

  Definition a_lookup_rules (S : astate) (rules : leafv) (h path m : bytes) : option route :=
    match scan_flat re_match (s_pre S) h path m with
    | Some r => Some r
    | None =>
      match select_loop re_match rules path m (0, 0, 0)%nat None with
      | Some r => Some r
      | None => scan_flat re_match (s_post S) h path m
      end
    end.

  Lemma host_rules_unique S h r1 r2 :
    (forall k1 k2, regex_host_for S h k1 -> regex_host_for S h k2 -> k1 = k2) ->
    host_rules S h r1 -> host_rules S h r2 -> r1 = r2.
  Proof.
    unfold host_rules. intros U H1 H2.
    destruct (nonempty (s_tree S h)); [congruence|].
    destruct (nonempty (s_tree S (wild_of h))); [congruence|].
    destruct H1 as [(k1 & R1 & ->)|[-> N1]], H2 as [(k2 & R2 & ->)|[-> N2]]; auto.
    - rewrite (U k1 k2 R1 R2). reflexivity.
    - exfalso. apply (N2 k1 R1).
    - exfalso. apply (N1 k2 R2).
  Qed.

  Lemma ends_re_is_rkey k ss src :
    hostk k -> ksteps k = map lab ss ++ [KRe src true] ->
    exists body r, k = rkey body r /\ rkey_ok body r /\ re_ok (anchored body) = true /\
                   src = anchored body /\ ss = lsegs r.
  Proof.
    intros [G|(body & r & -> & [NS T] & OK)] E.
    - exfalso. rewrite (ksteps_good k G) in E. apply app_inj_tail in E. destruct E as [_ E].
      unfold last_step in E. destruct (beq (label_of k) [STAR]); discriminate.
    - rewrite ksteps_rkey in E by (split; assumption). apply app_inj_tail in E. destruct E as [E1 E2].
      inversion E2; subst. exists body, r. split; [reflexivity|]. split; [split; assumption|].
      split; [exact OK|]. split; [reflexivity|]. symmetry. apply (map_lab_inj _ _ E1).
  Qed.

  Lemma lookup_refines_r rt S h path m :
    refines_r re_ok rt S -> good_key h -> label_of h <> [STAR] ->
    exists rules, host_rules S h rules /\ route_lookup re_match rt h path m = a_lookup_rules S rules h path m.
  Proof.
    intros (E1 & E2 & W & I) G NS. destruct (good_key_parts h G) as [L T].
    assert (GW : good_key (wild_of h)) by (apply good_key_wild; exact T).
    pose proof (inv_at re_ok (tree rt) (s_tree S) h I (or_introl G)) as Ih.
    pose proof (inv_at re_ok (tree rt) (s_tree S) (wild_of h) I (or_introl GW)) as Iw.
    destruct (lookup_precedence leafv re_match (tree rt) h G NS W) as (R & EL & RS & RN).
    unfold route_lookup, a_lookup_rules, host_rules. rewrite E1, E2, EL, Ih, Iw.
    destruct (nonempty (s_tree S h)) as [l|]; cbn [option_map].
    - exists l. split; [reflexivity|]. reflexivity.
    - destruct (nonempty (s_tree S (wild_of h))) as [l|]; cbn [option_map].
      + exists l. split; reflexivity.
      + destruct R as [[k l]|].
        * destruct (RS (k, l) eq_refl) as (src & M & C).
          pose proof (I _ (canonr_steps _ _ (lsegs_tail_dotted _ T) (canonr_re src))) as Is. rewrite C in Is.
          destruct Is as (Gk & Ek & El & Nl).
          destruct (ends_re_is_rkey k _ src Gk Ek) as (body & r & -> & [NB Tr] & OK & -> & ER).
          assert (r = tail_of h).
          { rewrite <- (lsegs_concat r Tr), <- (lsegs_concat (tail_of h) T), ER. reflexivity. }
          subst r. exists l. split; [|reflexivity].
          left. exists (rkey body (tail_of h)). split; [|exact El].
          exists body. repeat split; auto. rewrite <- El. exact Nl.
        * exists []. split; [|reflexivity]. right. split; [reflexivity|].
          intros k (body & -> & NB & OK & M & NE). apply NE.
          pose proof (RN eq_refl body NB M) as C.
          assert (Gk : hostk (rkey body (tail_of h))).
          { right. exists body, (tail_of h). repeat split; auto. apply T. apply T. }
          pose proof (inv_at re_ok (tree rt) (s_tree S) _ I Gk) as Ik. rewrite C in Ik.
          unfold nonempty in Ik. destruct (s_tree S (rkey body (tail_of h))); [reflexivity|discriminate].
  Qed.

  Definition documented_choice_rules (S : astate) (rules : leafv) (h path m : bytes) (o : option route) : Prop :=
    match scan_flat re_match (s_pre S) h path m with
    | Some r => o = Some r
    | None =>
      exists ot, is_best re_match path m rules ot /\
                 match ot with
                 | Some r => o = Some r
                 | None => o = scan_flat re_match (s_post S) h path m
                 end
    end.

  Lemma a_lookup_rules_documented S rules h path m :
    documented_choice_rules S rules h path m (a_lookup_rules S rules h path m).
  Proof.
    unfold documented_choice_rules, a_lookup_rules. destruct (scan_flat re_match (s_pre S) h path m); [reflexivity|].
    exists (select_loop re_match rules path m (0, 0, 0)%nat None). split; [apply select_is_best|].
    destruct (select_loop re_match rules path m (0, 0, 0)%nat None); reflexivity.
  Qed.

  Lemma lookup_refines_spec_regex_lemma hist h path m :
    rplain_history re_ok hist -> good_key h -> label_of h <> [STAR] ->
    exists rules, host_rules (config re_ok hist) h rules /\
                  documented_choice_rules (config re_ok hist) rules h path m
                                          (route_lookup re_match (run re_ok re_match hist) h path m).
  Proof.
    intros P G NS.
    destruct (lookup_refines_r _ _ h path m (run_refines_r re_ok re_match hist P) G NS) as (rules & HR & E).
    exists rules. split; [exact HR|]. rewrite E. apply a_lookup_rules_documented.
  Qed.

  (** with at most one covering regex hostname, the route is a function of the
      configuration: two histories reaching the same configuration route alike *)
  Lemma route_determined_regex_lemma h1 h2 h path m :
    rplain_history re_ok h1 -> rplain_history re_ok h2 -> good_key h -> label_of h <> [STAR] ->
    s_pre (config re_ok h1) = s_pre (config re_ok h2) ->
    s_post (config re_ok h1) = s_post (config re_ok h2) ->
    (forall k, s_tree (config re_ok h1) k = s_tree (config re_ok h2) k) ->
    (forall k1 k2, regex_host_for (config re_ok h1) h k1 -> regex_host_for (config re_ok h1) h k2 -> k1 = k2) ->
    route_lookup re_match (run re_ok re_match h1) h path m = route_lookup re_match (run re_ok re_match h2) h path m.
  Proof.
    intros P1 P2 G NS Ep Eo ET U.
    destruct (lookup_refines_r _ _ h path m (run_refines_r re_ok re_match h1 P1) G NS) as (r1 & H1 & ->).
    destruct (lookup_refines_r _ _ h path m (run_refines_r re_ok re_match h2 P2) G NS) as (r2 & H2 & ->).
    assert (H2' : host_rules (config re_ok h1) h r2).
    { unfold host_rules, regex_host_for in *. rewrite !ET.
      destruct (nonempty (s_tree (config re_ok h2) h)); [exact H2|].
      destruct (nonempty (s_tree (config re_ok h2) (wild_of h))); [exact H2|].
      destruct H2 as [(k & (body & A & B & C & D & E) & F)|[A B]].
      - left. exists k. split; [exists body; rewrite ET; auto|rewrite ET; exact F].
      - right. split; [exact A|]. intros k (body & A1 & B1 & C1 & D1 & E1). apply (B k). exists body. rewrite <- ET. auto. }
    rewrite (host_rules_unique _ h r1 r2 U H1 H2'). unfold a_lookup_rules. rewrite Ep, Eo. reflexivity.
  Qed.

  Lemma regex_host_for_members S1 S2 h k :
    (forall k, same_members (s_tree S1 k) (s_tree S2 k)) -> regex_host_for S1 h k -> regex_host_for S2 h k.
  Proof.
    intros M (body & A & B & C & D & E). exists body. repeat split; auto.
    intros N. apply E. pose proof (same_members_nonempty _ _ (M k)) as X. rewrite N in X.
    destruct (s_tree S1 k); [reflexivity|discriminate].
  Qed.

  Lemma host_rules_members S1 S2 h r1 r2 :
    (forall k, same_members (s_tree S1 k) (s_tree S2 k)) ->
    (forall k1 k2, regex_host_for S1 h k1 -> regex_host_for S1 h k2 -> k1 = k2) ->
    host_rules S1 h r1 -> host_rules S2 h r2 -> same_members r1 r2.
  Proof.
    intros M U H1 H2. unfold host_rules, nonempty in *.
    assert (M' : forall k, same_members (s_tree S2 k) (s_tree S1 k)) by (intros k e; symmetry; apply M).
    rewrite <- (same_members_nonempty _ _ (M h)) in H2.
    destruct (is_nil (s_tree S1 h)); [|subst; apply M].
    rewrite <- (same_members_nonempty _ _ (M (wild_of h))) in H2.
    destruct (is_nil (s_tree S1 (wild_of h))); [|subst; apply M].
    destruct H1 as [(k1 & R1 & ->)|[-> N1]], H2 as [(k2 & R2 & ->)|[-> N2]].
    - rewrite (U k1 k2 R1 (regex_host_for_members S2 S1 h k2 M' R2)). apply M.
    - exfalso. apply (N2 k1). apply (regex_host_for_members S1 S2 h k1 M R1).
    - exfalso. apply (N1 k2). apply (regex_host_for_members S2 S1 h k2 M' R2).
    - intros e; tauto.
  Qed.

  (** order independence with regex hostnames, on membership: two histories
      whose configurations hold, per hostname, the same SET of rules route
      alike, when at most one configured regex hostname covers the request
      host and no two equally ranked rules tie *)
  Lemma order_independent_regex_lemma h1 h2 h path m :
    rplain_history re_ok h1 -> rplain_history re_ok h2 -> good_key h -> label_of h <> [STAR] ->
    s_pre (config re_ok h1) = s_pre (config re_ok h2) ->
    s_post (config re_ok h1) = s_post (config re_ok h2) ->
    (forall k, same_members (s_tree (config re_ok h1) k) (s_tree (config re_ok h2) k)) ->
    (forall k1 k2, regex_host_for (config re_ok h1) h k1 -> regex_host_for (config re_ok h1) h k2 -> k1 = k2) ->
    (forall rules, host_rules (config re_ok h1) h rules -> no_ties re_match path m rules) ->
    route_lookup re_match (run re_ok re_match h1) h path m = route_lookup re_match (run re_ok re_match h2) h path m.
  Proof.
    intros P1 P2 G NS Ep Eo M U NT.
    destruct (lookup_refines_r _ _ h path m (run_refines_r re_ok re_match h1 P1) G NS) as (r1 & H1 & ->).
    destruct (lookup_refines_r _ _ h path m (run_refines_r re_ok re_match h2 P2) G NS) as (r2 & H2 & ->).
    unfold a_lookup_rules. rewrite Ep, Eo.
    rewrite (select_order_independent re_match path m r1 r2); [reflexivity| |apply NT; exact H1].
    apply (host_rules_members _ _ h r1 r2 M U H1 H2).
  Qed.
End LookupR.
