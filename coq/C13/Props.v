(** C13 — property theorems (statements; proofs are in C13/Proofs.v).

    [edit_request c hs] is what [HttpContext::on_request_headers] makes of the
    header list [hs] (for every context [c] and every client header list);
    [valid_id_name (c_idname c) = true] says the correlation header name passes
    [validate_sozu_id_header] (command/src/state.rs): it is not the name of a field the
    proxy owns or interprets (the reserved list is compared with the source on every run); [ctx_clean c] is the alphabet of
    the [Display] oracle for addresses and of the ULID rendering. *)
From Coq Require Import List NArith Bool String.
From SV Require Import C13.Model C13.Proofs.
Import ListNotations.
Open Scope N_scope.

(** 1. Fidelity: every field the proxy does not own reaches the backend with its
    value, in the original order and multiplicity (list equality). *)
Theorem fidelity : forall c hs, valid_id_name (c_idname c) = true ->
  filter (not_owned c) (edit_request c hs) = filter (not_owned c) hs.
Proof. intros c hs H. apply valid_id_name_id_ok in H. exact (fidelity_l c H hs). Qed.

(** … and with a per-frontend request policy [r] (rewrite host / path, header inject /
    delete) applied on top: the backend sees the client's request plus the
    configured edits plus the proxy metadata — every field that neither the proxy
    owns nor the policy names arrives unchanged, in order, with its multiplicity;
    what the policy does is exactly [apply_rw] (deletions by name, then the
    configured insertions, X-Forwarded-Host when the host is rewritten; the Host
    line itself is the rewritten authority, never a second field). *)
Theorem fidelity_with_policy : forall c r orig hs, valid_id_name (c_idname c) = true ->
  filter (fun h => not_owned c h && negb (rw_touches r h)) (apply_rw r orig (edit_request c hs)) =
  filter (fun h => not_owned c h && negb (rw_touches r h)) hs.
Proof. intros c r orig hs H. apply valid_id_name_id_ok in H. exact (fidelity_with_policy_l c r orig hs H). Qed.

Theorem policy_leaves_unnamed_fields : forall r orig hs,
  filter (fun h => negb (rw_touches r h)) (apply_rw r orig hs) = filter (fun h => negb (rw_touches r h)) hs.
Proof. exact apply_rw_others. Qed.

Theorem policy_items_refine : forall r orig l,
  headers_of (apply_rw_items r orig l) = apply_rw r orig (headers_of l).
Proof. exact headers_of_apply_rw. Qed.

(** cookies: exactly the client's crumbs minus sozu's sticky one, in order *)
Theorem cookies_fidelity : forall c jar,
  edit_cookies c jar = filter (fun k => negb (beq (fst k) (c_sticky c))) jar /\
  (forall k, In k (edit_cookies c jar) -> beq (fst k) (c_sticky c) = false).
Proof. intros c jar. split; [apply cookies_l|apply cookies_no_sticky]. Qed.

(** client-supplied X-Forwarded-Proto / -Port are kept; the listener's are added only when absent *)
Theorem proto_port_when_absent : forall c hs, valid_id_name (c_idname c) = true ->
  filter (is_kind c KProto) (edit_request c hs) =
    filter (is_kind c KProto) hs ++ (if has c KProto hs then [] else [(n_xproto, proto c)]) /\
  filter (is_kind c KPort) (edit_request c hs) =
    filter (is_kind c KPort) hs ++ (if has c KPort hs then [] else [(n_xport, dec (snd (c_pub c)))]).
Proof. intros c hs H. apply valid_id_name_id_ok in H. split; [exact (proto_l c H hs)|exact (port_l c H hs)]. Qed.

(** 2. The whole client-attested X-Forwarded-For / Forwarded chain is kept; only
    the LAST header is extended, by exactly sozu's element; one is created when absent. *)
Theorem forwarding_chain : forall c hs peer, valid_id_name (c_idname c) = true -> c_peer c = Some peer ->
  filter (is_kind c KXff) (edit_request c hs) =
    append_last (is_kind c KXff) (xff_suffix peer) (filter (is_kind c KXff) hs) ++
    (if has c KXff hs then [] else [(n_xff, ip_text (fst peer))]) /\
  filter (is_kind c KFwd) (edit_request c hs) =
    append_last (is_kind c KFwd) (fwd_suffix c peer) (filter (is_kind c KFwd) hs) ++
    (if has c KFwd hs then [] else [(n_fwd, fwd_element c peer)]).
Proof.
  intros c hs peer H Hp. apply valid_id_name_id_ok in H. split.
  - rewrite (xff_l c H hs), Hp. reflexivity.
  - rewrite (fwd_l c H hs), Hp. reflexivity.
Qed.

(** … hence the last element of the last X-Forwarded-For is the peer, the last
    element of the last Forwarded is [proto=..;for="peer:port";by=public], and
    X-Real-IP is the peer (client copies gone when eliding). *)
Theorem xff_truthful : forall c hs peer, valid_id_name (c_idname c) = true -> c_peer c = Some peer ->
  (exists v, last_val (is_kind c KXff) (edit_request c hs) = Some v /\
             ends_with_elem v (ip_text (fst peer))) /\
  (exists v, last_val (is_kind c KFwd) (edit_request c hs) = Some v /\
             ends_with_elem v (fwd_element c peer)) /\
  filter is_xrip (edit_request c hs) =
    (if c_elide c then [] else filter is_xrip hs) ++
    (if c_send c then [(n_xrip, ip_text (fst peer))] else []).
Proof.
  intros c hs peer H Hp. apply valid_id_name_id_ok in H. split; [exact (last_xff c H hs peer Hp)|]. split; [exact (last_fwd c H hs peer Hp)|].
  rewrite (xrip_l c H hs), Hp. reflexivity.
Qed.

(** nothing sozu writes itself can end a field line, for every address *)
Theorem proxy_values_cannot_split_a_line : forall c hs, ctx_clean c ->
  forallb (fun h => clean (snd h)) (appended c hs) = true /\
  (forall peer, c_peer c = Some peer ->
     clean (xff_suffix peer) = true /\ clean (fwd_suffix c peer) = true).
Proof.
  intros c hs H. split; [apply appended_clean; exact H|].
  intros peer Hp. destruct H as (H1 & H2 & _). apply clean_suffixes; [apply H1; exact Hp|exact H2].
Qed.

(** 3. Exactly one correlation header (carrying the request id) and exactly one X-Request-Id. *)
Theorem exactly_one_id : forall c hs, valid_id_name (c_idname c) = true ->
  filter (is_kind c KId) (edit_request c hs) = [(c_idname c, c_id c)] /\
  List.length (filter (is_kind c KXrid) (edit_request c hs)) = 1%nat /\
  filter (is_kind c KXrid) (edit_request c hs) =
    firstn 1 (filter (is_kind c KXrid) hs) ++ (if has c KXrid hs then [] else [(n_xrid, c_id c)]).
Proof.
  intros c hs H. apply valid_id_name_id_ok in H. split; [exact (id_l c H hs)|]. split; [exact (one_request_id c H hs)|exact (xrid_l c H hs)].
Qed.

(** Connection: rewritten to close only when the session is closing *)
Theorem connection_header : forall c hs, valid_id_name (c_idname c) = true ->
  filter (is_kind c KConn) (edit_request c hs) =
    map (set_close c) (filter (is_kind c KConn) hs) ++
    (if negb (has c KConn hs) && c_closing c then [(n_Connection, v_close)] else []).
Proof. intros c hs H. apply valid_id_name_id_ok in H. exact (conn_l c H hs). Qed.

(** 4. Responses: the backend's fields in order (only a Connection value may be
    replaced by close, and only when closing) plus the documented additions. *)
Theorem response_additions_only : forall c found hs,
  edit_response c found hs = resp_pass c hs ++ resp_added c found /\
  map fst (resp_pass c hs) = map fst hs /\
  filter (fun h => negb (is_conn h)) (resp_pass c hs) = filter (fun h => negb (is_conn h)) hs /\
  (c_closing c = false -> resp_pass c hs = hs) /\
  (resp_added c found = [(c_idname c, c_id c)] \/
   exists s, c_sticky_session c = Some s /\ obeq (Some s) found = false /\
     resp_added c found =
       [(B "Set-Cookie", c_sticky c ++ [61] ++ s ++ B "; Path=/"); (c_idname c, c_id c)]).
Proof.
  intros c found hs. split; [reflexivity|]. split; [apply resp_names|]. split; [apply resp_not_conn|].
  split; [apply resp_no_closing|apply resp_added_cases].
Qed.

(** Per-frontend response edits (HSTS is the [SetIfAbsent] / [Set] edit of
    strict-transport-security): fields whose name no edit mentions are untouched, in
    order; a [SetIfAbsent] edit keeps the backend's own field and adds exactly one
    otherwise; a [Set] edit leaves exactly its own field of that name. *)
Theorem response_edits_only_named : forall es hs,
  filter (fun h => negb (existsb (fun e => named (e_key e) h) es)) (apply_edits es hs) =
  filter (fun h => negb (existsb (fun e => named (e_key e) h) es)) hs.
Proof. exact apply_edits_others. Qed.

Theorem hsts_set_if_absent : forall k v hs,
  apply_edits [mkedit MSetIfAbsent k v] hs = if existsb (named k) hs then hs else hs ++ [(k, v)].
Proof. exact apply_edits_set_if_absent. Qed.

Theorem hsts_set : forall k v hs,
  apply_edits [mkedit MSet k v] hs = filter (fun h => negb (named k h)) hs ++ [(k, v)].
Proof. exact apply_edits_set. Qed.

(** 5. Toward HTTP/2: no connection-specific field crosses, names are lower-case,
    values carry no control byte; what is kept is the input, in order. *)
Theorem h2_connection_specific_never_cross : forall hs x, In x (h2_filter hs) ->
  conn_specific (fst x) = false /\ forallb (fun b => negb (is_upper b)) (fst x) = true /\
  existsb bad_value_byte (snd x) = false.
Proof. exact h2_filter_safe. Qed.

Theorem h2_filter_fidelity : forall hs,
  h2_filter hs =
  map (fun h => (lower_name (fst h), snd h))
      (filter (fun h => negb (h2_skip h) && negb (existsb bad_name_byte (lower_name (fst h))) &&
                        negb (existsb bad_value_byte (snd h))) hs).
Proof. exact h2_filter_kept. Qed.

(** HTTP/2 trailers never carry the four attribution fields *)
Theorem h2_trailers_no_attribution : forall ts h, In h (trailers_h2 ts) -> trailer_elided h = false.
Proof.
  intros ts h H. unfold trailers_h2 in H. apply filter_In in H. destruct H as [_ H].
  destruct (trailer_elided h); [discriminate|reflexivity].
Qed.

(** Request trailers (both frontends) never carry a proxy-owned attribution field
    or the correlation header; every other trailer field is kept, in order. *)
Theorem trailers_cannot_spoof : forall c ts,
  (forall h, In h (edit_trailers c ts) -> trailer_owned c h = false) /\
  filter (fun h => negb (trailer_owned c h)) (edit_trailers c ts) = filter (fun h => negb (trailer_owned c h)) ts.
Proof.
  intros c ts. split.
  - intros h H. unfold edit_trailers in H. apply filter_In in H. destruct H as [_ H].
    destruct (trailer_owned c h); [discriminate|reflexivity].
  - unfold edit_trailers. induction ts as [|h t IH]; [reflexivity|]. cbn [filter].
    destruct (negb (trailer_owned c h)) eqn:E; cbn [filter]; rewrite ?E, IH; reflexivity.
Qed.

(** … and toward an HTTP/2 backend (HTTP/1.1 or HTTP/2 client): every field of the
    trailer block the H2 converter writes is the lower-cased copy of a client
    trailer field that is NOT proxy-owned (attribution names and the correlation
    header, in any case), is not connection-specific and has a lower-case name. *)
Theorem trailers_toward_h2_backend : forall c ts x, In x (h2_filter (edit_trailers c ts)) ->
  (exists h, In h ts /\ trailer_owned c h = false /\ x = (lower_name (fst h), snd h)) /\
  conn_specific (fst x) = false /\ forallb (fun b => negb (is_upper b)) (fst x) = true.
Proof.
  intros c ts x H. split.
  - rewrite h2_filter_fidelity in H. apply in_map_iff in H. destruct H as (h & Hx & Hin).
    apply filter_In in Hin. destruct Hin as [Hin _]. unfold edit_trailers in Hin. apply filter_In in Hin.
    destruct Hin as [Hin Ho]. exists h. repeat split; [exact Hin| |symmetry; exact Hx].
    destruct (trailer_owned c h); [discriminate Ho|reflexivity].
  - destruct (h2_connection_specific_never_cross _ x H) as (Hc & Hl & _). split; assumption.
Qed.

(** [:scheme] toward an HTTP/2 backend is the scheme of the listener the request
    arrived on — the same value as X-Forwarded-Proto / Forwarded's [proto=] when
    sozu writes them — whatever scheme the client claimed. *)
Theorem h2_scheme_is_the_listeners : forall c m p a s1 s2,
  h2_pseudo c m p a s1 = h2_pseudo c m p a s2 /\
  map snd (filter (named (B ":scheme")) (h2_pseudo c m p a s1)) = [proto c] /\
  map fst (h2_pseudo c m p a s1) = [B ":method"; B ":scheme"; B ":path"; B ":authority"].
Proof. intros. repeat split; destruct (c_https c); reflexivity. Qed.

(** Header fields toward an HTTP/2 peer, over any number of write passes and any
    way the fields of a group arrive (an HTTP/1.1 trailer section can come in
    several reads): the HPACK encoder has indexed exactly what the peer received
    (the two compression contexts stay in step), and no field is lost: what the
    peer received plus what is still queued is everything that was offered. *)
Theorem converter_keeps_hpack_in_step : forall ps s,
  c_tbl s = c_wire s -> c_tbl (fold_left conv_step ps s) = c_wire (fold_left conv_step ps s).
Proof.
  induction ps as [|p ps IH]; intros s H; [exact H|]. cbn [fold_left]. apply IH.
  unfold conv_step. destruct (snd p); cbn [c_tbl c_wire]; [rewrite H; reflexivity|exact H].
Qed.

Theorem converter_loses_no_field : forall ps s,
  c_wire (fold_left conv_step ps s) ++ c_q (fold_left conv_step ps s) =
  c_wire s ++ c_q s ++ flat_map fst ps.
Proof.
  induction ps as [|p ps IH]; intros s; cbn [fold_left flat_map]; [rewrite app_nil_r; reflexivity|].
  rewrite IH. unfold conv_step. destruct (snd p); cbn [c_wire c_q]; rewrite ?app_nil_l, ?app_assoc_reverse; reflexivity.
Qed.

(** the block-level function run by the correspondence check is [edit_request] on
    the header blocks, and the H1 serialiser writes those blocks in order *)
Theorem edit_items_is_edit_request : forall c l,
  headers_of (edit_items c l) = edit_request c (headers_of l).
Proof. exact edit_items_refines. Qed.

Theorem h1_serialiser_keeps_order : forall l b jar,
  filter (fun h => negb (beq (fst h) (B "Cookie"))) (ser_h1 l b jar) =
  filter (fun h => negb (beq (fst h) (B "Cookie"))) (headers_of l).
Proof. exact ser_h1_headers. Qed.

(* ------------------------------------------------------------------ *)
(** Non-vacuity: a concrete context satisfying the hypotheses, and an
    adversarial request on which every clause above says something. *)
Definition ex_ctx : ctx :=
  mkctx (Some (mkip true (B "2001:db8::1"), 54321)) (mkip false (B "127.0.0.1"), 8080) true
        (B "SERVERID") false true true (B "01ARZ3NDEKTSV4RRFFQ69G5FAV") (B "Sozu-Id") (Some (B "s1")).

Definition ex_req : list header :=
  [ (B "Accept", B "*/*"); (B "sozu-id", B "spoof"); (B "X-Forwarded-For", B "6.6.6.6, 2001:db8::1");
    (B "x-real-ip", B "6.6.6.6"); (B "X-Request-Id", B "r1"); (B "x-request-id", B "r2");
    (B "Accept", B "again"); (B "forwarded", B "for=6.6.6.6") ].

(** The frontend's request policy is applied ONCE to a request, however many
    backend connection attempts it takes (a refused backend, then another). *)
Lemma after_attempts_later n r a hs : after_attempts n false r a hs = hs.
Proof. induction n as [|k IH]; [reflexivity|]. cbn [after_attempts]. exact IH. Qed.

Theorem policy_applied_once_across_retries : forall n r a hs,
  after_attempts (S n) true r a hs = apply_rw r a hs.
Proof. intros n r a hs. cbn [after_attempts]. apply after_attempts_later. Qed.

(** what the unfixed router did (the policy applied per attempt): after one
    retry an appended header is on the request twice *)
Example trailers_toward_h2_nonvacuous :
  h2_filter (edit_trailers ex_ctx [(B "X-T", B "1"); (B "SOZU-ID", B "FORGED"); (B "X-Forwarded-For", B "6.6.6.6");
                                   (B "Connection", B "close"); (B "Grpc-Status", B "0")]) =
  [(B "x-t", B "1"); (B "grpc-status", B "0")].
Proof. vm_compute. reflexivity. Qed.

(** the unfixed converter on a trailer section in two reads: the first field is indexed
    but never sent; the next block's references are off by one entry at the peer *)
Example converter_unfixed_out_of_step :
  let ps := [([(B "x-t", B "6.6.6.6")], false); ([(B "x-t", B "0")], true)] in
  let u := fold_left conv_step_unfixed ps (mkc [] [] []) in
  let f := fold_left conv_step ps (mkc [] [] []) in
  c_tbl u = [(B "x-t", B "6.6.6.6"); (B "x-t", B "0")] /\ c_wire u = [(B "x-t", B "0")] /\
  c_tbl f = c_wire f /\ c_wire f = [(B "x-t", B "6.6.6.6"); (B "x-t", B "0")].
Proof. vm_compute. repeat split; reflexivity. Qed.

Example policy_per_attempt_duplicates :
  let r := mkrw None None [(B "X-Op", B "1")] in
  apply_rw r (B "x") (apply_rw r (B "x") [(B "Accept", B "a")]) =
    [(B "Accept", B "a"); (B "X-Op", B "1"); (B "X-Op", B "1")] /\
  after_attempts 2 true r (B "x") [(B "Accept", B "a")] = [(B "Accept", B "a"); (B "X-Op", B "1")].
Proof. vm_compute. split; reflexivity. Qed.

Example id_name_nonvacuous :
  valid_id_name (c_idname ex_ctx) = true /\ valid_id_name (B "X-Request-Id") = false /\ valid_id_name (B "HOST") = false.
Proof. vm_compute. repeat split; reflexivity. Qed.

Example ctx_clean_nonvacuous : ctx_clean ex_ctx.
Proof. split; [intros p H; injection H as <-; reflexivity|split; reflexivity]. Qed.

Example fidelity_nonvacuous :
  filter (not_owned ex_ctx) ex_req = [(B "Accept", B "*/*"); (B "Accept", B "again")] /\
  edit_request ex_ctx ex_req =
  [ (B "Accept", B "*/*"); (B "X-Forwarded-For", B "6.6.6.6, 2001:db8::1, 2001:db8::1");
    (B "X-Request-Id", B "r1"); (B "Accept", B "again");
    (B "forwarded", B "for=6.6.6.6, proto=https;for=""[2001:db8::1]:54321"";by=127.0.0.1");
    (B "X-Real-IP", B "2001:db8::1"); (B "X-Forwarded-Port", B "8080"); (B "X-Forwarded-Proto", B "https");
    (B "Sozu-Id", B "01ARZ3NDEKTSV4RRFFQ69G5FAV") ].
Proof. split; vm_compute; reflexivity. Qed.

Example policy_nonvacuous :
  apply_rw (mkrw (Some (B "new.example")) None [(B "X-A", []); (B "X-New", B "v"); (B "Host", B "op.example")]) (B "old.example")
           [(B "x-a", B "1"); (B "Accept", B "*/*"); (B "X-Forwarded-Host", B "spoof")] =
  [(B "Accept", B "*/*"); (B "X-Forwarded-Host", B "old.example"); (B "X-New", B "v")] /\
  rw_authority (mkrw (Some (B "new.example")) None [(B "Host", B "op.example")]) (B "old.example") = B "op.example".
Proof. vm_compute. split; reflexivity. Qed.

Example h2_filter_nonvacuous :
  h2_filter [ (B "Connection", B "x"); (B "TE", B "gzip"); (B "te", B "trailers"); (B "X-A", B "v");
              (B "Transfer-Encoding", B "chunked"); (B "Host", B "h") ] =
  [ (B "te", B "trailers"); (B "x-a", B "v") ].
Proof. vm_compute. reflexivity. Qed.

Example response_nonvacuous :
  edit_response ex_ctx None [(B "Server", B "b"); (B "Sozu-Id", B "backend")] =
  [ (B "Server", B "b"); (B "Sozu-Id", B "backend"); (B "Set-Cookie", B "SERVERID=s1; Path=/");
    (B "Sozu-Id", B "01ARZ3NDEKTSV4RRFFQ69G5FAV") ].
Proof. vm_compute. reflexivity. Qed.
