//! C17 black-box tier for the strict-SNI call site (`route_from_request` in
//! lib/src/protocol/mux/router.rs) and the https.rs listener glue: a real worker
//! with an HTTPS listener (strict_sni_binding on or off), certificates added
//! through the command channel, HTTPS frontends for every pool host pointing
//! at a *counting* backend.  Every `req` op is a real TLS handshake with an
//! SNI followed by one request (HTTP/1.1 or HTTP/2) whose Host / :authority is
//! the op's authority.
//!
//! Oracle (independent of the model): with strict binding on, a request whose
//! authority is not covered by the certificate served for the SNI (RFC 6125
//! reference below; legacy exact-SNI match when the default certificate was
//! served) must be answered 421 and must not reach the backend; a covered one
//! must not be answered 421; with strict binding off nothing is answered 421.
//!
//! ops:  listen <strict 0|1>
//!       add <pool idx> <ovn> <ove> <fp> <exp> <name>...      (as c17)
//!       req <sni> <proto 1|2> <authority>
//! obs:  ok | err | <status> <reached backend 0|1> | noanswer
#[path = "../h2bb.rs"]
mod h2bb;

use std::{
    collections::BTreeSet,
    io::{Read, Write},
    net::{SocketAddr, TcpListener, TcpStream},
    sync::{Arc, Mutex},
    time::{Duration, Instant},
};

use rustls::{pki_types::ServerName, ClientConfig};
use sozu_command_lib::proto::command::{
    request::RequestType, ActivateListener, AddBackend, AddCertificate, CertificateAndKey, Cluster, ListenerType,
    LoadBalancingParams, PathRule, RequestHttpFrontend, ResponseStatus, RulePosition, SocketAddress,
};
use sozu_lib::tls::CertificateResolver;
use verif_harness::*;

const POOL: usize = 10;
const FRONT_HOSTS: [&str; 7] = ["a.com", "www.a.com", "x.a.com", "*.a.com", "b.com", "*.b.com", "c.org"];

fn pool_dir() -> String {
    std::env::var("VERIF_CERTS").unwrap_or_else(|_| format!("{}/../corpus/certs/c17", env!("CARGO_MANIFEST_DIR")))
}
/// A port for this case's listener.  Sōzu binds its listeners with SO_REUSEPORT, so a port handed out by the kernel
/// (`bind(0)`, then closed) can be bound a second time by another worker of a concurrent black-box run, and the
/// kernel would then spread our connections over both.  Ports are therefore taken below the ephemeral range (no
/// `bind(0)` of anybody lands there), from a per-process sequence, and only when a plain bind succeeds (it fails
/// while any socket, SO_REUSEPORT or not, holds the port).
fn own_port() -> u16 {
    use std::sync::atomic::{AtomicU32, Ordering};
    static NEXT: AtomicU32 = AtomicU32::new(0);
    let pid = std::process::id();
    for _ in 0..2000 {
        let k = NEXT.fetch_add(1, Ordering::SeqCst);
        let port = 10000 + ((pid.wrapping_mul(131) + k.wrapping_mul(7)) % 20000) as u16;
        if let Ok(l) = std::net::TcpListener::bind(("127.0.0.1", port)) {
            drop(l);
            return port;
        }
    }
    h2bb::free_port()
}

fn s(b: &[u8]) -> String {
    String::from_utf8(b.to_vec()).expect("case strings are UTF-8")
}

fn roundtrip(w: &mut h2bb::WorkerHandle, r: RequestType) -> Option<bool> {
    w.send(r);
    let t0 = Instant::now();
    while t0.elapsed() < Duration::from_secs(10) {
        match w.channel.read_message() {
            Ok(resp) => {
                if resp.status == ResponseStatus::Processing as i32 {
                    continue;
                }
                return Some(resp.status == ResponseStatus::Ok as i32);
            }
            Err(_) => return None,
        }
    }
    None
}

/// records which requests reach it (every request carries its number in the path, `/r<n>`, so that a request
/// arriving late -- its client gave up under load -- is never taken for the next one); answers 200 "pong" and closes
fn counting_backend(listener: TcpListener, hits: Arc<Mutex<BTreeSet<usize>>>) {
    for st in listener.incoming() {
        let Ok(mut st) = st else { continue };
        let hits = hits.clone();
        std::thread::spawn(move || {
            let _ = st.set_read_timeout(Some(Duration::from_secs(5)));
            let mut acc: Vec<u8> = vec![];
            let mut buf = [0u8; 4096];
            loop {
                match st.read(&mut buf) {
                    Ok(0) | Err(_) => return,
                    Ok(n) => acc.extend_from_slice(&buf[..n]),
                }
                if acc.windows(4).any(|w| w == b"\r\n\r\n") {
                    let line = acc.split(|c| *c == b'\r').next().unwrap_or(&[]);
                    let n = std::str::from_utf8(line).ok().and_then(|l| l.split(' ').nth(1)).and_then(|p| p.strip_prefix("/r")).and_then(|x| x.parse::<usize>().ok());
                    hits.lock().unwrap().insert(n.unwrap_or(usize::MAX));
                    let _ = st.write_all(b"HTTP/1.1 200 OK\r\nContent-Length: 4\r\nConnection: close\r\n\r\npong");
                    return;
                }
            }
        });
    }
}

fn tls_connect(addr: SocketAddr, sni: &str, h2: bool) -> Result<h2bb::Tls, String> {
    let _ = rustls::crypto::ring::default_provider().install_default();
    let mut config = ClientConfig::builder().dangerous().with_custom_certificate_verifier(Arc::new(h2bb::Verifier)).with_no_client_auth();
    config.alpn_protocols = vec![if h2 { b"h2".to_vec() } else { b"http/1.1".to_vec() }];
    let sn = ServerName::try_from(sni.to_owned()).map_err(|e| format!("server name: {e}"))?;
    let mut conn = rustls::ClientConnection::new(Arc::new(config), sn).map_err(|e| e.to_string())?;
    let mut tcp = TcpStream::connect(addr).map_err(|e| e.to_string())?;
    tcp.set_read_timeout(Some(Duration::from_secs(5))).ok();
    tcp.set_write_timeout(Some(Duration::from_secs(5))).ok();
    while conn.is_handshaking() {
        conn.complete_io(&mut tcp).map_err(|e| format!("handshake: {e}"))?;
    }
    Ok(rustls::StreamOwned::new(conn, tcp))
}

fn h1_request(addr: SocketAddr, sni: &str, authority: &str, path: &str) -> Result<u16, String> {
    let mut tls = tls_connect(addr, sni, false)?;
    let req = format!("GET {path} HTTP/1.1\r\nHost: {authority}\r\nConnection: close\r\n\r\n");
    tls.write_all(req.as_bytes()).map_err(|e| e.to_string())?;
    let _ = tls.flush();
    let mut acc = vec![];
    let mut buf = [0u8; 4096];
    let t0 = Instant::now();
    while t0.elapsed() < Duration::from_secs(5) && !acc.windows(4).any(|w| w == b"\r\n\r\n") {
        match tls.read(&mut buf) {
            Ok(0) => break,
            Ok(n) => acc.extend_from_slice(&buf[..n]),
            Err(e) if e.kind() == std::io::ErrorKind::WouldBlock || e.kind() == std::io::ErrorKind::TimedOut => {}
            Err(_) => break,
        }
    }
    let text = String::from_utf8_lossy(&acc).to_string();
    text.split_whitespace().nth(1).and_then(|x| x.parse().ok()).ok_or_else(|| format!("no status line ({} bytes)", acc.len()))
}

fn h2_request(addr: SocketAddr, sni: &str, authority: &str, path: &str) -> Result<u16, String> {
    let tls = tls_connect(addr, sni, true)?;
    tls.sock.set_read_timeout(Some(Duration::from_millis(100))).ok();
    let mut p = h2bb::Peer { tls, acc: vec![], closed: false, early: vec![] };
    if !p.handshake(&[]) {
        return Err("h2 settings exchange failed".into());
    }
    // GET https <path> with literal :path (name index 4) and :authority (name index 1), never indexed
    let mut block = vec![0x82, 0x87, 0x04, path.len() as u8];
    block.extend_from_slice(path.as_bytes());
    block.extend_from_slice(&[0x01, authority.len() as u8]);
    block.extend_from_slice(authority.as_bytes());
    p.send(&h2bb::frame(h2bb::T_HEADERS, 0x5, 1, &block));
    let fr = p.read_until(Duration::from_secs(5), |f| f.iter().any(|x| (x.t == h2bb::T_HEADERS && x.sid == 1) || x.t == h2bb::T_GOAWAY || (x.t == h2bb::T_RST && x.sid == 1)));
    let all: Vec<&h2bb::Fr> = p.early.iter().chain(fr.iter()).collect();
    if let Some(h) = all.iter().find(|x| x.t == h2bb::T_HEADERS && x.sid == 1) {
        let mut dec = loona_hpack::Decoder::new();
        let mut status = None;
        let _ = dec.decode_with_cb(&h.payload, |k, v| {
            if &k[..] == b":status" {
                status = std::str::from_utf8(&v).ok().and_then(|x| x.parse::<u16>().ok());
            }
        });
        return status.ok_or_else(|| "no :status in the response".to_string());
    }
    Err("no response HEADERS (reset / goaway)".into())
}

/// RFC 6125 6.4.3 reference (same as the c17 driver's)
fn spec_covered(authority: &[u8], names: &[String]) -> bool {
    let mut host = authority;
    if let Some(p) = host.iter().rposition(|c| *c == b':') {
        let port = &host[p + 1..];
        if !port.is_empty() && port.iter().all(|c| c.is_ascii_digit()) {
            host = &host[..p];
        }
    }
    if host.last() == Some(&b'.') {
        host = &host[..host.len() - 1];
    }
    if host.is_empty() {
        return false;
    }
    names.iter().any(|e| {
        let e = e.as_bytes();
        if e.starts_with(b"*.") {
            let suffix = &e[2..];
            !suffix.contains(&b'*')
                && match host.iter().position(|c| *c == b'.') {
                    Some(p) => p > 0 && host[p + 1..].eq_ignore_ascii_case(suffix),
                    None => false,
                }
        } else {
            !e.contains(&b'*') && host.eq_ignore_ascii_case(e)
        }
    })
}

fn run_with(pool: &[(String, String)], case: &Case, out: &mut Out) {
    let strict = case.ops.first().filter(|o| o.name == "listen").map(|o| o.args[0].n() == 1).unwrap_or(true);
    let mut w = h2bb::start_worker();
    let front: SocketAddr = format!("127.0.0.1:{}", own_port()).parse().unwrap();
    let fa: SocketAddress = front.into();
    let back_listener = TcpListener::bind("127.0.0.1:0").unwrap();
    let back = back_listener.local_addr().unwrap();
    let hits: Arc<Mutex<BTreeSet<usize>>> = Arc::new(Mutex::new(BTreeSet::new()));
    let mut reqno = 0usize;
    {
        let hits = hits.clone();
        std::thread::spawn(move || counting_backend(back_listener, hits));
    }
    let mut listener = h2bb::https_listener_config(front);
    listener.strict_sni_binding = Some(strict);
    let mut ok = roundtrip(&mut w, RequestType::AddHttpsListener(listener)) == Some(true)
        && roundtrip(&mut w, RequestType::ActivateListener(ActivateListener { address: fa.clone(), proxy: ListenerType::Https.into(), from_scm: false })) == Some(true)
        && roundtrip(&mut w, RequestType::AddCluster(Cluster { cluster_id: "c0".into(), ..Default::default() })) == Some(true)
        && roundtrip(
            &mut w,
            RequestType::AddBackend(AddBackend { cluster_id: "c0".into(), backend_id: "c0-0".into(), address: back.into(), load_balancing_parameters: Some(LoadBalancingParams::default()), sticky_id: None, backup: None }),
        ) == Some(true);
    for h in FRONT_HOSTS {
        ok = ok
            && roundtrip(
                &mut w,
                RequestType::AddHttpsFrontend(RequestHttpFrontend { cluster_id: Some("c0".into()), address: fa.clone(), hostname: h.into(), path: PathRule::prefix("/".to_string()), position: RulePosition::Tree.into(), ..Default::default() }),
            ) == Some(true);
    }
    if !ok {
        out.note("invalid-case: the worker did not accept the listener / cluster / frontends");
        return;
    }
    let mut shadow = CertificateResolver::default();
    for op in &case.ops {
        let a = &op.args;
        match op.name.as_str() {
            "listen" => out.obs(&[]),
            "add" => {
                let (idx, ovn, ove, exp) = (a[0].n(), a[1].n() == 1, a[2].n() == 1, a[4].n());
                let names: Vec<String> = a[5..].iter().map(|t| s(t.b())).collect();
                let (pem, key) = pool[idx as usize].clone();
                let add = AddCertificate {
                    address: fa.clone(),
                    certificate: CertificateAndKey { certificate: pem, certificate_chain: vec![], key, versions: vec![], names: if ovn { names } else { vec![] } },
                    expired_at: if ove { Some(exp as i64) } else { None },
                };
                let _ = shadow.add_certificate(&add);
                let got = roundtrip(&mut w, RequestType::AddCertificate(add));
                out.obs(&[ts(if got == Some(true) { "ok" } else { "err" })]);
            }
            "req" => {
                let (sni, h2, authority) = (s(a[0].b()), a[1].n() == 2, s(a[2].b()));
                reqno += 1;
                let path = format!("/r{reqno}");
                let r = if h2 { h2_request(front, &sni, &authority, &path) } else { h1_request(front, &sni, &authority, &path) };
                // the backend thread counts before it answers; give a straggler a moment only when nothing answered
                if r.is_err() {
                    std::thread::sleep(Duration::from_millis(50));
                }
                let reached = hits.lock().unwrap().contains(&reqno);
                // the SAN snapshot the session keeps (https.rs upgrade_handshake): lower-cased, trailing dot stripped
                let snapshot: Option<Vec<String>> = shadow.names_for_sni(sni.as_bytes()).and_then(|ns| {
                    let mut v: Vec<String> = ns.into_iter().map(|mut n| { n.make_ascii_lowercase(); if n.ends_with('.') { n.pop(); } n }).collect();
                    v.sort();
                    v.dedup();
                    if v.is_empty() { None } else { Some(v) }
                });
                let covered = match &snapshot {
                    Some(names) => spec_covered(authority.as_bytes(), names),
                    // default certificate served: legacy exact match of the host part with the SNI
                    None => {
                        let mut host = authority.as_bytes();
                        if let Some(p) = host.iter().rposition(|c| *c == b':') {
                            let port = &host[p + 1..];
                            if !port.is_empty() && port.iter().all(|c| c.is_ascii_digit()) {
                                host = &host[..p];
                            }
                        }
                        host.eq_ignore_ascii_case(sni.as_bytes())
                    }
                };
                match r {
                    Ok(status) => {
                        out.obs(&[tn(status), tbool(reached)]);
                        let what = format!("strict={} sni={sni} proto=h{} authority={authority} served={:?}", strict as u8, if h2 { 2 } else { 1 }, snapshot);
                        if strict && !covered && (status != 421 || reached) {
                            out.viol("not-covered-routed", &format!("{what}: answered {status}, backend reached: {reached} (expected 421 and no backend)"));
                        }
                        if (covered || !strict) && status == 421 {
                            out.viol("covered-rejected", &format!("{what}: answered 421"));
                        }
                        if status == 200 && !reached || status != 200 && reached {
                            out.viol("backend-count", &format!("{what}: status {status} but backend reached: {reached}"));
                        }
                    }
                    Err(e) => {
                        out.obs(&[ts("noanswer")]);
                        if reached && strict && !covered {
                            out.viol("not-covered-routed", &format!("sni={sni} authority={authority}: no answer ({e}) but the backend was reached"));
                        }
                        out.note(&format!("no answer for sni={sni} authority={authority}: {e}"));
                    }
                }
            }
            other => panic!("unknown op {other}"),
        }
    }
    w.send(RequestType::HardStop(sozu_command_lib::proto::command::HardStop {}));
    let t0 = Instant::now();
    while w.alive() && t0.elapsed() < Duration::from_secs(5) {
        std::thread::sleep(Duration::from_millis(10));
    }
}

fn main() {
    let d = pool_dir();
    let pool: Vec<(String, String)> = (0..POOL)
        .map(|i| (std::fs::read_to_string(format!("{d}/c{i}.pem")).expect("pool cert"), std::fs::read_to_string(format!("{d}/k{i}.pem")).expect("pool key")))
        .collect();
    drive(move |c, o| run_with(&pool, c, o));
}
