(** Trie lemmas for hostnames whose LEFT-MOST segment is a regex
    ([/body/.rest], e.g. [/x[0-9]+/.example.com]) next to plain (exact and
    wild-card) hostnames.  Extends [SV.Common.TrieProofs]: the invariant [wfr]
    allows, at every node, regex entries that are value-bearing leaves with
    pairwise distinct sources.

    Results: exact walk ([cgetr]) after insert / remove for regex keys (same
    key, other keys, pruning keeps the invariant), and the precedence of
    [lookup]: exact hostname, else the wild-card hostname, else a regex
    hostname of the same parent whose regex matches the left-most label — the
    first such in registration order, i.e. THE one when at most one matches.

    Hostnames with a regex segment that is not the left-most one
    ([w./re/.example.com]) are outside these lemmas (modelled in
    [SV.Common.Trie], checked by the correspondence runs only). *)
From Coq Require Import List Arith NArith Bool Lia.
From SV Require Import Common.Trie Common.TrieProofs.
Import ListNotations.

Lemma aget_none_notin {A} k (l : list (bytes * A)) : aget k l = None -> ~ In k (map fst l).
Proof.
  induction l as [|[k' a] l IH]; cbn [aget map fst]; [intros _ []|].
  destruct (beq k k') eqn:E; [discriminate|]. intros H [H1|H1]; [subst; rewrite beq_refl in E; discriminate|].
  apply IH; assumption.
Qed.

Lemma aget_in_nodup {A} k (a : A) l : NoDup (map fst l) -> In (k, a) l -> aget k l = Some a.
Proof.
  induction l as [|[k' a'] l IH]; cbn [map fst aget]; intros ND H; [destruct H|].
  inversion ND as [|? ? NI ND']; subst. destruct H as [H|H].
  - inversion H; subst. rewrite beq_refl. reflexivity.
  - destruct (beq k k') eqn:E; [|apply IH; assumption].
    apply beq_eq in E; subst k'. exfalso. apply NI. apply in_map_iff. exists (k, a). auto.
Qed.

Lemma map_fst_adel {A} k (l : list (bytes * A)) x : In x (map fst (adel k l)) -> In x (map fst l) /\ x <> k.
Proof.
  induction l as [|[k' a] l IH]; cbn [adel map fst]; [intros []|].
  destruct (beq k k') eqn:E.
  - intros H. destruct (IH H). split; [right|]; assumption.
  - cbn [map fst]. intros [H|H].
    + subst. split; [left; reflexivity|]. intros ->. rewrite beq_refl in E. discriminate.
    + destruct (IH H). split; [right|]; assumption.
Qed.

Lemma NoDup_adel {A} k (l : list (bytes * A)) : NoDup (map fst l) -> NoDup (map fst (adel k l)).
Proof.
  induction l as [|[k' a] l IH]; cbn [adel map fst]; intros ND; [constructor|].
  inversion ND as [|? ? NI ND']; subst. destruct (beq k k'); [apply IH; exact ND'|].
  cbn [map fst]. constructor; [|apply IH; exact ND'].
  intros H. apply map_fst_adel in H. apply NI, H.
Qed.

Lemma map_fst_aset {A} k (a : A) l : map fst (aset k a l) = map fst l.
Proof.
  induction l as [|[k' a'] l IH]; cbn [aset map fst]; [reflexivity|].
  destruct (beq k k'); cbn [map fst]; [reflexivity|]. f_equal; exact IH.
Qed.

Section WalkR.
  Variable V : Type.
  Variable re_ok : bytes -> bool.
  Variable re_match : bytes -> bytes -> bool.
  Notation trie := (trie V).

  Definition is_rleaf (p : bytes * trie) : Prop := exists k v, snd p = leaf k v /\ mem SLASH k = true.

  Inductive wfr : trie -> Prop :=
  | wfr_node kv w ch rx :
      aget [STAR] ch = None ->
      Forall (fun p => dotted (fst p) = true -> wfr (snd p)) ch ->
      Forall (fun p => dotted (fst p) = false -> exists k v, snd p = leaf k v) ch ->
      Forall is_rleaf rx ->
      NoDup (map fst rx) ->
      wfr (Node kv w ch rx).

  Lemma wfr_root : wfr root.
  Proof. constructor; try constructor; reflexivity. Qed.

  (** canonical step lists: dotted labels, then a final "*", dot-free label or
      left-most regex *)
  Inductive canonr : list kstep -> Prop :=
  | canonr_star : canonr [KStar]
  | canonr_leaf l : dotted l = false -> l <> [STAR] -> canonr [KLab l true]
  | canonr_re src : canonr [KRe src true]
  | canonr_cons s rest : dotted s = true -> canonr rest -> canonr (KLab s false :: rest).

  Fixpoint cgetr (t : trie) (steps : list kstep) : option (bytes * V) :=
    match steps with
    | [] => t_kv t
    | KStar :: _ => t_wild t
    | KLab s _ :: rest => match aget s (t_children t) with Some c => cgetr c rest | None => None end
    | KRe src _ :: rest => match aget src (t_regexps t) with Some c => cgetr c rest | None => None end
    | KBad :: _ => None
    end.

  Lemma wfr_child_dotted kv w ch rx s c :
    wfr (Node kv w ch rx) -> aget s ch = Some c -> dotted s = true -> wfr c.
  Proof.
    intros W G D. inversion W as [? ? ? ? _ F1 _ _ _]; subst. apply aget_In in G.
    rewrite Forall_forall in F1. apply (F1 (s, c) G D).
  Qed.
  Lemma wfr_child_leaf kv w ch rx s c :
    wfr (Node kv w ch rx) -> aget s ch = Some c -> dotted s = false -> exists k v, c = leaf k v.
  Proof.
    intros W G D. inversion W as [? ? ? ? _ _ F2 _ _]; subst. apply aget_In in G.
    rewrite Forall_forall in F2. apply (F2 (s, c) G D).
  Qed.
  Lemma wfr_rx_leaf kv w ch rx src c :
    wfr (Node kv w ch rx) -> aget src rx = Some c -> exists k v, c = leaf k v /\ mem SLASH k = true.
  Proof.
    intros W G. inversion W as [? ? ? ? _ _ _ F3 _]; subst. apply aget_In in G.
    rewrite Forall_forall in F3. apply (F3 (src, c) G).
  Qed.

  Lemma cgetr_root steps : canonr steps -> cgetr root steps = None.
  Proof. intros C; inversion C; reflexivity. Qed.

  Lemma cgetr_empty t steps : t_is_empty t = true -> canonr steps -> cgetr t steps = None.
  Proof.
    destruct t as [kv w ch rx]. unfold t_is_empty; cbn [t_kv t_wild t_children t_regexps].
    intros E C. apply andb_true_iff in E. destruct E as [E E4]. apply andb_true_iff in E. destruct E as [E E3].
    apply andb_true_iff in E. destruct E as [E1 E2].
    destruct ch; [|discriminate]. destruct rx; [|discriminate]. destruct w; [discriminate|].
    inversion C; reflexivity.
  Qed.

  (** *** insert *)
  Lemma cgetr_insert_same steps : canonr steps -> forall t key v t',
      insert_w re_ok t steps key v = (t', IOk) -> cgetr t' steps = Some (key, v).
  Proof.
    induction 1 as [|l D NS|src|s rest D C IH]; intros [kv w ch rx] key v t' H; cbn [insert_w] in H.
    - destruct (is_some (aget [STAR] ch)); [discriminate|]. destruct (is_some w); [discriminate|].
      inversion H; subst. reflexivity.
    - destruct (aget l ch) eqn:G; cbn [is_some] in H; [discriminate|]. inversion H; subst.
      cbn [cgetr t_children]. rewrite aget_app, G. cbn [aget]. rewrite beq_refl. reflexivity.
    - destruct (aget src rx) as [sub|] eqn:G.
      + destruct (is_some (t_kv sub)); [discriminate|]. inversion H; subst.
        cbn [cgetr t_regexps]. rewrite aget_aset_same by congruence. reflexivity.
      + destruct (re_ok src); [|discriminate]. inversion H; subst.
        cbn [cgetr t_regexps]. rewrite aget_app, G. cbn [aget]. rewrite beq_refl. reflexivity.
    - destruct (aget s ch) as [c|] eqn:G.
      + destruct (insert_w re_ok c rest key v) as [c' r] eqn:EI. inversion H; subst.
        cbn [cgetr t_children]. rewrite aget_aset_same by congruence. eapply IH; eauto.
      + destruct (insert_w re_ok root rest key v) as [c' r] eqn:EI.
        destruct r; cbn [ires_ok] in H; try discriminate. inversion H; subst.
        cbn [cgetr t_children]. rewrite aget_app, G. cbn [aget]. rewrite beq_refl. eapply IH; eauto.
  Qed.

  Lemma cgetr_insert_other steps : canonr steps -> forall steps' t key v,
      canonr steps' -> wfr t -> steps <> steps' ->
      cgetr (fst (insert_w re_ok t steps key v)) steps' = cgetr t steps'.
  Proof.
    induction 1 as [|l D NS|src|s rest D C IH]; intros steps' [kv w ch rx] key v C' W NE; cbn [insert_w].
    - destruct (is_some (aget [STAR] ch)); [reflexivity|]. destruct (is_some w); [reflexivity|]. cbn [fst].
      inversion C'; subst; try congruence; reflexivity.
    - destruct (aget l ch) eqn:G; cbn [is_some fst]; [reflexivity|].
      inversion C' as [|l' D' NS'|src'|s' rest' D' C'']; subst; cbn [cgetr t_children t_wild t_regexps]; try reflexivity.
      + rewrite aget_app. destruct (aget l' ch); [reflexivity|]. cbn [aget].
        destruct (beq l' l) eqn:E; [apply beq_eq in E; congruence|reflexivity].
      + rewrite aget_app. destruct (aget s' ch); [reflexivity|]. cbn [aget].
        destruct (beq s' l) eqn:E; [apply beq_eq in E; congruence|reflexivity].
    - destruct (aget src rx) as [sub|] eqn:G.
      + destruct (is_some (t_kv sub)); cbn [fst]; [reflexivity|].
        inversion C' as [|l' D' NS'|src'|s' rest' D' C'']; subst; cbn [cgetr t_children t_wild t_regexps]; try reflexivity.
        rewrite aget_aset_other by congruence. reflexivity.
      + destruct (re_ok src); cbn [fst]; [|reflexivity].
        inversion C' as [|l' D' NS'|src'|s' rest' D' C'']; subst; cbn [cgetr t_children t_wild t_regexps]; try reflexivity.
        rewrite aget_app. destruct (aget src' rx); [reflexivity|]. cbn [aget].
        destruct (beq src' src) eqn:E; [apply beq_eq in E; congruence|reflexivity].
    - destruct (aget s ch) as [c|] eqn:G.
      + pose proof (wfr_child_dotted _ _ _ _ _ _ W G D) as Wc.
        destruct (insert_w re_ok c rest key v) as [c' r] eqn:EI. cbn [fst].
        inversion C' as [|l' D' NS'|src'|s' rest' D' C'']; subst; cbn [cgetr t_children t_wild t_regexps]; try reflexivity.
        * rewrite aget_aset_other by (intros ->; congruence). reflexivity.
        * destruct (beq s' s) eqn:Es.
          -- apply beq_eq in Es; subst s'. rewrite aget_aset_same by congruence. rewrite G.
             specialize (IH rest' c key v C'' Wc ltac:(congruence)). rewrite EI in IH. exact IH.
          -- apply beq_neq in Es. rewrite aget_aset_other by exact Es. reflexivity.
      + destruct (insert_w re_ok root rest key v) as [c' r] eqn:EI.
        destruct (ires_ok r); cbn [fst]; [|reflexivity].
        inversion C' as [|l' D' NS'|src'|s' rest' D' C'']; subst; cbn [cgetr t_children t_wild t_regexps]; try reflexivity.
        * rewrite aget_app. destruct (aget l' ch); [reflexivity|]. cbn [aget].
          destruct (beq l' s) eqn:E; [apply beq_eq in E; congruence|reflexivity].
        * rewrite aget_app. destruct (aget s' ch) eqn:G'; [reflexivity|]. cbn [aget].
          destruct (beq s' s) eqn:Es; [|reflexivity].
          apply beq_eq in Es; subst s'.
          specialize (IH rest' root key v C'' wfr_root ltac:(congruence)). rewrite EI in IH. cbn [fst] in IH.
          rewrite IH. apply cgetr_root. exact C''.
  Qed.

  (** the regex of a final regex step compiles *)
  Definition steps_ok (steps : list kstep) : Prop := forall src b, In (KRe src b) steps -> re_ok src = true.

  Lemma insert_ok_if_absent_r steps : canonr steps -> forall t key v,
      wfr t -> steps_ok steps -> cgetr t steps = None -> snd (insert_w re_ok t steps key v) = IOk.
  Proof.
    induction 1 as [|l D NS|src|s rest D C IH]; intros [kv w ch rx] key v W OK G0; cbn [insert_w];
      inversion W as [? ? ? ? A1 F1 F2 F3 ND]; subst.
    - rewrite A1. cbn [is_some]. cbn [cgetr t_wild] in G0. subst w. reflexivity.
    - cbn [cgetr t_children] in G0. destruct (aget l ch) as [c|] eqn:G; cbn [is_some]; [|reflexivity].
      destruct (wfr_child_leaf _ _ _ _ _ _ W G D) as (k & v' & ->). discriminate.
    - cbn [cgetr t_regexps] in G0. destruct (aget src rx) as [c|] eqn:G.
      + destruct (wfr_rx_leaf _ _ _ _ _ _ W G) as (k & v' & -> & _). discriminate.
      + rewrite (OK src true (or_introl eq_refl)). reflexivity.
    - cbn [cgetr t_children] in G0.
      assert (OK' : steps_ok rest) by (intros x b Hx; apply (OK x b); right; exact Hx).
      destruct (aget s ch) as [c|] eqn:G.
      + specialize (IH c key v (wfr_child_dotted _ _ _ _ _ _ W G D) OK' G0).
        destruct (insert_w re_ok c rest key v) as [c' r]. exact IH.
      + specialize (IH root key v wfr_root OK' (cgetr_root _ C)).
        destruct (insert_w re_ok root rest key v) as [c' r]. cbn [snd] in IH. subst r. reflexivity.
  Qed.

  (** a key stored under a final regex step contains a '/' *)
  Definition key_fits (steps : list kstep) (key : bytes) : Prop :=
    forall src b, In (KRe src b) steps -> mem SLASH key = true.

  Lemma wfr_insert steps : canonr steps -> forall t key v,
      wfr t -> key_fits steps key -> wfr (fst (insert_w re_ok t steps key v)).
  Proof.
    induction 1 as [|l D NS|src|s rest D C IH]; intros [kv w ch rx] key v W KF; cbn [insert_w];
      inversion W as [? ? ? ? A1 F1 F2 F3 ND]; subst.
    - destruct (is_some (aget [STAR] ch)); [exact W|]. destruct (is_some w); [exact W|]. cbn [fst].
      constructor; assumption.
    - destruct (aget l ch) eqn:G; cbn [is_some fst]; [exact W|]. constructor; auto.
      + rewrite aget_app, A1. cbn [aget]. destruct (beq [STAR] l) eqn:E; [apply beq_eq in E; congruence|reflexivity].
      + apply Forall_app; split; [exact F1|]. constructor; [|constructor]. cbn [fst snd]. congruence.
      + apply Forall_app; split; [exact F2|]. constructor; [|constructor]. cbn [fst snd]. intros _. eauto.
    - destruct (aget src rx) as [sub|] eqn:G.
      + destruct (wfr_rx_leaf _ _ _ _ _ _ W G) as (k & v' & -> & _). cbn [leaf t_kv is_some fst]. exact W.
      + destruct (re_ok src); cbn [fst]; [|exact W]. constructor; auto.
        * apply Forall_app; split; [exact F3|]. constructor; [|constructor].
          exists key, v. split; [reflexivity|]. apply (KF src true). left; reflexivity.
        * rewrite map_app. cbn [map fst].
          assert (NI : ~ In src (map fst rx)) by (apply aget_none_notin; exact G).
          clear - ND NI. induction rx as [|[k a] rx IH]; cbn [map fst app] in *; [constructor; [intros []|constructor]|].
          inversion ND as [|? ? N1 N2]; subst. constructor.
          -- intros H. apply in_app_or in H. destruct H as [H|[H|[]]]; [contradiction|]. apply NI; left; auto.
          -- apply IH; [exact N2|]. intros H; apply NI; right; exact H.
    - assert (KF' : key_fits rest key) by (intros x b Hx; apply (KF x b); right; exact Hx).
      destruct (aget s ch) as [c|] eqn:G.
      + specialize (IH c key v (wfr_child_dotted _ _ _ _ _ _ W G D) KF').
        destruct (insert_w re_ok c rest key v) as [c' r]. cbn [fst] in *. constructor; auto.
        * rewrite aget_aset_other by (intros E; rewrite <- E in D; discriminate). exact A1.
        * apply Forall_aset_key; [exact F1|]. cbn [fst snd]. intros _. exact IH.
        * apply Forall_aset_key; [exact F2|]. cbn [fst snd]. congruence.
      + specialize (IH root key v wfr_root KF').
        destruct (insert_w re_ok root rest key v) as [c' r]. cbn [fst] in IH.
        destruct (ires_ok r); cbn [fst]; [|exact W]. constructor; auto.
        * rewrite aget_app, A1. cbn [aget].
          destruct (beq [STAR] s) eqn:E; [apply beq_eq in E; subst s; discriminate|reflexivity].
        * apply Forall_app; split; [exact F1|]. constructor; [|constructor]. cbn [fst snd]. intros _. exact IH.
        * apply Forall_app; split; [exact F2|]. constructor; [|constructor]. cbn [fst snd]. congruence.
  Qed.

  (** *** remove *)
  (** removing a left-most regex key = deleting its (leaf) entry *)
  Lemma rx_remove_leaf src rx :
    Forall is_rleaf rx ->
    let '(rx', b) := rx_remove V (fun sub => clear_kv V sub) src rx in
    rx_prune V src rx' = adel src rx /\ b = is_some (aget src rx) /\ (b = false -> rx' = rx).
  Proof.
    induction 1 as [|[s sub] rx (k & v & E & _) F IH]; cbn [rx_remove]; [auto|].
    cbn [snd] in E. subst sub.
    destruct (rx_remove V (fun sub => clear_kv V sub) src rx) as [r' b] eqn:ER.
    destruct IH as (I1 & I2 & I3).
    destruct (beq s src) eqn:Es.
    - cbn [clear_kv leaf is_some]. unfold rx_prune in *. cbn [filter fst snd].
      rewrite Es. cbn [negb orb t_is_empty t_kv t_wild t_regexps t_children is_some negb andb is_nil].
      cbn [adel aget]. rewrite beq_sym, Es. cbn [is_some orb]. split; [exact I1|]. split; [reflexivity|discriminate].
    - unfold rx_prune in *. cbn [filter fst snd]. rewrite Es. cbn [negb orb].
      cbn [adel aget]. rewrite beq_sym, Es. split; [f_equal; exact I1|]. split; [exact I2|].
      intros Hb. rewrite (I3 Hb). reflexivity.
  Qed.

  Lemma remove_w_re kv w ch rx src :
    Forall is_rleaf rx ->
    remove_w (Node kv w ch rx : trie) [KRe src true] =
    if is_some (aget src rx) then (Node kv w ch (adel src rx), true) else (Node kv w ch rx, false).
  Proof.
    intros F. cbn [remove_w]. pose proof (rx_remove_leaf src rx F) as R.
    change (fun sub : trie => if true then clear_kv V sub else remove_w sub [])
      with (fun sub : trie => clear_kv V sub).
    destruct (rx_remove V (fun sub => clear_kv V sub) src rx) as [rx' b]. destruct R as (R1 & R2 & R3).
    subst b. destruct (is_some (aget src rx)); [rewrite R1|]; reflexivity.
  Qed.

  Lemma remove_r_false_unchanged steps : canonr steps -> forall t : trie,
      wfr t -> snd (remove_w t steps) = false -> fst (remove_w t steps) = t.
  Proof.
    induction 1 as [|l D NS|src|s rest D C IH]; intros [kv w ch rx] W.
    - rewrite remove_w_star. destruct (is_some w); cbn [snd fst]; [discriminate|reflexivity].
    - rewrite remove_w_lab. destruct (aget l ch) as [c|]; [|reflexivity].
      destruct (remove_w c []) as [c' b]. destruct b; [|reflexivity].
      destruct (t_is_empty c'); cbn [snd]; discriminate.
    - inversion W; subst. rewrite remove_w_re by assumption.
      destruct (is_some (aget src rx)); cbn [snd fst]; [discriminate|reflexivity].
    - rewrite remove_w_lab. destruct (aget s ch) as [c|]; [|reflexivity].
      destruct (remove_w c rest) as [c' b]. destruct b; [|reflexivity].
      destruct (t_is_empty c'); cbn [snd]; discriminate.
  Qed.

  Lemma cgetr_remove_same steps : canonr steps -> forall t,
      wfr t -> cgetr (fst (remove_w t steps)) steps = None.
  Proof.
    induction 1 as [|l D NS|src|s rest D C IH]; intros [kv w ch rx] W.
    - rewrite remove_w_star. destruct (is_some w) eqn:E; cbn [fst cgetr t_wild]; [reflexivity|].
      destruct w; [discriminate|reflexivity].
    - rewrite remove_w_lab. destruct (aget l ch) as [c|] eqn:G; [|cbn [fst cgetr t_children]; rewrite G; reflexivity].
      destruct (wfr_child_leaf _ _ _ _ _ _ W G D) as (k & v & ->).
      cbn [remove_w leaf is_some t_is_empty t_kv t_wild t_regexps t_children negb andb is_nil fst].
      cbn [cgetr t_children]. rewrite aget_adel_same. reflexivity.
    - inversion W; subst. rewrite remove_w_re by assumption.
      destruct (is_some (aget src rx)) eqn:E; cbn [fst cgetr t_regexps].
      + rewrite aget_adel_same. reflexivity.
      + destruct (aget src rx); [discriminate|reflexivity].
    - rewrite remove_w_lab. destruct (aget s ch) as [c|] eqn:G; [|cbn [fst cgetr t_children]; rewrite G; reflexivity].
      pose proof (wfr_child_dotted _ _ _ _ _ _ W G D) as Wc. specialize (IH c Wc).
      pose proof (remove_r_false_unchanged rest C c Wc) as RU.
      destruct (remove_w c rest) as [c' b]. cbn [fst snd] in *. destruct b.
      + destruct (t_is_empty c'); cbn [fst cgetr t_children].
        * rewrite aget_adel_same. reflexivity.
        * rewrite aget_aset_same by congruence. exact IH.
      + cbn [fst cgetr t_children]. rewrite G. rewrite RU in IH by reflexivity. exact IH.
  Qed.

  Lemma cgetr_remove_other steps : canonr steps -> forall steps' t,
      canonr steps' -> wfr t -> steps <> steps' ->
      cgetr (fst (remove_w t steps)) steps' = cgetr t steps'.
  Proof.
    induction 1 as [|l D NS|src|s rest D C IH]; intros steps' [kv w ch rx] C' W NE.
    - rewrite remove_w_star. destruct (is_some w); cbn [fst]; [|reflexivity].
      inversion C'; subst; try congruence; reflexivity.
    - rewrite remove_w_lab. destruct (aget l ch) as [c|] eqn:G; [|reflexivity].
      destruct (wfr_child_leaf _ _ _ _ _ _ W G D) as (k & v & ->).
      cbn [remove_w leaf is_some t_is_empty t_kv t_wild t_regexps t_children negb andb is_nil fst].
      inversion C' as [|l' D' NS'|src'|s' rest' D' C'']; subst; cbn [cgetr t_children t_wild t_regexps]; try reflexivity.
      + rewrite aget_adel_other by congruence. reflexivity.
      + rewrite aget_adel_other by (intros ->; congruence). reflexivity.
    - inversion W; subst. rewrite remove_w_re by assumption.
      destruct (is_some (aget src rx)); cbn [fst]; [|reflexivity].
      inversion C' as [|l' D' NS'|src'|s' rest' D' C'']; subst; cbn [cgetr t_children t_wild t_regexps]; try reflexivity.
      rewrite aget_adel_other by congruence. reflexivity.
    - rewrite remove_w_lab. destruct (aget s ch) as [c|] eqn:G; [|reflexivity].
      pose proof (wfr_child_dotted _ _ _ _ _ _ W G D) as Wc.
      destruct (remove_w c rest) as [c' b] eqn:ER. destruct b; [|reflexivity].
      inversion C' as [|l' D' NS'|src'|s' rest' D' C'']; subst.
      + destruct (t_is_empty c'); reflexivity.
      + destruct (t_is_empty c'); cbn [fst cgetr t_children].
        * rewrite aget_adel_other by (intros ->; congruence). reflexivity.
        * rewrite aget_aset_other by (intros ->; congruence). reflexivity.
      + destruct (t_is_empty c'); reflexivity.
      + destruct (beq s' s) eqn:Es.
        * apply beq_eq in Es; subst s'.
          specialize (IH rest' c C'' Wc ltac:(congruence)). rewrite ER in IH. cbn [fst] in IH.
          destruct (t_is_empty c') eqn:EE; cbn [fst cgetr t_children].
          -- rewrite aget_adel_same, G. rewrite <- IH. symmetry. apply cgetr_empty; assumption.
          -- rewrite aget_aset_same by congruence. rewrite G. exact IH.
        * apply beq_neq in Es. destruct (t_is_empty c'); cbn [fst cgetr t_children].
          -- rewrite aget_adel_other by exact Es. reflexivity.
          -- rewrite aget_aset_other by exact Es. reflexivity.
  Qed.

  Lemma wfr_remove steps : canonr steps -> forall t, wfr t -> wfr (fst (remove_w t steps)).
  Proof.
    induction 1 as [|l D NS|src|s rest D C IH]; intros [kv w ch rx] W;
      inversion W as [? ? ? ? A1 F1 F2 F3 ND]; subst.
    - rewrite remove_w_star. destruct (is_some w); cbn [fst]; [constructor; assumption|exact W].
    - rewrite remove_w_lab. destruct (aget l ch) as [c|] eqn:G; [|exact W].
      destruct (wfr_child_leaf _ _ _ _ _ _ W G D) as (k & v & ->).
      cbn [remove_w leaf is_some t_is_empty t_kv t_wild t_regexps t_children negb andb is_nil fst].
      constructor; auto; [rewrite aget_adel_other by congruence; exact A1|apply Forall_adel; exact F1|apply Forall_adel; exact F2].
    - rewrite remove_w_re by assumption. destruct (is_some (aget src rx)); cbn [fst]; [|exact W].
      constructor; auto; [apply Forall_adel; exact F3|apply NoDup_adel; exact ND].
    - rewrite remove_w_lab. destruct (aget s ch) as [c|] eqn:G; [|exact W].
      specialize (IH c (wfr_child_dotted _ _ _ _ _ _ W G D)).
      destruct (remove_w c rest) as [c' b]. cbn [fst] in IH. destruct b; [|exact W].
      assert (SN : [STAR] <> s) by (intros E; rewrite <- E in D; discriminate).
      destruct (t_is_empty c'); cbn [fst]; constructor; auto.
      + rewrite aget_adel_other by exact SN. exact A1.
      + apply Forall_adel; exact F1.
      + apply Forall_adel; exact F2.
      + rewrite aget_aset_other by exact SN. exact A1.
      + apply Forall_aset_key; [exact F1|]. cbn [fst snd]. intros _. exact IH.
      + apply Forall_aset_key; [exact F2|]. cbn [fst snd]. congruence.
  Qed.

  (** *** lookup: exact, else wild-card, else the first matching regex *)
  Fixpoint node_at (t : trie) (ss : list bytes) : option trie :=
    match ss with
    | [] => Some t
    | s :: r => match aget s (t_children t) with Some c => node_at c r | None => None end
    end.

  Definition rx_hit (n : trie) (l : bytes) : option (bytes * V) :=
    match find (fun p : bytes * trie => re_match (fst p) l) (t_regexps n) with
    | Some (_, sub) => t_kv sub
    | None => None
    end.

  Lemma cgetr_node_at ss : forall t n fin, node_at t ss = Some n -> cgetr t (map lab ss ++ [fin]) = cgetr n [fin].
  Proof.
    induction ss as [|s ss IH]; intros [kv w ch rx] n fin H; cbn [node_at map app] in *.
    - inversion H; reflexivity.
    - cbn [t_children] in H. cbn [lab cgetr t_children]. destruct (aget s ch) as [c|]; [|discriminate]. apply IH; exact H.
  Qed.
  Lemma cgetr_node_none ss : forall t fin, node_at t ss = None -> cgetr t (map lab ss ++ [fin]) = None.
  Proof.
    induction ss as [|s ss IH]; intros [kv w ch rx] fin H; cbn [node_at map app] in *; [discriminate|].
    cbn [t_children] in H. cbn [lab cgetr t_children]. destruct (aget s ch) as [c|]; [|reflexivity]. apply IH; exact H.
  Qed.

  Lemma seg_body_dotless l : dotted l = false -> seg_body l = l.
  Proof. destruct l as [|c l]; cbn [dotted seg_body]; [reflexivity|]. intros ->. reflexivity. Qed.

  (** regex entries are leaves: they yield nothing for a longer name *)
  Lemma leaf_lookup_nonempty k v s rest aw : lookup_w re_match (leaf k v : trie) (s :: rest) aw = None.
  Proof. cbn [lookup_w leaf t_children t_wild t_regexps aget is_some andb]. rewrite andb_false_r. reflexivity. Qed.

  Lemma lookup_w_r ss : forall t l,
      wfr t -> Forall (fun s => dotted s = true) ss -> dotted l = false -> l <> [STAR] ->
      lookup_w re_match t (ss ++ [l]) true =
      match cgetr t (map lab ss ++ [KLab l true]) with
      | Some x => Some x
      | None =>
        match cgetr t (map lab ss ++ [KStar]) with
        | Some x => Some x
        | None => match node_at t ss with Some n => rx_hit n l | None => None end
        end
      end.
  Proof.
    induction ss as [|s ss IH]; intros [kv w ch rx] l W F D NS;
      inversion W as [? ? ? ? A1 F1 F2 F3 ND]; subst.
    - cbn [app map lookup_w cgetr t_children t_wild t_regexps node_at].
      destruct (aget l ch) as [c|] eqn:G.
      + destruct (wfr_child_leaf _ _ _ _ _ _ W G D) as (k & v & ->). reflexivity.
      + cbn [is_nil andb]. destruct w as [kvw|]; cbn [is_some andb]; [reflexivity|].
        unfold rx_hit. cbn [t_regexps]. rewrite (seg_body_dotless l D).
        clear - F3. induction F3 as [|[src sub] rx (k & v & E & _) F IH]; cbn [find fst]; [reflexivity|].
        cbn [snd] in E. subst sub. destruct (re_match src l); [reflexivity|exact IH].
    - inversion F as [|? ? Ds Fs]; subst.
      cbn [app map lookup_w cgetr t_children t_wild t_regexps lab node_at].
      assert (is_nil (ss ++ [l]) = false) as EN by (destruct ss; reflexivity). rewrite EN. cbn [andb].
      assert (RX : (fix try_rx (rx0 : list (bytes * trie)) : option (bytes * V) :=
                      match rx0 with
                      | [] => None
                      | (src, sub) :: r =>
                        if re_match src (seg_body s)
                        then match lookup_w re_match sub (ss ++ [l]) true with Some x => Some x | None => try_rx r end
                        else try_rx r
                      end) rx = None).
      { clear - F3. induction F3 as [|[src sub] rx (k & v & E & _) F IH]; [reflexivity|].
        cbn [snd] in E. subst sub. destruct (re_match src (seg_body s)); [|exact IH].
        destruct (ss ++ [l]) as [|a b] eqn:EL; [destruct ss; discriminate|].
        rewrite leaf_lookup_nonempty. exact IH. }
      destruct (aget s ch) as [c|] eqn:G.
      + rewrite (IH c l (wfr_child_dotted _ _ _ _ _ _ W G Ds) Fs D NS).
        destruct (cgetr c (map lab ss ++ [KLab l true])); [reflexivity|].
        destruct (cgetr c (map lab ss ++ [KStar])); [reflexivity|].
        destruct (match node_at c ss with Some n => rx_hit n l | None => None end); [reflexivity|exact RX].
      + exact RX.
  Qed.

  Lemma rx_hit_some n l x :
    wfr n -> rx_hit n l = Some x -> exists src, re_match src l = true /\ cgetr n [KRe src true] = Some x.
  Proof.
    destruct n as [kv w ch rx]. intros W H. inversion W as [? ? ? ? _ _ _ _ ND]; subst.
    unfold rx_hit in H. cbn [t_regexps] in H.
    destruct (find (fun p : bytes * trie => re_match (fst p) l) rx) as [[src sub]|] eqn:EF; [|discriminate].
    apply find_some in EF. destruct EF as [I M]. cbn [fst] in M. exists src. split; [exact M|].
    cbn [cgetr t_regexps]. rewrite (aget_in_nodup src sub rx ND I). exact H.
  Qed.

  Lemma rx_hit_none n l src :
    wfr n -> rx_hit n l = None -> re_match src l = true -> cgetr n [KRe src true] = None.
  Proof.
    destruct n as [kv w ch rx]. intros W H M. cbn [cgetr t_regexps].
    destruct (aget src rx) as [sub|] eqn:G; [|reflexivity].
    destruct (wfr_rx_leaf _ _ _ _ _ _ W G) as (k & v & -> & _). exfalso.
    unfold rx_hit in H. cbn [t_regexps] in H.
    destruct (find (fun p : bytes * trie => re_match (fst p) l) rx) as [[src' sub']|] eqn:EF.
    - apply find_some in EF. destruct EF as [I _]. apply aget_In in G.
      inversion W as [? ? ? ? _ _ _ F3 _]; subst. rewrite Forall_forall in F3.
      destruct (F3 _ I) as (k' & v' & E & _). cbn [snd] in E. subst sub'. discriminate.
    - apply aget_In in G. pose proof (find_none _ _ EF _ G) as Hn. cbn [fst] in Hn. congruence.
  Qed.

  Lemma wfr_node_at ss : forall t n, wfr t -> Forall (fun s => dotted s = true) ss -> node_at t ss = Some n -> wfr n.
  Proof.
    induction ss as [|s ss IH]; intros [kv w ch rx] n W F H; cbn [node_at t_children] in H.
    - inversion H; subst; exact W.
    - inversion F as [|? ? Ds Fs]; subst. destruct (aget s ch) as [c|] eqn:G; [|discriminate].
      apply (IH c n); [eapply wfr_child_dotted; eauto|exact Fs|exact H].
  Qed.

  (** The precedence of [lookup] at the level of step lists.  [R] is what the
      regex hostnames contribute. *)
  Lemma lookup_w_precedence ss t l :
    wfr t -> Forall (fun s => dotted s = true) ss -> dotted l = false -> l <> [STAR] ->
    exists R,
      lookup_w re_match t (ss ++ [l]) true =
      match cgetr t (map lab ss ++ [KLab l true]) with
      | Some x => Some x
      | None => match cgetr t (map lab ss ++ [KStar]) with Some x => Some x | None => R end
      end /\
      (forall x, R = Some x -> exists src, re_match src l = true /\ cgetr t (map lab ss ++ [KRe src true]) = Some x) /\
      (R = None -> forall src, re_match src l = true -> cgetr t (map lab ss ++ [KRe src true]) = None).
  Proof.
    intros W F D NS. exists (match node_at t ss with Some n => rx_hit n l | None => None end).
    split; [apply lookup_w_r; assumption|].
    destruct (node_at t ss) as [n|] eqn:EN.
    - pose proof (wfr_node_at ss t n W F EN) as Wn. split.
      + intros x H. destruct (rx_hit_some n l x Wn H) as (src & M & C). exists src. split; [exact M|].
        rewrite (cgetr_node_at ss t n _ EN). exact C.
      + intros H src M. rewrite (cgetr_node_at ss t n _ EN). apply (rx_hit_none n l src Wn H M).
    - split; [discriminate|]. intros _ src _. apply cgetr_node_none; exact EN.
  Qed.
End WalkR.

(** ** keys with a left-most regex segment *)
Definition rkey (body r : bytes) : bytes := SLASH :: body ++ SLASH :: r.
Definition rkey_ok (body r : bytes) : Prop := mem SLASH body = false /\ tail_ok r.

Lemma last_app_ne (a b : bytes) d : b <> [] -> last (a ++ b) d = last b d.
Proof.
  intros NE. induction a as [|x a IH]; [reflexivity|]. cbn [app].
  assert (N : a ++ b <> []) by (destruct a; cbn [app]; [exact NE|discriminate]).
  destruct (a ++ b) as [|n l] eqn:E; [congruence|].
  change (last (n :: l) d = last b d). exact IH.
Qed.

Lemma removelast_snoc (a : bytes) x : removelast (a ++ [x]) = a.
Proof. rewrite removelast_app by discriminate. cbn. apply app_nil_r. Qed.

Lemma ksteps_unfold_dot pk :
  pk <> [] -> last_byte pk <> SLASH -> beq pk [STAR] = false ->
  ksteps pk = match split_last DOT pk with None => [KLab pk true] | Some (p, s) => lab s :: ksteps p end.
Proof.
  intros NE NL NS. destruct pk as [|c pk']; [congruence|].
  unfold ksteps at 1. rewrite ksteps_f_S. rewrite NS.
  assert (N.eqb (last_byte (c :: pk')) SLASH = false) as -> by (apply N.eqb_neq; exact NL).
  destruct (split_last DOT (c :: pk')) as [[p s]|] eqn:E; [|reflexivity].
  unfold lab. f_equal. pose proof (split_last_app _ _ _ _ E) as Hl. destruct (split_last_some _ _ _ _ E) as (r & -> & _).
  assert (length (c :: pk') = length p + S (length r))%nat by (rewrite Hl, app_length; reflexivity).
  unfold ksteps. apply ksteps_f_fuel; cbn [length] in *; lia.
Qed.

Lemma ksteps_rbase body : mem SLASH body = false -> ksteps (SLASH :: body ++ [SLASH]) = [KRe (anchored body) true].
Proof.
  intros NS. unfold ksteps. rewrite ksteps_f_S.
  change (beq (SLASH :: body ++ [SLASH]) [STAR]) with false. cbv iota.
  assert (last_byte (SLASH :: body ++ [SLASH]) = SLASH) as ->.
  { unfold last_byte. change (SLASH :: body ++ [SLASH]) with ((SLASH :: body) ++ [SLASH]). apply last_last. }
  rewrite N.eqb_refl.
  change (SLASH :: body ++ [SLASH]) with ((SLASH :: body) ++ [SLASH]). rewrite removelast_snoc.
  cbn [split_last]. replace (split_last SLASH body) with (@None (bytes * bytes)) by (symmetry; apply split_last_none; exact NS).
  rewrite N.eqb_refl. cbn [is_nil negb andb tl]. reflexivity.
Qed.

Lemma ksteps_rkey body r :
  rkey_ok body r -> ksteps (rkey body r) = map lab (lsegs r) ++ [KRe (anchored body) true].
Proof.
  intros [NS T]. revert r T. unfold rkey. apply tail_ind.
  - cbn [lsegs map app]. rewrite lsegs_nil. cbn [map app]. apply ksteps_rbase; exact NS.
  - intros p s r H Es Hr T2 T IH.
    set (x := SLASH :: body ++ [SLASH]).
    assert (EX : SLASH :: body ++ SLASH :: p ++ s = x ++ p ++ s).
    { unfold x. cbn [app]. f_equal. rewrite <- app_assoc. reflexivity. }
    assert (EX' : SLASH :: body ++ SLASH :: p = x ++ p).
    { unfold x. cbn [app]. f_equal. rewrite <- app_assoc. reflexivity. }
    rewrite EX. rewrite EX' in IH.
    rewrite ksteps_unfold_dot.
    + rewrite (split_last_app_l DOT x _ _ _ H).
      rewrite (lsegs_unfold (p ++ s)) by (subst s; destruct p; discriminate). rewrite H.
      cbn [map app]. f_equal. exact IH.
    + unfold x. discriminate.
    + unfold last_byte. rewrite app_assoc, last_app_ne by (subst s; discriminate).
      subst s. intros E. pose proof (last_byte_mem (DOT :: r) ltac:(discriminate)) as M. unfold last_byte in M.
      rewrite E in M. destruct T2 as [_ T2]. rewrite mem_app in T2. apply orb_false_iff in T2. destruct T2 as [_ T2].
      congruence.
    + unfold x. reflexivity.
Qed.

Section KeysR.
  Variable V : Type.
  Variable re_ok : bytes -> bool.
  Variable re_match : bytes -> bytes -> bool.
  Notation trie := (trie V).
  Notation wfr := (wfr V).
  Notation cgetr := (cgetr V).

  (** a storable hostname: plain, or left-most regex whose regex compiles *)
  Definition good_rkey (k : bytes) : Prop :=
    exists body r, k = rkey body r /\ rkey_ok body r /\ re_ok (anchored body) = true.
  Definition host_key (k : bytes) : Prop := good_key k \/ good_rkey k.

  (** exact walk for a key *)
  Definition cgetk (t : trie) (k : bytes) : option (bytes * V) := cgetr t (ksteps k).

  Lemma canon_canonr steps : canon steps -> canonr steps.
  Proof. induction 1; constructor; assumption. Qed.

  Lemma canonr_steps ss fin :
    Forall (fun s => dotted s = true) ss -> canonr [fin] -> canonr (map lab ss ++ [fin]).
  Proof. intros F C. induction F as [|s ss D F IH]; cbn [map app]; [exact C|]. constructor; assumption. Qed.

  Lemma host_key_canonr k : host_key k -> canonr (ksteps k).
  Proof.
    intros [G|(body & r & -> & [NS T] & OK)].
    - apply canon_canonr, canon_good; exact G.
    - rewrite ksteps_rkey by (split; assumption).
      apply canonr_steps; [apply lsegs_tail_dotted; exact T|constructor].
  Qed.

  Lemma host_key_steps_ok k : host_key k -> steps_ok re_ok (ksteps k).
  Proof.
    intros [G|(body & r & -> & [NS T] & OK)] src b H.
    - exfalso. rewrite (ksteps_good k G) in H. apply in_app_or in H. destruct H as [H|[H|[]]].
      + apply in_map_iff in H. destruct H as (x & E & _). discriminate.
      + unfold last_step in H. destruct (beq (label_of k) [STAR]); discriminate.
    - rewrite ksteps_rkey in H by (split; assumption). apply in_app_or in H. destruct H as [H|[H|[]]].
      + apply in_map_iff in H. destruct H as (x & E & _). discriminate.
      + inversion H; subst. exact OK.
  Qed.

  Lemma host_key_fits k : host_key k -> key_fits (ksteps k) k.
  Proof.
    intros [G|(body & r & -> & [NS T] & OK)] src b H.
    - exfalso. rewrite (ksteps_good k G) in H. apply in_app_or in H. destruct H as [H|[H|[]]].
      + apply in_map_iff in H. destruct H as (x & E & _). discriminate.
      + unfold last_step in H. destruct (beq (label_of k) [STAR]); discriminate.
    - unfold rkey. cbn [mem]. rewrite N.eqb_refl. reflexivity.
  Qed.

  Lemma anchored_inj a b : anchored a = anchored b -> a = b.
  Proof.
    unfold anchored. cbn [app]. intros H. inversion H as [H1]. apply app_inv_tail in H1. exact H1.
  Qed.

  Lemma map_lab_inj a b : map lab a = map lab b -> a = b.
  Proof.
    revert b; induction a as [|x a IH]; destruct b as [|y b]; cbn [map]; intros H; try discriminate; auto.
    inversion H; subst. f_equal; auto.
  Qed.

  Lemma host_key_steps_inj k k' : host_key k -> host_key k' -> ksteps k = ksteps k' -> k = k'.
  Proof.
    intros [G|(body & r & -> & [NS T] & OK)] [G'|(body' & r' & -> & [NS' T'] & OK')] E.
    - apply ksteps_inj; assumption.
    - exfalso. rewrite (ksteps_good k G), ksteps_rkey in E by (split; assumption).
      apply app_inj_tail in E. destruct E as [_ E]. unfold last_step in E. destruct (beq (label_of k) [STAR]); discriminate.
    - exfalso. rewrite (ksteps_good k' G'), ksteps_rkey in E by (split; assumption).
      apply app_inj_tail in E. destruct E as [_ E]. unfold last_step in E. destruct (beq (label_of k') [STAR]); discriminate.
    - rewrite !ksteps_rkey in E by (split; assumption). apply app_inj_tail in E. destruct E as [E1 E2].
      apply map_lab_inj in E1. assert (E3 : anchored body = anchored body') by congruence.
      apply anchored_inj in E3. subst body'.
      rewrite <- (lsegs_concat r T), <- (lsegs_concat r' T'), E1. reflexivity.
  Qed.

  Lemma insert_unfold_r (t : trie) k (v : V) :
    host_key k ->
    insert re_ok t k v = match insert_w re_ok t (ksteps k) k v with (t', IFailed) => (t, IFailed) | r => r end.
  Proof.
    intros [G|(body & r & -> & _)]; [apply (insert_unfold V); exact G|].
    unfold insert, rkey. cbn [is_nil]. reflexivity.
  Qed.

  Lemma fst_insert_r (t : trie) k (v : V) :
    host_key k -> fst (insert re_ok t k v) = fst (insert_w re_ok t (ksteps k) k v) \/ fst (insert re_ok t k v) = t.
  Proof.
    intros G. rewrite insert_unfold_r by exact G.
    destruct (insert_w re_ok t (ksteps k) k v) as [t1 r]. destruct r; cbn [fst]; auto.
  Qed.

  (** lookup after insert *)
  Lemma cgetk_insert_same (t : trie) k (v : V) t' :
    host_key k -> insert re_ok t k v = (t', IOk) -> cgetk t' k = Some (k, v).
  Proof.
    intros G H. rewrite insert_unfold_r in H by exact G.
    destruct (insert_w re_ok t (ksteps k) k v) as [t1 r] eqn:E. destruct r; inversion H; subst.
    eapply cgetr_insert_same; [apply host_key_canonr; exact G|exact E].
  Qed.

  Lemma wfr_insert_k (t : trie) k (v : V) : host_key k -> wfr t -> wfr (fst (insert re_ok t k v)).
  Proof.
    intros G W. destruct (fst_insert_r t k v G) as [-> | ->]; [|exact W].
    apply wfr_insert; [apply host_key_canonr; exact G|exact W|apply host_key_fits; exact G].
  Qed.

  (** other keys unaffected *)
  Lemma cgetk_insert_other (t : trie) k k' (v : V) :
    host_key k -> host_key k' -> k <> k' -> wfr t -> cgetk (fst (insert re_ok t k v)) k' = cgetk t k'.
  Proof.
    intros G G' NE W. unfold cgetk. destruct (fst_insert_r t k v G) as [-> | ->]; [|reflexivity].
    apply cgetr_insert_other; auto using host_key_canonr. intros E. apply NE. apply host_key_steps_inj; assumption.
  Qed.

  (** an absent key can be inserted *)
  Lemma insert_ok_absent_r (t : trie) k (v : V) : host_key k -> wfr t -> cgetk t k = None -> snd (insert re_ok t k v) = IOk.
  Proof.
    intros G W H. rewrite insert_unfold_r by exact G.
    pose proof (insert_ok_if_absent_r V re_ok (ksteps k) (host_key_canonr k G) t k v W (host_key_steps_ok k G) H) as S.
    destruct (insert_w re_ok t (ksteps k) k v) as [t1 r]. cbn [snd] in S. subst r. reflexivity.
  Qed.

  (** remove undoes insert; pruning keeps the invariant *)
  Lemma cgetk_remove_same (t : trie) k : host_key k -> wfr t -> cgetk (fst (remove t k)) k = None.
  Proof. intros G W. apply cgetr_remove_same; [apply host_key_canonr; exact G|exact W]. Qed.
  Lemma wfr_remove_k (t : trie) k : host_key k -> wfr t -> wfr (fst (remove t k)).
  Proof. intros G W. apply wfr_remove; [apply host_key_canonr; exact G|exact W]. Qed.
  Lemma cgetk_remove_other (t : trie) k k' :
    host_key k -> host_key k' -> k <> k' -> wfr t -> cgetk (fst (remove t k)) k' = cgetk t k'.
  Proof.
    intros G G' NE W. apply cgetr_remove_other; auto using host_key_canonr.
    intros E. apply NE. apply host_key_steps_inj; assumption.
  Qed.

  (** precedence of [lookup] for a plain request host [h]: its own hostname,
      else the wild-card hostname [*.rest], else a regex hostname [/re/.rest]
      whose regex matches the left-most label of [h]: the first registered
      one, hence THE one when at most one matches *)
  Lemma lookup_precedence (t : trie) h :
    good_key h -> label_of h <> [STAR] -> wfr t ->
    exists R,
      lookup re_match t h true =
      match cgetk t h with
      | Some x => Some x
      | None => match cgetk t (wild_of h) with Some x => Some x | None => R end
      end /\
      (forall x, R = Some x ->
                 exists src, re_match src (label_of h) = true /\
                             cgetr t (map lab (lsegs (tail_of h)) ++ [KRe src true]) = Some x) /\
      (R = None -> forall body, mem SLASH body = false -> re_match (anchored body) (label_of h) = true ->
                                cgetk t (rkey body (tail_of h)) = None).
  Proof.
    intros G NS W. destruct (good_key_parts h G) as [L T].
    assert (D : dotted (label_of h) = false).
    { destruct L as (NE & ND & _). destruct (label_of h) as [|c x]; [congruence|].
      cbn [dotted mem] in *. apply orb_false_iff in ND. apply ND. }
    destruct (lookup_w_precedence V re_match (lsegs (tail_of h)) t (label_of h) W (lsegs_tail_dotted _ T) D NS)
      as (R & E & RS & RN).
    exists R. split; [|split].
    - unfold lookup. rewrite (label_tail h) at 1. rewrite lsegs_label_tail by assumption. rewrite E.
      unfold cgetk. rewrite (ksteps_good h G). unfold last_step at 1.
      assert (beq (label_of h) [STAR] = false) as -> by (apply beq_neq; exact NS).
      assert (EW : ksteps (wild_of h) = map lab (lsegs (tail_of h)) ++ [KStar]).
      { unfold wild_of. change (STAR :: tail_of h) with ([STAR] ++ tail_of h).
        rewrite ksteps_label_tail; [reflexivity| |exact T]. split; [discriminate|]. split; reflexivity. }
      rewrite EW. reflexivity.
    - intros x H. apply (RS x H).
    - intros H body NB M. unfold cgetk. rewrite ksteps_rkey by (split; assumption). apply (RN H _ M).
  Qed.
End KeysR.

(** ** [lookup_mut] / in-place modification with regex leaves present *)
Section AccessR.
  Variable V : Type.
  Variable re_ok : bytes -> bool.
  Variable re_match : bytes -> bytes -> bool.
  Notation trie := (trie V).
  Notation wfr := (wfr V).
  Notation cgetr := (cgetr V).

  (** a regex leaf holds nothing below itself *)
  Lemma access_leaf_nonempty k v steps f :
    canonr steps -> fst (access_w re_match (leaf k v : trie) steps false f) = None.
  Proof. intros C. inversion C; subst; cbn [access_w leaf aget]; try rewrite andb_false_r; reflexivity. Qed.

  (** [lookup_mut] finds the key's own binding when there is one; otherwise it
      finds nothing, or — the regex fall-back on a literal left-most label —
      the binding of a regex hostname, whose stored key contains a '/' *)
  Lemma access_spec steps : canonr steps -> forall (t : trie) f,
      wfr t ->
      match cgetr t steps with
      | Some x => fst (access_w re_match t steps false f) = Some x
      | None => fst (access_w re_match t steps false f) = None \/
                exists k v ss l, fst (access_w re_match t steps false f) = Some (k, v) /\ mem SLASH k = true /\
                                 steps = map lab ss ++ [KLab l true]
      end.
  Proof.
    induction 1 as [|l D NS|src|s rest D C IH]; intros [kv w ch rx] f W;
      inversion W as [? ? ? ? A1 F1 F2 F3 ND]; subst.
    - cbn [access_w cgetr t_wild]. destruct w as [[k v]|]; [reflexivity|]. left; reflexivity.
    - cbn [access_w cgetr t_children]. destruct (aget l ch) as [c|] eqn:G.
      + destruct (wfr_child_leaf V _ _ _ _ _ _ W G D) as (k & v & ->). reflexivity.
      + rewrite andb_false_r.
        assert (GO : forall post pre,
                   Forall (is_rleaf V) post ->
                   let r := fst ((fix go (pre post : list (bytes * trie)) : option (bytes * V) * trie :=
                           match post with
                           | [] => (None, Node kv w ch rx)
                           | (src, sub) :: r =>
                             if re_match src (seg_body l)
                             then let '(o, sub') := access_w re_match sub [] false f in
                                  (o, Node kv w ch (pre ++ (src, sub') :: r))
                             else go (pre ++ [(src, sub)]) r
                           end) pre post) in
                   r = None \/ exists k v, r = Some (k, v) /\ mem SLASH k = true).
        { induction post as [|[src sub] post IHp]; intros pre Fp; [left; reflexivity|].
          inversion Fp as [|? ? (k0 & v0 & E & SL) Fp']; subst. cbn [snd] in E. subst sub.
          destruct (re_match src (seg_body l)).
          - right. exists k0, v0. split; [reflexivity|exact SL].
          - apply IHp; exact Fp'. }
        destruct (GO rx [] F3) as [H|(k & v & H & SL)]; [left; exact H|].
        right. exists k, v, [], l. split; [exact H|]. split; [exact SL|reflexivity].
    - cbn [access_w cgetr t_regexps]. destruct (aget src rx) as [sub|] eqn:G.
      + destruct (wfr_rx_leaf V _ _ _ _ _ _ W G) as (k & v & -> & _). reflexivity.
      + left; reflexivity.
    - cbn [access_w cgetr t_children]. destruct (aget s ch) as [c|] eqn:G.
      + specialize (IH c f (wfr_child_dotted V _ _ _ _ _ _ W G D)).
        destruct (access_w re_match c rest false f) as [o c']. cbn [fst] in *.
        destruct (cgetr c rest); [exact IH|].
        destruct IH as [H|(k & v & ss & l & H & SL & E)]; [left; exact H|].
        right. exists k, v, (s :: ss), l. split; [exact H|]. split; [exact SL|]. cbn [map app lab]. f_equal. exact E.
      + rewrite andb_false_r.
        assert (GO : forall post pre,
                   Forall (is_rleaf V) post ->
                   fst ((fix go (pre post : list (bytes * trie)) : option (bytes * V) * trie :=
                           match post with
                           | [] => (None, Node kv w ch rx)
                           | (src, sub) :: r =>
                             if re_match src (seg_body s)
                             then let '(o, sub') := access_w re_match sub rest false f in
                                  (o, Node kv w ch (pre ++ (src, sub') :: r))
                             else go (pre ++ [(src, sub)]) r
                           end) pre post) = None).
        { induction post as [|[src sub] post IHp]; intros pre Fp; [reflexivity|].
          inversion Fp as [|? ? (k0 & v0 & E & SL) Fp']; subst. cbn [snd] in E. subst sub.
          destruct (re_match src (seg_body s)); [|apply IHp; exact Fp'].
          pose proof (access_leaf_nonempty k0 v0 rest f C) as AL.
          destruct (access_w re_match (leaf k0 v0) rest false f) as [o sub']. cbn [fst] in *. exact AL. }
        left. apply GO; exact F3.
  Qed.

  Definition modr (t : trie) (steps : list kstep) (f : V -> V) : trie := snd (access_w re_match t steps false f).

  (** in-place modification of a key that is present *)
  Lemma modr_same steps : canonr steps -> forall (t : trie) f x,
      wfr t -> cgetr t steps = Some x -> cgetr (modr t steps f) steps = Some (fst x, f (snd x)).
  Proof.
    unfold modr.
    induction 1 as [|l D NS|src|s rest D C IH]; intros [kv w ch rx] f x W H.
    - cbn [access_w cgetr t_wild] in *. subst w. destruct x as [k v]. reflexivity.
    - cbn [access_w cgetr t_children] in *. destruct (aget l ch) as [c|] eqn:G; [|discriminate].
      destruct (wfr_child_leaf V _ _ _ _ _ _ W G D) as (k & v & ->). cbn [cgetr leaf t_kv] in H. inversion H; subst.
      cbn [access_w leaf snd cgetr t_children]. rewrite aget_aset_same by congruence. reflexivity.
    - cbn [access_w cgetr t_regexps] in *. destruct (aget src rx) as [sub|] eqn:G; [|discriminate].
      destruct (wfr_rx_leaf V _ _ _ _ _ _ W G) as (k & v & -> & _). cbn [cgetr leaf t_kv] in H. inversion H; subst.
      cbn [access_w leaf snd cgetr t_regexps]. rewrite aget_aset_same by congruence. reflexivity.
    - cbn [access_w cgetr t_children] in *. destruct (aget s ch) as [c|] eqn:G; [|discriminate].
      specialize (IH c f x (wfr_child_dotted V _ _ _ _ _ _ W G D) H).
      destruct (access_w re_match c rest false f) as [o c']. cbn [snd] in *.
      cbn [cgetr t_children]. rewrite aget_aset_same by congruence. exact IH.
  Qed.

  Lemma modr_other steps : canonr steps -> forall steps' (t : trie) f x,
      canonr steps' -> wfr t -> cgetr t steps = Some x -> steps <> steps' ->
      cgetr (modr t steps f) steps' = cgetr t steps'.
  Proof.
    unfold modr.
    induction 1 as [|l D NS|src|s rest D C IH]; intros steps' [kv w ch rx] f x C' W H NE.
    - cbn [access_w cgetr t_wild] in *. subst w. destruct x as [k v]. cbn [snd].
      inversion C'; subst; try congruence; reflexivity.
    - cbn [access_w cgetr t_children] in *. destruct (aget l ch) as [c|] eqn:G; [|discriminate].
      destruct (wfr_child_leaf V _ _ _ _ _ _ W G D) as (k & v & ->). cbn [access_w leaf snd].
      inversion C' as [|l' D' NS'|src'|s' rest' D' C'']; subst; cbn [cgetr t_children t_wild t_regexps]; try reflexivity.
      + rewrite aget_aset_other by congruence. reflexivity.
      + rewrite aget_aset_other by (intros ->; congruence). reflexivity.
    - cbn [access_w cgetr t_regexps] in *. destruct (aget src rx) as [sub|] eqn:G; [|discriminate].
      destruct (wfr_rx_leaf V _ _ _ _ _ _ W G) as (k & v & -> & _). cbn [access_w leaf snd].
      inversion C' as [|l' D' NS'|src'|s' rest' D' C'']; subst; cbn [cgetr t_children t_wild t_regexps]; try reflexivity.
      rewrite aget_aset_other by congruence. reflexivity.
    - cbn [access_w cgetr t_children] in *. destruct (aget s ch) as [c|] eqn:G; [|discriminate].
      pose proof (wfr_child_dotted V _ _ _ _ _ _ W G D) as Wc.
      destruct (access_w re_match c rest false f) as [o c'] eqn:EA. cbn [snd].
      inversion C' as [|l' D' NS'|src'|s' rest' D' C'']; subst; cbn [cgetr t_children t_wild t_regexps]; try reflexivity.
      + rewrite aget_aset_other by (intros ->; congruence). reflexivity.
      + destruct (beq s' s) eqn:Es.
        * apply beq_eq in Es; subst s'. rewrite aget_aset_same by congruence. rewrite G.
          specialize (IH rest' c f x C'' Wc H ltac:(congruence)). rewrite EA in IH. exact IH.
        * apply beq_neq in Es. rewrite aget_aset_other by exact Es. reflexivity.
  Qed.

  Lemma wfr_modr steps : canonr steps -> forall (t : trie) f x,
      wfr t -> cgetr t steps = Some x -> wfr (modr t steps f).
  Proof.
    unfold modr.
    induction 1 as [|l D NS|src|s rest D C IH]; intros [kv w ch rx] f x W H;
      inversion W as [? ? ? ? A1 F1 F2 F3 ND]; subst.
    - cbn [access_w cgetr t_wild] in *. subst w. destruct x as [k v]. cbn [snd]. constructor; assumption.
    - cbn [access_w cgetr t_children] in *. destruct (aget l ch) as [c|] eqn:G; [|discriminate].
      destruct (wfr_child_leaf V _ _ _ _ _ _ W G D) as (k & v & ->). cbn [access_w leaf snd].
      constructor; auto.
      + rewrite aget_aset_other by congruence. exact A1.
      + apply Forall_aset_key; [exact F1|]. cbn [fst snd]. congruence.
      + apply Forall_aset_key; [exact F2|]. cbn [fst snd]. intros _. exists k, (f v). reflexivity.
    - cbn [access_w cgetr t_regexps] in *. destruct (aget src rx) as [sub|] eqn:G; [|discriminate].
      destruct (wfr_rx_leaf V _ _ _ _ _ _ W G) as (k & v & -> & SL). cbn [access_w leaf snd].
      constructor; auto.
      + apply Forall_aset_key; [exact F3|]. exists k, (f v). split; [reflexivity|exact SL].
      + rewrite map_fst_aset. exact ND.
    - cbn [access_w cgetr t_children] in *. destruct (aget s ch) as [c|] eqn:G; [|discriminate].
      specialize (IH c f x (wfr_child_dotted V _ _ _ _ _ _ W G D) H).
      destruct (access_w re_match c rest false f) as [o c']. cbn [snd] in *. constructor; auto.
      + rewrite aget_aset_other by (intros E; rewrite <- E in D; discriminate). exact A1.
      + apply Forall_aset_key; [exact F1|]. cbn [fst snd]. intros _. exact IH.
      + apply Forall_aset_key; [exact F2|]. cbn [fst snd]. congruence.
  Qed.
End AccessR.

(** ** Which keys the trie accepts

    [accept steps] reads the outcome of [insert] off the way the key is cut,
    for EVERY key (any number of regex segments, malformed ones included): the
    key is refused ([Failed], [AddRoute] for the router, no state change)
    exactly when a cut is malformed ([KBad]: trailing '/' that does not close
    a [/regex/] segment preceded by '.' or starting the name), a label is empty
    (the cut runs out before a final segment: leading '.', [./re/...]), or a
    regex that is not stored yet does not compile. *)
Section Accept.
  Variable V : Type.
  Variable re_ok : bytes -> bool.

  Fixpoint accept (steps : list kstep) : bool :=
    match steps with
    | [] => false
    | KBad :: _ => false
    | KStar :: _ => true
    | KLab _ true :: _ => true
    | KLab _ false :: rest => accept rest
    | KRe src true :: _ => re_ok src
    | KRe src false :: rest => re_ok src && accept rest
    end.

  Definition failed (r : ires) : bool := match r with IFailed => true | _ => false end.

  (** an acceptable key is never refused, whatever the trie holds *)
  Lemma accept_not_failed steps : forall (t : trie V) key v,
      accept steps = true -> failed (snd (insert_w re_ok t steps key v)) = false.
  Proof.
    induction steps as [|st steps IH]; intros [kv w ch rx] key v A; [discriminate|].
    destruct st as [| |src pos0|s fin]; cbn [accept] in A; cbn [insert_w].
    - destruct (is_some (aget [STAR] ch)); [reflexivity|]. destruct (is_some w); reflexivity.
    - discriminate.
    - destruct (aget src rx) as [sub|].
      + destruct pos0.
        * destruct (is_some (t_kv sub)); reflexivity.
        * apply andb_true_iff in A. destruct A as [_ A]. specialize (IH sub key v A).
          destruct (insert_w re_ok sub steps key v) as [sub' r]. exact IH.
      + destruct pos0.
        * rewrite A. reflexivity.
        * apply andb_true_iff in A. destruct A as [A1 A2]. rewrite A1.
          specialize (IH root key v A2). destruct (insert_w re_ok root steps key v) as [sub' r]. cbn [snd] in IH.
          destruct r; cbn [ires_ok snd]; try reflexivity; discriminate.
    - destruct fin.
      + destruct (is_some (aget s ch)); reflexivity.
      + destruct (aget s ch) as [c|].
        * specialize (IH c key v A). destruct (insert_w re_ok c steps key v) as [c' r]. exact IH.
        * specialize (IH root key v A). destruct (insert_w re_ok root steps key v) as [c' r]. cbn [snd] in IH.
          destruct r; cbn [ires_ok snd]; try reflexivity; discriminate.
  Qed.

  (** on an empty trie a key is refused exactly when it is not acceptable, and
      a refused insert leaves the trie untouched *)
  Lemma insert_root_failed_iff steps key v :
    failed (snd (insert_w re_ok (root : trie V) steps key v)) = negb (accept steps).
  Proof.
    revert key v. induction steps as [|st steps IH]; intros key v; [reflexivity|].
    destruct st as [| |src pos0|s fin]; cbn [accept]; cbn [insert_w root aget is_some]; try reflexivity.
    - destruct pos0.
      + destruct (re_ok src); reflexivity.
      + destruct (re_ok src); cbn [andb]; [|reflexivity].
        specialize (IH key v). destruct (insert_w re_ok root steps key v) as [sub' r]. cbn [snd] in IH.
        destruct r; cbn [ires_ok snd failed] in *; congruence.
    - destruct fin; [reflexivity|].
      specialize (IH key v). destruct (insert_w re_ok root steps key v) as [c' r]. cbn [snd] in IH.
      destruct r; cbn [ires_ok snd failed] in *; congruence.
  Qed.

  (** key level: [insert] never changes the trie when it answers [Failed], and
      on an empty trie it answers [Failed] exactly for the empty name, "." and
      the names whose cut is not acceptable *)
  Lemma insert_failed_unchanged (t : trie V) key v :
    failed (snd (insert re_ok t key v)) = true -> fst (insert re_ok t key v) = t.
  Proof.
    unfold insert. destruct (is_nil key); [reflexivity|]. destruct (beq key [DOT]); [reflexivity|].
    destruct (insert_w re_ok t (ksteps key) key v) as [t' r]. destruct r; cbn [snd fst failed]; try discriminate; reflexivity.
  Qed.

  Lemma insert_root_accepts key v :
    failed (snd (insert re_ok (root : trie V) key v)) =
    is_nil key || beq key [DOT] || negb (accept (ksteps key)).
  Proof.
    unfold insert. destruct (is_nil key); [reflexivity|]. destruct (beq key [DOT]); [reflexivity|]. cbn [orb].
    pose proof (insert_root_failed_iff (ksteps key) key v) as H.
    destruct (insert_w re_ok root (ksteps key) key v) as [t' r]. cbn [snd] in *.
    destruct r; cbn [snd failed] in *; exact H.
  Qed.

  Lemma insert_accepts (t : trie V) key v :
    is_nil key = false -> beq key [DOT] = false -> accept (ksteps key) = true ->
    failed (snd (insert re_ok t key v)) = false.
  Proof.
    intros N D A. unfold insert. rewrite N, D.
    pose proof (accept_not_failed (ksteps key) t key v A) as H.
    destruct (insert_w re_ok t (ksteps key) key v) as [t' r]. cbn [snd] in *. destruct r; cbn [snd failed] in *; congruence.
  Qed.
End Accept.

(** ** lookup after insert, for every key the trie accepts *)
Fixpoint finals_last (l : list kstep) : bool :=
  match l with
  | [] => true
  | KStar :: r | KBad :: r | KLab _ true :: r | KRe _ true :: r => is_nil r
  | _ :: r => finals_last r
  end.

Lemma ksteps_f_finals_last fuel : forall pk, finals_last (ksteps_f fuel pk) = true.
Proof.
  induction fuel as [|f IH]; intros pk; [reflexivity|]. rewrite ksteps_f_S.
  destruct pk as [|c pk']; [reflexivity|].
  destruct (beq (c :: pk') [STAR]); [reflexivity|].
  destruct (N.eqb (last_byte (c :: pk')) SLASH).
  - destruct (split_last SLASH (removelast (c :: pk'))) as [[p s]|]; [|reflexivity].
    destruct (negb (is_nil p) && negb (N.eqb (last_byte p) DOT)); [reflexivity|].
    destruct (is_nil p); cbn [finals_last is_nil]; [reflexivity|apply IH].
  - destruct (split_last DOT (c :: pk')) as [[p s]|]; cbn [finals_last is_nil]; [apply IH|reflexivity].
Qed.

Lemma ksteps_finals_last k : finals_last (ksteps k) = true.
Proof. apply ksteps_f_finals_last. Qed.

Section InsertAll.
  Variable V : Type.
  Variable re_ok : bytes -> bool.

  (** no invariant on the trie, any number of regex segments *)
  Lemma cgetr_insert_same_all steps : forall (t : trie V) key v t',
      finals_last steps = true -> insert_w re_ok t steps key v = (t', IOk) -> cgetr V t' steps = Some (key, v).
  Proof.
    induction steps as [|st steps IH]; intros [kv w ch rx] key v t' FL H; [discriminate|].
    destruct st as [| |src pos0|s fin]; cbn [insert_w] in H.
    - destruct (is_some (aget [STAR] ch)); [discriminate|]. destruct (is_some w); [discriminate|].
      inversion H; subst. reflexivity.
    - discriminate.
    - destruct pos0.
      + cbn [finals_last] in FL. destruct steps; [|discriminate].
        destruct (aget src rx) as [sub|] eqn:G.
        * destruct (is_some (t_kv sub)); [discriminate|]. inversion H; subst.
          cbn [cgetr t_regexps]. rewrite aget_aset_same by congruence. reflexivity.
        * destruct (re_ok src); [|discriminate]. inversion H; subst.
          cbn [cgetr t_regexps]. rewrite aget_app, G. cbn [aget]. rewrite beq_refl. reflexivity.
      + cbn [finals_last] in FL. destruct (aget src rx) as [sub|] eqn:G.
        * destruct (insert_w re_ok sub steps key v) as [sub' r] eqn:EI. inversion H; subst.
          cbn [cgetr t_regexps]. rewrite aget_aset_same by congruence. eapply IH; eauto.
        * destruct (re_ok src); [|discriminate].
          destruct (insert_w re_ok root steps key v) as [sub' r] eqn:EI.
          destruct r; cbn [ires_ok] in H; try discriminate. inversion H; subst.
          cbn [cgetr t_regexps]. rewrite aget_app, G. cbn [aget]. rewrite beq_refl. eapply IH; eauto.
    - destruct fin.
      + cbn [finals_last] in FL. destruct steps; [|discriminate].
        destruct (aget s ch) eqn:G; cbn [is_some] in H; [discriminate|]. inversion H; subst.
        cbn [cgetr t_children]. rewrite aget_app, G. cbn [aget]. rewrite beq_refl. reflexivity.
      + cbn [finals_last] in FL. destruct (aget s ch) as [c|] eqn:G.
        * destruct (insert_w re_ok c steps key v) as [c' r] eqn:EI. inversion H; subst.
          cbn [cgetr t_children]. rewrite aget_aset_same by congruence. eapply IH; eauto.
        * destruct (insert_w re_ok root steps key v) as [c' r] eqn:EI.
          destruct r; cbn [ires_ok] in H; try discriminate. inversion H; subst.
          cbn [cgetr t_children]. rewrite aget_app, G. cbn [aget]. rewrite beq_refl. eapply IH; eauto.
  Qed.

  Lemma cgetk_insert_same_all (t : trie V) key v t' :
    insert re_ok t key v = (t', IOk) -> cgetk V t' key = Some (key, v).
  Proof.
    unfold insert. destruct (is_nil key); [discriminate|]. destruct (beq key [DOT]); [discriminate|].
    destruct (insert_w re_ok t (ksteps key) key v) as [t1 r] eqn:E. destruct r; intros H; inversion H; subst.
    eapply cgetr_insert_same_all; [apply ksteps_finals_last|exact E].
  Qed.
End InsertAll.
