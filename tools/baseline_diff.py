#!/usr/bin/env python3
"""tools/baseline_diff.py <nextest log> — stable-pass tests of /root/.vp/BASELINE.json that FAILED or TIMED OUT in the log."""
import json, re, sys
b = json.load(open('/root/.vp/BASELINE.json'))
stable = set(b['stable_pass'])
bad = set()
for line in open(sys.argv[1], errors='replace'):
    m = re.match(r'\s*(FAIL|TIMEOUT|SIGABRT|SIGSEGV|LEAK-FAIL)\s+\[[^\]]*\]\s+(?:\(\s*\d+/\d+\)\s+)?(\S+)\s+(\S+)', line)
    if m:
        bad.add(m.group(2) + '::' + m.group(3))
reg = sorted(bad & stable)
print("failed in log: %d, of which in stable_pass: %d" % (len(bad), len(reg)))
for t in reg:
    print("  ", t)
