(* Generic correspondence driver: links against the OCaml extracted from a
   property's Run.v (module Run: run_case, obs_eqb, and the Z helpers) and
   speaks the line protocol of harness/src/lib.rs.

   input:   case <k> / op <tok>... / obs <tok>... / end
   output:  "mismatch <k>" for every case on which the model's observations
            differ from the listed ones; with --print, also the model's own
            observations ("mobs <k> <tok>...").
   Only parsing and printing live here; everything that is compared is
   computed by extracted code. *)

let rec pos_of_int (n : int) : Run.positive =
  if n = 1 then Run.XH
  else if n land 1 = 0 then Run.XO (pos_of_int (n lsr 1))
  else Run.XI (pos_of_int (n lsr 1))

let z_of_small (n : int) : Run.z =
  if n = 0 then Run.Z0 else if n > 0 then Run.Zpos (pos_of_int n) else Run.Zneg (pos_of_int (-n))

let n_of_small (n : int) : Run.n = if n = 0 then Run.N0 else Run.Npos (pos_of_int n)

let z_of_decimal (s : string) : Run.z =
  let neg = String.length s > 0 && s.[0] = '-' in
  let ten = z_of_small 10 in
  let acc = ref Run.Z0 in
  String.iteri (fun i c ->
      if not (neg && i = 0) then
        acc := Run.Z.add (Run.Z.mul !acc ten) (z_of_small (Char.code c - 48))) s;
  if neg then Run.Z.opp !acc else !acc

(* decimal printing of a positive without bignums: double-and-add on a digit string *)
let dec_double (s : Bytes.t) (carry_in : int) : Bytes.t =
  let n = Bytes.length s in
  let out = Bytes.make (n + 1) '0' in
  let carry = ref carry_in in
  for i = n - 1 downto 0 do
    let d = (Char.code (Bytes.get s i) - 48) * 2 + !carry in
    Bytes.set out (i + 1) (Char.chr (48 + d mod 10));
    carry := d / 10
  done;
  Bytes.set out 0 (Char.chr (48 + !carry));
  if Bytes.get out 0 = '0' then Bytes.sub out 1 n else out

let rec dec_of_pos (p : Run.positive) : Bytes.t =
  match p with
  | Run.XH -> Bytes.of_string "1"
  | Run.XO q -> dec_double (dec_of_pos q) 0
  | Run.XI q -> dec_double (dec_of_pos q) 1

let string_of_z = function
  | Run.Z0 -> "0"
  | Run.Zpos p -> Bytes.to_string (dec_of_pos p)
  | Run.Zneg p -> "-" ^ Bytes.to_string (dec_of_pos p)

let rec int_of_pos = function
  | Run.XH -> 1
  | Run.XO q -> 2 * int_of_pos q
  | Run.XI q -> 2 * int_of_pos q + 1
let int_of_n = function Run.N0 -> 0 | Run.Npos p -> int_of_pos p

let ascii_of_char (c : char) : Run.ascii =
  let k = Char.code c in
  let b i = (k lsr i) land 1 = 1 in
  Run.Ascii (b 0, b 1, b 2, b 3, b 4, b 5, b 6, b 7)

let char_of_ascii (Run.Ascii (a, b, c, d, e, f, g, h)) : char =
  let v x i = if x then 1 lsl i else 0 in
  Char.chr (v a 0 + v b 1 + v c 2 + v d 3 + v e 4 + v f 5 + v g 6 + v h 7)

let coq_string (s : string) : Run.string =
  let r = ref Run.EmptyString in
  for i = String.length s - 1 downto 0 do r := Run.String (ascii_of_char s.[i], !r) done;
  !r

let rec ocaml_string (s : Run.string) : string =
  match s with
  | Run.EmptyString -> ""
  | Run.String (c, r) -> String.make 1 (char_of_ascii c) ^ ocaml_string r

let is_hex s =
  String.length s >= 1 && s.[0] = 'x' && String.length s mod 2 = 1
  && (let ok = ref true in
      String.iteri (fun i c -> if i > 0 then
                         match c with '0'..'9' | 'a'..'f' | 'A'..'F' -> () | _ -> ok := false) s;
      !ok)

let is_dec s =
  let n = String.length s in
  n > 0
  && (let st = if s.[0] = '-' then 1 else 0 in
      st < n
      && (let ok = ref true in
          for i = st to n - 1 do match s.[i] with '0'..'9' -> () | _ -> ok := false done;
          !ok))

let tok_of_string (s : string) : Run.tok =
  if is_hex s then begin
    let n = (String.length s - 1) / 2 in
    let l = ref [] in
    for i = n - 1 downto 0 do
      l := n_of_small (int_of_string ("0x" ^ String.sub s (1 + 2 * i) 2)) :: !l
    done;
    Run.TB !l
  end
  else if is_dec s then Run.TN (z_of_decimal s)
  else Run.TS (coq_string s)

let string_of_tok = function
  | Run.TN z -> string_of_z z
  | Run.TB l -> "x" ^ String.concat "" (List.map (fun b -> Printf.sprintf "%02x" (int_of_n b)) l)
  | Run.TS s -> ocaml_string s

let words (line : string) : string list =
  List.filter (fun w -> w <> "") (String.split_on_char ' ' line)

let () =
  let print = Array.length Sys.argv > 2 && Sys.argv.(2) = "--print" in
  let ic = open_in Sys.argv.(1) in
  let id = ref "" and ops = ref [] and obs = ref [] in
  (try
     while true do
       let line = input_line ic in
       match words line with
       | "case" :: k :: _ -> id := k; ops := []; obs := []
       | "op" :: ws -> ops := List.map tok_of_string ws :: !ops
       | "obs" :: ws -> obs := List.map tok_of_string ws :: !obs
       | "end" :: _ ->
         let m = Run.run_case (List.rev !ops) in
         if not (Run.obs_eqb m (List.rev !obs)) then Printf.printf "mismatch %s\n" !id;
         if print then
           List.iter (fun o -> Printf.printf "mobs %s %s\n" !id (String.concat " " (List.map string_of_tok o))) m
       | _ -> ()
     done
   with End_of_file -> ());
  close_in ic
