"""C06 — applying the computed difference always reaches the target configuration."""
import vlib
from vlib import Case
from props import cfgstate_common as C

ID = "C06"
COQ_DIRS = ["Common", "CfgState", "C06"]
COQ_TARGETS = ["C06/Props.vo", "CfgState/Run.vo"]
PROPS_MODULES = ["C06.Props"]
RUN_MODULE = "CfgState.Run"
RUN_FN = "run_case"
HARNESS_BIN = "c06"
HARNESS_BINS = ["c06"]
SHRINK_KEEP = C.SHRINK_KEEP
RULE = ("cases: pairs (A,B) of configurations built by two command histories sharing a prefix (so they overlap), plus "
        "targeted pairs differing in exactly one listener field / activation flag / frontend payload / backend parameter "
        "/ certificate; the real A.diff(&B) is dispatched request by request on a clone of A (release profile) and the "
        "result compared with B modulo empty buckets, both directions, plus diff(A,A). Non-trivial and distinct: the "
        "diff has >= 3 requests of >= 2 verbs; distinct by op text.")
ASSUMPTIONS = C.COMMON_ASSUMPTIONS + [
    "HashSet iteration order inside diff is not modelled (the model emits map order); only order-independent observations are compared: number of requests, number rejected, target reached",
]
TRUSTED = C.COMMON_TRUSTED


TRANSLATE_FALLBACK = C.TRANSLATE_FALLBACK


def translate():
    return C.translate()[0]


def pair_case(rng, cid):
    ops = C.oracle_ops()
    ops += C.history(rng, rng.choice([5, 15, 30]))
    ops.append(["save", 0])
    ops += C.history(rng, rng.choice([1, 3, 8, 15]))
    ops.append(["save", 1])
    ops.append(["load", 0])
    ops += C.history(rng, rng.choice([0, 1, 3, 8, 15]))
    ops.append(["save", 2])
    ops += [["diff", 1, 2], ["diff", 2, 1], ["diff", 0, 1], ["diff", 1, 0], ["diff", 1, 1], ["diff", 2, 2]]
    return Case(cid, ops)


def targeted_case(rng, cid):
    """A and B differ in exactly one thing"""
    F = C.facts()
    ops = C.oracle_ops()
    ops += C.history(rng, rng.choice([10, 25]))
    kind = rng.randrange(4)
    a = rng.randrange(3)
    ops.append(C.rand_listener(rng, kind, a))
    ops.append(["add_cluster", 0, 5, 0])
    ops.append(["add_backend", 0, 1, 1, 0, 0, 0])
    ops.append(["add_front", 0, 0, 0, 0, 1, 0, 1, 2, 0])
    ops.append(["add_tfront", 0, 0, 1, 0])
    ops.append(["add_cert", 0, 0, 0])
    ops.append(["save", 1])
    r = rng.randrange(9)
    if r == 0:
        ops.append(C.update_listener(kind, a, C.rand_patch(rng, kind, 0.0)))
    elif r == 1:
        ops.append([rng.choice(["activate", "deactivate"]), kind, a])
    elif r == 2:
        ops += [["remove_front", 0, 0, 0, 0, 1, 0, 1, 2, 0], ["add_front", 0, 0, 0, 0, 1, 0, rng.choice([1, 2]), 2, rng.choice([1, 3, 9])]]
    elif r == 3:
        ops.append(["add_backend", 0, 1, 1, rng.choice([0, 1]), rng.choice([0, 5]), rng.choice([0, 1, 2])])
    elif r == 4:
        ops.append(["add_backend", 0, 2, 1, 0, 0, 0])
    elif r == 5:
        ops.append(["add_cluster", 0, rng.choice([5, 6]), rng.choice([0, 1])])
    elif r == 6:
        ops.append(["replace_cert", 0, rng.choice([1, 2, 7]), 0, 1])
    elif r == 7:
        ops += [["remove_tfront", 0, 0, 1, 0], ["add_tfront", 0, 0, 1, rng.choice([1, 2])]]
    else:
        ops.append(["remove_listener", kind, a])
    ops.append(["save", 2])
    ops += [["diff", 1, 2], ["diff", 2, 1], ["diff", 1, 1]]
    return Case(cid, ops)


def gen_cases(rng, tier):
    n = {"quick": 1500, "thorough": 30000, "search": 8000}.get(tier, 1500)
    out = []
    for i in range(n):
        if i % 3 == 2:
            out.append(targeted_case(rng, "t%d" % i))
        else:
            out.append(pair_case(rng, "p%d" % i))
    return out


def corpus_cases():
    return C.corpus_cases(ID)


def nontrivial(case, o):
    for op, ob in zip(case.ops, o["obs"]):
        if op[0] == "diff" and ob and ob[0] >= 3:
            return True
    return False


CLAIMED = True
LEVEL_TEXT = ("Machine-checked proof (Coq 8.16 + std++) over the executable ConfigState model of diff and DiffMap: applying "
              "diff(A,B) to A is accepted request by request and reaches B for all reachable A, B (apply_diff); the "
              "merge-join is sound and complete on key-sorted inputs for every key order, the difference of a "
              "configuration with itself is empty in every section; the model of diff (all sections, in source order) "
              "is tied to the code by a differential run: for pairs of reachable configurations the real A.diff(&B) is "
              "dispatched on a clone of A (release profile) and the number of requests, the number rejected and whether "
              "B is reached are compared with the extracted model; the property's oracle is evaluated on the implementation.")
LEVEL_NOTE = ("apply_diff is proved at full strength on the model: for any two reachable configurations every request of "
              "diff(A,B) is accepted by an instance holding A, which then holds B (all eleven maps), composed from one "
              "theorem per section (listeners of four kinds incl. re-activation / deactivation, clusters and backends through "
              "the merge-join, http/https frontends, tcp/udp frontends, certificates by value). No cross-section precondition "
              "is needed: ConfigState checks no reference between maps. Equality is modulo empty buckets and the order inside "
              "tcp/udp frontend buckets: after a diff the Vec order follows HashSet iteration; it is not observable through "
              "routing, hash_state or any replay path (finding closed). HashSet iteration order inside diff is not "
              "modelled (the model emits map order; the theorem holds for the model's order and the per-section lemmas for any "
              "duplicate-free order). The tie to the code is the correspondence run (request counts, rejections, target reached).")
TECHNIQUE = "Rocq/Coq proof over an executable Gallina model (std++ gmap) + differential correspondence (extracted OCaml vs real crate)"
