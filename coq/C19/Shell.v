(** C19 — executable model of the socket shell around the sans-io core:
    [UdpListenerSession] of lib/src/udp.rs ([ingest_client], [ingest_upstream],
    [drain_outputs] and its eight handlers, [drain_upstream_queue],
    [drain_client_queue], [timeout], [close_all_flows]) and [WriteQueue].

    What the kernel, the load balancer and mio decide is an explicit input of
    every event ([env]): the backend the [BackendMap] resolves (or none), whether
    [udp_connect] succeeds, and one [outcome] per send attempt (sent /
    WouldBlock / hard error).  Registering a socket with mio is assumed to
    succeed.  Metrics and logs are not represented.

    Representation: [upstream_sockets], [upstream_to_flow], [flow_to_upstream],
    [flow_started] and [upstream_write_queues] are always written together by
    [on_open_upstream] and erased together by [on_close_flow]; they are one list
    of [sock] records here, newest first, with the HashMap overwrite semantics
    kept: a lookup by flow finds the NEWEST socket of that flow, a lookup by
    token the exact one.  [flow_endpoints] and [client_key_to_flow] are separate
    association lists.  Session-slab tokens come from an exact [slab].

    GHOST fields (not in the Rust code): [s_inc] (the incarnation the socket was
    opened for, copied from the ghost label of the [OpenUpstream] output),
    [s_key] (the shadow-table key inserted when the socket was opened),
    [sh_opened]/[sh_closed] counters.

    No proofs in this file. *)
From Coq Require Import List NArith Bool Arith.
From SV Require Import Common.Slab C19.Model.
Import ListNotations.

(* ------------------------------------------------- the configuration path *)

(** the optional [udp] block of a [Cluster] message (proto [UdpClusterConfig]; absent fields are [None]) *)
Record udp_block := mkudp {
  u_with_port : option bool; u_responses : option N; u_requests : option N;
  u_send_pp : option bool; u_pp_every : option bool }.

(** [UdpProxy::apply_cluster] step 1c (udp.rs): the cache entry of the cluster becomes the block of THIS
    AddCluster; no block clears it (back to the defaults) *)
Definition apply_cluster_cache (_old : option udp_block) (block : option udp_block) : option udp_block := block.

(** [cluster_config_for] + [apply_udp_knobs] (udp.rs): the listener's timeouts, the proto defaults, then the
    cached block *)
Definition cluster_config_for (cluster : list N) (front back : N) (cache : option udp_block) : cfg :=
  match cache with
  | None => mkcfg cluster false 0 0 front back false false
  | Some u =>
    mkcfg cluster (match u_with_port u with Some b => b | None => false end)
          (match u_responses u with Some n => n | None => 0%N end)
          (match u_requests u with Some n => n | None => 0%N end)
          front back
          (match u_send_pp u with Some b => b | None => false end)
          (match u_pp_every u with Some b => b | None => false end)
  end.

(* ------------------------------------------------------------ WriteQueue *)

Inductive outcome := Sent | WouldBlock | HardErr.

(** udp.rs:152 [WriteQueue]; an entry is (destination, payload) *)
Record wq := mkwq { wq_items : list (addr * list N); wq_cap : nat }.

Definition wq_new (cap : nat) : wq := mkwq [] cap.
Definition wq_is_empty (q : wq) : bool := match wq_items q with [] => true | _ => false end.

(** [push] (udp.rs:179): refuses at capacity, else appends at the back *)
Definition wq_push (q : wq) (d : addr) (p : list N) : wq * bool :=
  if Nat.leb (wq_cap q) (length (wq_items q)) then (q, false)
  else (mkwq (wq_items q ++ [(d, p)]) (wq_cap q), true).

(** the next send outcome; an exhausted schedule means "the kernel takes it" *)
Definition next_outcome (sched : list outcome) : outcome * list outcome :=
  match sched with [] => (Sent, []) | o :: s => (o, s) end.

(** [drain] (udp.rs:200): FIFO, stops at the first WouldBlock, pops on Sent and
    on a hard error.  Returns what is left, what went on the wire, the rest of
    the schedule. *)
Fixpoint wq_drain_items (items : list (addr * list N)) (sched : list outcome)
  : list (addr * list N) * list (addr * list N) * list outcome :=
  match items with
  | [] => ([], [], sched)
  | x :: rest =>
    let '(o, sched') := next_outcome sched in
    match o with
    | WouldBlock => (items, [], sched')
    | Sent => let '(l, w, s) := wq_drain_items rest sched' in (l, x :: w, s)
    | HardErr => wq_drain_items rest sched'
    end
  end.

Definition upstream_wq_cap : nat := 64.
Definition client_wq_cap : nat := 256.

(* ------------------------------------------------------------- the shell *)

Record sock := mksock {
  s_tok : nat; s_flow : nat; s_backend : addr; s_q : option wq;
  s_inc : N; s_key : option addr }.

Inductive wire :=
| WOpen (tok : nat) (inc : N) (backend : addr)
| WClose (tok : nat)
| WUp (tok : nat) (payload : list N)
| WClient (dst : addr) (payload : list N)
| WDrop (why : N).     (* 0 unknown flow, 1 queue full, 2 send error *)

Record env := mkenv {
  e_resolve : option (list N * addr);   (* backend_from_cluster_id_with_key *)
  e_connect : bool }.                   (* udp_connect succeeds *)

Record shell := mkshell {
  sh_mgr : mgr; sh_q : list lout;
  sh_slab : slab unit;
  sh_socks : list sock;
  sh_endp : list (nat * addr);          (* flow_endpoints: flow -> client *)
  sh_key2f : list (addr * nat);         (* client_key_to_flow *)
  sh_ifc : option addr; sh_iff : option nat;   (* in_flight_client / in_flight_flow *)
  sh_clq : wq;
  sh_timer : option N;
  sh_address : addr;
  sh_opened : nat; sh_closed : nat }.

Definition with_mgr_q (sh : shell) m q :=
  mkshell m q (sh_slab sh) (sh_socks sh) (sh_endp sh) (sh_key2f sh) (sh_ifc sh) (sh_iff sh)
          (sh_clq sh) (sh_timer sh) (sh_address sh) (sh_opened sh) (sh_closed sh).
Definition with_socks (sh : shell) socks :=
  mkshell (sh_mgr sh) (sh_q sh) (sh_slab sh) socks (sh_endp sh) (sh_key2f sh) (sh_ifc sh) (sh_iff sh)
          (sh_clq sh) (sh_timer sh) (sh_address sh) (sh_opened sh) (sh_closed sh).
Definition with_inflight (sh : shell) c f :=
  mkshell (sh_mgr sh) (sh_q sh) (sh_slab sh) (sh_socks sh) (sh_endp sh) (sh_key2f sh) c f
          (sh_clq sh) (sh_timer sh) (sh_address sh) (sh_opened sh) (sh_closed sh).
Definition with_clq (sh : shell) q :=
  mkshell (sh_mgr sh) (sh_q sh) (sh_slab sh) (sh_socks sh) (sh_endp sh) (sh_key2f sh) (sh_ifc sh) (sh_iff sh)
          q (sh_timer sh) (sh_address sh) (sh_opened sh) (sh_closed sh).
Definition with_timer (sh : shell) t :=
  mkshell (sh_mgr sh) (sh_q sh) (sh_slab sh) (sh_socks sh) (sh_endp sh) (sh_key2f sh) (sh_ifc sh) (sh_iff sh)
          (sh_clq sh) t (sh_address sh) (sh_opened sh) (sh_closed sh).

Fixpoint nget {A} (l : list (nat * A)) (k : nat) : option A :=
  match l with [] => None | (k', v) :: l' => if Nat.eqb k' k then Some v else nget l' k end.
Definition nremove {A} (l : list (nat * A)) (k : nat) : list (nat * A) :=
  filter (fun kv => negb (Nat.eqb (fst kv) k)) l.
Definition nset {A} (l : list (nat * A)) (k : nat) (v : A) : list (nat * A) := (k, v) :: nremove l k.

(** [flow_to_upstream.get(flow)]: the newest socket opened for that flow *)
Fixpoint sock_of_flow (l : list sock) (id : nat) : option sock :=
  match l with [] => None | s :: l' => if Nat.eqb (s_flow s) id then Some s else sock_of_flow l' id end.
(** [upstream_to_flow.get(token)] / [upstream_sockets.get(token)] *)
Fixpoint sock_of_tok (l : list sock) (t : nat) : option sock :=
  match l with [] => None | s :: l' => if Nat.eqb (s_tok s) t then Some s else sock_of_tok l' t end.
Definition remove_tok (l : list sock) (t : nat) : list sock :=
  filter (fun s => negb (Nat.eqb (s_tok s) t)) l.
Fixpoint set_sock (l : list sock) (s' : sock) : list sock :=
  match l with
  | [] => []
  | s :: l' => if Nat.eqb (s_tok s) (s_tok s') then s' :: l' else s :: set_sock l' s'
  end.

Section Shell.
Variable hash : bool -> addr -> N.

(** [client_key] (udp.rs:1106): the CURRENT affinity mode of the manager *)
Definition client_key (sh : shell) (src : addr) : addr :=
  key_of src (c_with_port (m_cluster (sh_mgr sh))).

(** calling into the manager appends to its output queue *)
Definition call_mgr (sh : shell) (now : N) (i : input) : shell :=
  let '(m', os) := step hash (sh_mgr sh) now i in with_mgr_q sh m' (sh_q sh ++ os).

(** [on_close_flow] (udp.rs:1591), with the two-key lookup of fix d875ae5;
    [two_keys = false] is the code before that fix *)
Definition on_close_flow (two_keys : bool) (sh : shell) (id : nat) : shell * list wire :=
  let '(socks, slab', w, closed) :=
    match sock_of_flow (sh_socks sh) id with
    | Some s => (remove_tok (sh_socks sh) (s_tok s), sremove (sh_slab sh) (s_tok s), [WClose (s_tok s)], 1)
    | None => (sh_socks sh, sh_slab sh, [], 0)
    end in
  let client := match nget (sh_endp sh) id with Some c => c | None => sh_address sh end in
  let key := client_key sh client in
  let k2f :=
    if opt_nat_eqb (tget (sh_key2f sh) key) (Some id) then tremove (sh_key2f sh) key
    else if two_keys then
      let other := if addr_eqb key client then mkaddr (a_ip client) 0 else client in
      if opt_nat_eqb (tget (sh_key2f sh) other) (Some id) then tremove (sh_key2f sh) other
      else sh_key2f sh
    else sh_key2f sh in
  (mkshell (sh_mgr sh) (sh_q sh) slab' socks (nremove (sh_endp sh) id) k2f (sh_ifc sh) (sh_iff sh)
           (sh_clq sh) (sh_timer sh) (sh_address sh) (sh_opened sh) (sh_closed sh + closed), w).

(** [on_open_upstream] (udp.rs:1260) *)
Definition on_open_upstream (sh : shell) (now : N) (e : env) (inc : option N) (id : nat) (b : addr)
  : shell * list wire :=
  if negb (e_connect e) then (call_mgr sh now (IAbort id), [])
  else
    let '(slab', tok) := sinsert (sh_slab sh) tt in
    let key := match sh_ifc sh with Some src => Some (client_key sh src) | None => None end in
    let i := match inc with Some i => i | None => 0%N end in
    let s := mksock tok id b None i key in
    let client := match sh_ifc sh with Some src => src | None => sh_address sh end in
    let k2f := match key with Some k => tinsert (sh_key2f sh) k id | None => sh_key2f sh end in
    (mkshell (sh_mgr sh) (sh_q sh) slab' (s :: sh_socks sh) (nset (sh_endp sh) id client) k2f
             (sh_ifc sh) (Some id) (sh_clq sh) (sh_timer sh) (sh_address sh) (S (sh_opened sh)) (sh_closed sh),
     [WOpen tok i b]).

(** [on_send_to_backend] (udp.rs:1352) *)
Definition on_send_to_backend (sh : shell) (sched : list outcome) (d : addr) (p : list N)
  : shell * list outcome * list wire :=
  let flow :=
    match sh_iff sh with
    | Some f => Some f
    | None => match sh_ifc sh with
              | Some src => tget (sh_key2f sh) (client_key sh src)
              | None => None
              end
    end in
  match flow with
  | None => (sh, sched, [WDrop 0])
  | Some f =>
    match sock_of_flow (sh_socks sh) f with
    | None => (sh, sched, [WDrop 0])
    | Some s0 =>
      match sock_of_tok (sh_socks sh) (s_tok s0) with
      | None => (sh, sched, [WDrop 0])
      | Some s =>
        let queued := match s_q s with Some q => negb (wq_is_empty q) | None => false end in
        if queued then
          match s_q s with
          | Some q =>
            let '(q', ok) := wq_push q d p in
            (with_socks sh (set_sock (sh_socks sh) (mksock (s_tok s) (s_flow s) (s_backend s) (Some q') (s_inc s) (s_key s))),
             sched, if ok then [] else [WDrop 1])
          | None => (sh, sched, [])
          end
        else
          let '(o, sched') := next_outcome sched in
          match o with
          | Sent => (sh, sched', [WUp (s_tok s) p])
          | WouldBlock =>
            let q := match s_q s with Some q => q | None => wq_new upstream_wq_cap end in
            let '(q', ok) := wq_push q d p in
            (with_socks sh (set_sock (sh_socks sh) (mksock (s_tok s) (s_flow s) (s_backend s) (Some q') (s_inc s) (s_key s))),
             sched', if ok then [] else [WDrop 1])
          | HardErr => (sh, sched', [WDrop 2])
          end
      end
    end
  end.

(** [on_send_to_client] (udp.rs:1469) *)
Definition on_send_to_client (sh : shell) (sched : list outcome) (d : addr) (p : list N)
  : shell * list outcome * list wire :=
  if negb (wq_is_empty (sh_clq sh)) then
    let '(q', ok) := wq_push (sh_clq sh) d p in (with_clq sh q', sched, if ok then [] else [WDrop 1])
  else
    let '(o, sched') := next_outcome sched in
    match o with
    | Sent => (sh, sched', [WClient d p])
    | WouldBlock => let '(q', ok) := wq_push (sh_clq sh) d p in
                    (with_clq sh q', sched', if ok then [] else [WDrop 1])
    | HardErr => (sh, sched', [WDrop 2])
    end.

(** one iteration of [drain_outputs] (udp.rs:1201) *)
Definition process (two_keys : bool) (sh : shell) (sched : list outcome) (now : N) (e : env) (lo : lout)
  : shell * list outcome * list wire :=
  match snd lo with
  | SelectBackend id cl key =>
    match e_resolve e with
    | Some (bid, a) => (call_mgr sh now (IResolved id bid a), sched, [])
    | None => (call_mgr sh now (IAbort id), sched, [])
    end
  | OpenUpstream id b => let '(sh', w) := on_open_upstream sh now e (fst lo) id b in (sh', sched, w)
  | SendToBackend d p => on_send_to_backend sh sched d p
  | SendToClient d p => on_send_to_client sh sched d p
  | ArmTimer d => (with_timer sh (Some d), sched, [])
  | CloseFlow id => let '(sh', w) := on_close_flow two_keys sh id in (sh', sched, w)
  | Metric _ | Drop _ => (sh, sched, [])
  end.

(** [drain_outputs]: pop until the queue is empty (handlers may append) *)
Fixpoint drain (two_keys : bool) (fuel : nat) (sh : shell) (sched : list outcome) (now : N) (e : env)
  : shell * list outcome * list wire :=
  match fuel with
  | O => (sh, sched, [])
  | S fuel' =>
    match sh_q sh with
    | [] => (sh, sched, [])
    | lo :: q' =>
      let '(sh1, sched1, w1) := process two_keys (with_mgr_q sh (sh_mgr sh) q') sched now e lo in
      let '(sh2, sched2, w2) := drain two_keys fuel' sh1 sched1 now e in
      (sh2, sched2, w1 ++ w2)
    end
  end.

(** enough for any queue: an output adds at most one manager call, whose outputs
    add at most one more *)
Definition drain_fuel (sh : shell) : nat := 12 * length (sh_q sh) + 12.

Inductive event :=
| EClient (src : addr) (p : list N)            (* one datagram of ingest_client *)
| EUpstream (tok : nat) (p : list N)           (* one datagram of ingest_upstream *)
| EUpWritable (tok : nat)                      (* drain_upstream_queue *)
| EClWritable                                  (* drain_client_queue *)
| ETimer                                       (* timeout(listener_token) *)
| ECloseAll                                    (* close_all_flows *)
| EConfig (i : input).                         (* SetCluster / SetMaxFlows / SetMaxRx / Drain *)

Definition full_drain two_keys sh sched now e :=
  drain two_keys (drain_fuel sh) sh sched now e.

Definition shell_step (two_keys : bool) (sh : shell) (now : N) (e : env) (sched : list outcome) (ev : event)
  : shell * list wire :=
  match ev with
  | EClient src p =>
    let sh1 := call_mgr (with_inflight sh (Some src) None) now (IClient src p) in
    let '(sh2, _, w) := full_drain two_keys sh1 sched now e in
    (with_inflight sh2 None (sh_iff sh2), w)
  | EUpstream tok p =>
    match sock_of_tok (sh_socks sh) tok with
    | None => (sh, [])
    | Some s =>
      let sh1 := call_mgr sh now (IBackend (s_flow s) p) in
      let '(sh2, _, w) := full_drain two_keys sh1 sched now e in (sh2, w)
    end
  | EUpWritable tok =>
    match sock_of_tok (sh_socks sh) tok with
    | None => (sh, [])
    | Some s =>
      match s_q s with
      | None => (sh, [])
      | Some q =>
        let '(rest, sent, _) := wq_drain_items (wq_items q) sched in
        let q' := match rest with [] => None | _ => Some (mkwq rest (wq_cap q)) end in
        (with_socks sh (set_sock (sh_socks sh) (mksock (s_tok s) (s_flow s) (s_backend s) q' (s_inc s) (s_key s))),
         map (fun x => WUp tok (snd x)) sent)
      end
    end
  | EClWritable =>
    let '(rest, sent, _) := wq_drain_items (wq_items (sh_clq sh)) sched in
    (with_clq sh (mkwq rest client_wq_cap), map (fun x => WClient (fst x) (snd x)) sent)
  | ETimer =>
    let sh1 := call_mgr (with_timer sh None) now ITimeout in
    let '(sh2, _, w) := full_drain two_keys sh1 sched now e in (sh2, w)
  | ECloseAll =>
    let sh1 := call_mgr sh now ICloseAll in
    let '(sh2, _, w) := full_drain two_keys sh1 sched now e in (with_timer sh2 None, w)
  | EConfig i =>
    match i with
    | ISetCluster _ | ISetMaxFlows _ | ISetMaxRx _ | IDrain =>
      let sh1 := call_mgr sh now i in
      let '(sh2, _, w) := full_drain two_keys sh1 sched now e in (sh2, w)
    | _ => (sh, [])
    end
  end.

(** a fresh session over a manager; slot 0 of the session slab is the listener *)
Definition shell_new (m : mgr) (address : addr) : shell :=
  mkshell m [] (fst (sinsert sempty tt)) [] [] [] None None (wq_new client_wq_cap) None address 0 0.

End Shell.
