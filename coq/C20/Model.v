(** C20 — executable model of the configuration pipeline

      declaration (what the TOML file says)
        --[load]-->      config      ([FileConfig::load_from_path] duplicate check,
                                      [ConfigBuilder::populate_listeners], [populate_clusters],
                                      the H2 buffer check of [into_config])
        --[config_requests / number]--> numbered requests ([Config::generate_config_messages],
                                      cluster [generate_requests]; the counter's machine width is [M])
        --[dispatch]-->  state       ([ConfigState::dispatch], command/src/state.rs)

    Addresses, ids, hostnames are byte strings ([SocketAddr]'s [Display] form is
    supplied by the declaration); certificates are indices in a pool (their
    fingerprint is an oracle).  Pass-through option fields that no check reads
    travel as opaque token lists ([pay]).  [Config.clusters] is a [HashMap]: the
    iteration order is an explicit list argument, the theorems quantify over
    every permutation.  No proofs in this file. *)
From Coq Require Import List ZArith NArith String Bool.
From SV Require Import Common.Tok C20.Gen.
Import ListNotations.
Open Scope Z_scope.

Definition bytes := list N.

(** * Declaration *)

Record ldecl := mk_ldecl {
  ld_addr : bytes; ld_proto : Z;            (* 0 http 1 https 2 tcp 3 udp, -1 missing, other = unknown word *)
  ld_expect : Z; ld_public : option bytes;  (* -1 absent / 0 / 1 *)
  ld_ft : Z; ld_bt : Z; ld_ct : Z; ld_rt : Z;   (* -1 absent *)
  ld_sticky : option bytes; ld_dh11 : Z;
  ld_hsts : Z; ld_hsts_age : Z;             (* -1 no block, 0/1 enabled, 2 block without [enabled] *)
  ld_max_rx : Z; ld_max_flows : Z;
  ld_cert : Z;                              (* listener-level certificate+key, pool index or -1 *)
  ld_alpn : option (list bytes);
  ld_pay : list tok;
  ld_ext : list tok }.                      (* x_real_ip flags, answers, tls versions, ciphers, tickets: as declared, defaults filled *)

Record fdecl := mk_fdecl {
  fd_addr : bytes; fd_host : option bytes; fd_path : option bytes; fd_kind : Z;
  fd_method : option bytes; fd_cert : Z;    (* pool index, -1 none, -5 unreadable file *)
  fd_key : bool; fd_pos : Z; fd_hsts : Z; fd_hsts_age : Z;
  fd_tags : list tok; fd_pay : list tok }.

Record bdecl := mk_bdecl {
  bd_addr : bytes; bd_weight : Z; bd_id : option bytes; bd_sticky : option bytes; bd_backup : Z }.

Record cdecl := mk_cdecl {
  cd_id : bytes; cd_proto : Z;              (* 0 http, 1 tcp, other unknown *)
  cd_sticky : Z; cd_redirect : Z; cd_send_proxy : Z; cd_lb : Z; cd_lm : Z; cd_http2 : Z;
  cd_hc : bool; cd_hc_uri : option bytes; cd_hc_vals : list Z;
  cd_pay : list tok;
  cd_fronts : list fdecl; cd_backs : list bdecl }.

Record decl := mk_decl {
  d_activate : Z; d_metrics : Z; d_buffer : Z; d_ft : Z; d_bt : Z; d_ct : Z; d_rt : Z;
  d_autosave : bool; d_malformed : bool;
  d_listeners : list ldecl; d_clusters : list cdecl }.

(** * Built objects (what the requests carry and the state stores) *)

Record lst := mk_lst {
  l_kind : Z; l_addr : bytes; l_active : bool; l_expect : bool; l_public : option bytes;
  l_ft : Z; l_bt : Z; l_ct : Z; l_rt : Z; l_sticky : option bytes; l_dh11 : Z;
  l_hsts : Z; l_hsts_age : Z; l_max_rx : Z; l_max_flows : Z; l_cert : Z;
  l_alpn : list bytes; l_pay : list tok; l_ext : list tok }.

Record clu := mk_clu {
  c_id : bytes; c_sticky : bool; c_redirect : bool; c_pp : Z; c_lb : Z; c_lm : Z; c_http2 : Z;
  c_hc : bool; c_hc_uri : option bytes; c_hc_vals : list Z; c_pay : list tok }.

Record front := mk_front {
  f_https : bool; f_addr : bytes; f_host : bytes; f_kind : Z; f_path : bytes; f_method : option bytes;
  f_cluster : bytes; f_pos : Z; f_hsts : Z; f_hsts_age : Z; f_tags : list tok; f_pay : list tok }.

Record tfront := mk_tfront { t_udp : bool; t_cluster : bytes; t_addr : bytes; t_tags : list tok }.

Record backend := mk_backend {
  b_cluster : bytes; b_id : bytes; b_addr : bytes; b_weight : Z; b_sticky : option bytes; b_backup : Z }.

(** one cluster of [Config.clusters]: [cc_hfronts] pairs each HTTP(S) frontend
    with the certificate its [AddCertificate] carries (-1: none is emitted) *)
Record ccfg := mk_ccfg {
  cc_clu : clu; cc_hfronts : list (front * Z); cc_tfronts : list tfront; cc_backs : list backend }.

Record config := mk_config {
  cf_http : list lst; cf_https : list lst; cf_tcp : list lst; cf_udp : list lst;
  cf_clusters : list ccfg; cf_activate : bool; cf_metrics : bool }.

Inductive lerr :=
| EDeserialize | EAddrInUse | EMissing | EIncompatible | EWrongFrontendProtocol | EInvalidFrontendConfig
| EInvalidAlpn | EDisableHttp11 | EBufferSize | EHstsEnabledRequired | EHstsOnPlainHttp | EFileRead
| EInvalidHealthCheck | EDuplicateFrontend | EDuplicateBackend | EInvalidCertificate | EInvalidSozuIdHeader.

Inductive res (A : Type) := Ok (a : A) | Err (e : lerr).
Arguments Ok {A} a.
Arguments Err {A} e.

(** * Small helpers *)

Definition dflt (v d : Z) : Z := if v <? 0 then d else v.
Definition ob (o : option bytes) : tok := match o with Some b => TB b | None => TN (-1) end.
Definition is_some {A} (o : option A) : bool := match o with Some _ => true | None => false end.
Definition memb (x : bytes) (l : list bytes) : bool := existsb (bytes_eqb x) l.
Definition b_h2 : bytes := [104;50]%N.
Definition b_http11 : bytes := [104;116;116;112;47;49;46;49]%N.
Definition pay_len : nat := 8.
Definition blank_pay (n : nat) : list tok := repeat (TN (-1)) n.

Fixpoint dedup (seen : list bytes) (l : list bytes) : list bytes :=
  match l with
  | [] => []
  | x :: l' => if memb x seen then dedup seen l' else x :: dedup (x :: seen) l'
  end.

Fixpoint nodup_bytes (l : list bytes) : bool :=
  match l with
  | [] => true
  | x :: l' => negb (memb x l') && nodup_bytes l'
  end.

Fixpoint dec_aux (fuel : nat) (n : N) (acc : bytes) : bytes :=
  match fuel with
  | O => acc
  | S f => let d := (48 + n mod 10)%N in
           if (n <? 10)%N then d :: acc else dec_aux f (n / 10)%N (d :: acc)
  end.
Definition dec_bytes (n : N) : bytes := dec_aux 40 n [].

(** map keys, as token lists *)
Definition lkey_of (kind : Z) (addr : bytes) : list tok := [TN kind; TB addr].
Definition lkey (l : lst) : list tok := lkey_of (l_kind l) (l_addr l).
Definition ckey (c : clu) : list tok := [TB (c_id c)].
Definition fkey (f : front) : list tok :=
  [tn_bool (f_https f); TB (f_addr f); TB (f_host f); TN (f_kind f); TB (f_path f); ob (f_method f)].
(* one TCP/UDP frontend per (cluster, address), whatever the tags (state.rs since 571342c) *)
Definition tkey (t : tfront) : list tok := [tn_bool (t_udp t); TB (t_cluster t); TB (t_addr t)].
Definition bkey (b : backend) : list tok := [TB (b_cluster b); TB (b_id b); TB (b_addr b)].
Definition certkey (c : bytes * Z) : list tok := [TB (fst c); TN (snd c)].

Definition mem_key (k : list tok) (l : list (list tok)) : bool := existsb (toks_eqb k) l.

Fixpoint nodup_keys (l : list (list tok)) : bool :=
  match l with
  | [] => true
  | k :: l' => negb (existsb (toks_eqb k) l') && nodup_keys l'
  end.

(** * The loader *)

(** [ListenerBuilder::to_tls]: the ALPN list *)
Definition resolve_alpn (l : ldecl) : res (list bytes) :=
  match ld_alpn l with
  | Some (p :: ps) =>
    let protos := p :: ps in
    if negb (forallb (fun x => bytes_eqb x b_h2 || bytes_eqb x b_http11) protos) then Err EInvalidAlpn
    else if (ld_dh11 l =? 1) && memb b_http11 protos then Err EDisableHttp11
    else Ok (dedup [] protos)
  | _ =>
    if (ld_dh11 l =? 1) && memb b_http11 default_alpn then Err EDisableHttp11
    else Ok default_alpn
  end.

(** [validate_sozu_id_header] (state.rs), applied by the loader to the listener's
    [sozu_id_header] (the 8th pass-through knob): a non-empty RFC 9110 token that is not the
    name of a field the proxy owns *)
Definition is_tchar (n : N) : bool :=
  ((48 <=? n) && (n <=? 57) || (65 <=? n) && (n <=? 90) || (97 <=? n) && (n <=? 122))%N || existsb (N.eqb n) sid_tchar_specials.
Definition lower_byte (n : N) : N := if ((65 <=? n) && (n <=? 90))%N then (n + 32)%N else n.
Definition valid_sid (b : bytes) : bool :=
  negb (match b with [] => true | _ => false end) && forallb is_tchar b && negb (memb (map lower_byte b) sid_reserved).
Definition sid_ok (l : ldecl) : bool :=
  match nth 7 (ld_pay l) (TN (-1)) with TB b => valid_sid b | _ => true end.

(** listener-level certificate: pool index (certificate and key), -1 none, -5 a file that cannot
    be read, -6 a file that holds no certificate, <= -100 a certificate without its key *)
Definition listener_cert_check (l : ldecl) : option lerr :=
  if ld_cert l =? -5 then Some EFileRead
  else if ld_cert l =? -6 then Some EInvalidCertificate
  else if ld_cert l <=? -100 then Some EMissing
  else None.

Definition buffer_of (d : decl) : Z := dflt (d_buffer d) default_buffer_size.

(** [to_http] / [to_tls] / [to_tcp] / [to_udp] with [Some(&self.built)] *)
Definition build_listener (d : decl) (l : ldecl) : res lst :=
  let expect := ld_expect l =? 1 in
  let ft := dflt (ld_ft l) (dflt (d_ft d) default_front_timeout) in
  let bt := dflt (ld_bt l) (dflt (d_bt d) default_back_timeout) in
  let ct := dflt (ld_ct l) (dflt (d_ct d) default_connect_timeout) in
  let rt := dflt (ld_rt l) (dflt (d_rt d) default_request_timeout) in
  let sticky := Some (match ld_sticky l with Some s => s | None => default_sticky_name end) in
  if ld_proto l =? 0 then
    if negb (ld_hsts l =? -1) then Err EHstsOnPlainHttp
    else if negb (sid_ok l) then Err EInvalidSozuIdHeader
    else Ok (mk_lst 0 (ld_addr l) false expect (ld_public l) ft bt ct rt sticky (-1) (-1) (-1) (-1) (-1) (-1) [] (ld_pay l) (ld_ext l))
  else if ld_proto l =? 1 then
    match resolve_alpn l with
    | Err e => Err e
    | Ok alpn =>
      match listener_cert_check l with Some e => Err e | None =>
      if negb (sid_ok l) then Err EInvalidSozuIdHeader
      else if ld_hsts l =? 2 then Err EHstsEnabledRequired
      else
        let age := if (ld_hsts l =? 1) && (ld_hsts_age l <? 0) then default_hsts_max_age else ld_hsts_age l in
        let age := if ld_hsts l =? -1 then -1 else age in
        Ok (mk_lst 1 (ld_addr l) false expect (ld_public l) ft bt ct rt sticky (ld_dh11 l) (ld_hsts l) age (-1) (-1)
                   (ld_cert l) alpn (ld_pay l) (ld_ext l))
      end
    end
  else if ld_proto l =? 2 then
    Ok (mk_lst 2 (ld_addr l) false expect (ld_public l) ft bt ct (-1) None (-1) (-1) (-1) (-1) (-1) (-1) []
               (blank_pay (List.length (ld_pay l))) [])
  else
    let rx := dflt (ld_max_rx l) default_udp_max_rx in
    let rx := if buffer_of d <? rx then buffer_of d else rx in
    Ok (mk_lst 3 (ld_addr l) false false (ld_public l)
               (dflt (ld_ft l) default_udp_front_timeout) (dflt (ld_bt l) default_udp_back_timeout) (-1) (-1)
               None (-1) (-1) (-1) rx (dflt (ld_max_flows l) default_udp_max_flows) (-1) []
               (blank_pay (List.length (ld_pay l))) []).

(** [ListenerBuilder::new(address, protocol)] built with the global timeouts *)
Definition default_ldecl (addr : bytes) (proto : Z) : ldecl :=
  mk_ldecl addr proto (-1) None (-1) (-1) (-1) (-1) None (-1) (-1) (-1) (-1) (-1) (-1) None (blank_pay pay_len)
           (if proto =? 0 then default_ext_http else if proto =? 1 then default_ext_https else []).

(** loader state while listeners and clusters are populated *)
Record lstate := mk_lstate {
  ls_known : list (bytes * Z);          (* known_addresses *)
  ls_expect : list bytes;               (* expect_proxy_addresses *)
  ls_http : list lst; ls_https : list lst; ls_tcp : list lst; ls_udp : list lst;
  ls_clusters : list ccfg;
  ls_routes : list (list tok) }.          (* known_routes of populate_clusters *)

Definition known_proto (st : lstate) (a : bytes) : option Z :=
  match find (fun p => bytes_eqb (fst p) a) (ls_known st) with
  | Some p => Some (snd p)
  | None => None
  end.

Definition push_listener (st : lstate) (l : lst) : lstate :=
  let k := (l_addr l, l_kind l) :: ls_known st in
  if l_kind l =? 0 then mk_lstate k (ls_expect st) (ls_http st ++ [l]) (ls_https st) (ls_tcp st) (ls_udp st) (ls_clusters st) (ls_routes st)
  else if l_kind l =? 1 then mk_lstate k (ls_expect st) (ls_http st) (ls_https st ++ [l]) (ls_tcp st) (ls_udp st) (ls_clusters st) (ls_routes st)
  else if l_kind l =? 2 then mk_lstate k (ls_expect st) (ls_http st) (ls_https st) (ls_tcp st ++ [l]) (ls_udp st) (ls_clusters st) (ls_routes st)
  else mk_lstate k (ls_expect st) (ls_http st) (ls_https st) (ls_tcp st) (ls_udp st ++ [l]) (ls_clusters st) (ls_routes st).

Definition add_expect (st : lstate) (a : bytes) : lstate :=
  mk_lstate (ls_known st) (a :: ls_expect st) (ls_http st) (ls_https st) (ls_tcp st) (ls_udp st) (ls_clusters st) (ls_routes st).

Definition add_route (st : lstate) (k : list tok) : lstate :=
  mk_lstate (ls_known st) (ls_expect st) (ls_http st) (ls_https st) (ls_tcp st) (ls_udp st) (ls_clusters st) (ls_routes st ++ [k]).

(** [ConfigBuilder::populate_listeners] *)
Fixpoint populate_listeners (d : decl) (ls : list ldecl) (st : lstate) : res lstate :=
  match ls with
  | [] => Ok st
  | l :: ls' =>
    if is_some (known_proto st (ld_addr l)) then Err EAddrInUse
    else if ld_proto l =? -1 then Err EMissing
    else if is_some (ld_public l) && (ld_expect l =? 1) then Err EIncompatible
    else match build_listener d l with
         | Err e => Err e
         | Ok b =>
           let st1 := push_listener st b in
           let st2 := if ld_expect l =? 1 then add_expect st1 (ld_addr l) else st1 in
           populate_listeners d ls' st2
         end
  end.

(** [FileClusterConfig::to_cluster_config], TCP arm: the expect_proxy agreement
    check comes before [to_tcp_front] of the same frontend, the duplicate check after it *)
Definition tkey0 (t : tfront) : list tok := [TB (t_cluster t); TB (t_addr t)].

Fixpoint tcp_fronts_conv (expects : list bytes) (has : option bool) (cid : bytes) (seen : list (list tok)) (fs : list fdecl)
  : res (list tfront * option bool) :=
  match fs with
  | [] => Ok ([], has)
  | f :: fs' =>
    let e := memb (fd_addr f) expects in
    let agree := match has with Some h => Bool.eqb h e | None => true end in
    if negb agree then Err EIncompatible
    else if is_some (fd_host f) || is_some (fd_path f) || negb (fd_cert f =? -1) then Err EInvalidFrontendConfig
    else
      let t := mk_tfront false cid (fd_addr f) (fd_tags f) in
      if mem_key (tkey0 t) seen then Err EDuplicateFrontend
      else match tcp_fronts_conv expects (match has with Some h => Some h | None => Some e end) cid (tkey0 t :: seen) fs' with
           | Err x => Err x
           | Ok (ts, h') => Ok (t :: ts, h')
           end
  end.

(** [FileClusterFrontendConfig::to_http_front]; the result keeps the declared
    certificate next to the frontend ([f_https] is decided later) *)
Definition http_front_conv (cid : bytes) (f : fdecl) : res (front * Z * bool) :=
  match fd_host f with
  | None => Err EMissing
  | Some host =>
    if fd_cert f =? -5 then Err EFileRead
    else if fd_cert f =? -6 then Err EInvalidCertificate
    else if negb (Bool.eqb (fd_key f) (negb (fd_cert f =? -1))) then Err EMissing   (* certificate and key come together *)
    else
      let kind := match fd_path f with None => 0 | Some _ => dflt (fd_kind f) 0 end in
      let path := match fd_path f with None => [] | Some p => p end in
      let serves_https := fd_key f && negb (fd_cert f =? -1) in
      if negb (fd_hsts f =? -1) && negb serves_https then Err EHstsOnPlainHttp
      else if fd_hsts f =? 2 then Err EHstsEnabledRequired
      else
        let age := if (fd_hsts f =? 1) && (fd_hsts_age f <? 0) then default_hsts_max_age else fd_hsts_age f in
        let age := if fd_hsts f =? -1 then -1 else age in
        Ok (mk_front false (fd_addr f) host kind path (fd_method f) cid (dflt (fd_pos f) 0) (fd_hsts f) age
                     (fd_tags f) (fd_pay f), fd_cert f, fd_key f)
  end.

Fixpoint http_fronts_conv (cid : bytes) (fs : list fdecl) : res (list (front * Z * bool)) :=
  match fs with
  | [] => Ok []
  | f :: fs' =>
    match http_front_conv cid f with
    | Err e => Err e
    | Ok x => match http_fronts_conv cid fs' with Err e => Err e | Ok xs => Ok (x :: xs) end
    end
  end.

Definition set_https (f : front) (b : bool) : front :=
  mk_front b (f_addr f) (f_host f) (f_kind f) (f_path f) (f_method f) (f_cluster f) (f_pos f) (f_hsts f) (f_hsts_age f)
           (f_tags f) (f_pay f).

(** [populate_clusters], HTTP arm: resolve each frontend against the known addresses *)
Fixpoint resolve_http (d : decl) (fs : list (front * Z * bool)) (st : lstate) : res (list (front * Z) * lstate) :=
  match fs with
  | [] => Ok ([], st)
  | (f, cert, key) :: fs' =>
    let finish (cert' : Z) (key' : bool) (st' : lstate) :=
      let https := key' && negb (cert' =? -1) in
      if mem_key (fkey (set_https f https)) (ls_routes st') then Err EDuplicateFrontend
      else
      match resolve_http d fs' (add_route st' (fkey (set_https f https))) with
      | Err e => Err e
      | Ok (xs, st'') => Ok ((set_https f https, if https then cert' else -1) :: xs, st'')
      end in
    match known_proto st (f_addr f) with
    | Some p =>
      if (p =? 2) || (p =? 3) then Err EWrongFrontendProtocol
      else if p =? 0 then (if negb (cert =? -1) then Err EWrongFrontendProtocol else finish cert key st)
      else (* https listener *)
        if negb (cert =? -1) then finish cert key st
        else match find (fun l => bytes_eqb (l_addr l) (f_addr f) && negb (l_cert l =? -1)) (ls_https st) with
             | Some l => finish (l_cert l) true st
             | None => Err EWrongFrontendProtocol
             end
    | None =>
      let proto := if negb (cert =? -1) then 1 else 0 in
      match build_listener d (default_ldecl (f_addr f) proto) with
      | Err e => Err e
      | Ok l => finish cert key (push_listener st l)
      end
    end
  end.

(** [populate_clusters], TCP arm.  [stream_address_owners] (TCP/UDP address -> the cluster
    that declared it) is read off the clusters populated so far; the frontends of the cluster
    being populated are its own *)
Definition owned_by_other (st : lstate) (cid a : bytes) : bool :=
  existsb (fun cc => existsb (fun t => bytes_eqb (t_addr t) a && negb (bytes_eqb (t_cluster t) cid)) (cc_tfronts cc))
          (ls_clusters st).

Fixpoint resolve_tcp (d : decl) (ts : list tfront) (st : lstate) : res (list tfront * lstate) :=
  match ts with
  | [] => Ok ([], st)
  | t :: ts' =>
    let finish (udp : bool) (st' : lstate) :=
      match resolve_tcp d ts' st' with
      | Err e => Err e
      | Ok (xs, st'') => Ok (mk_tfront udp (t_cluster t) (t_addr t) (t_tags t) :: xs, st'')
      end in
    if owned_by_other st (t_cluster t) (t_addr t) then Err EDuplicateFrontend else
    match known_proto st (t_addr t) with
    | Some p =>
      if (p =? 0) || (p =? 1) then Err EWrongFrontendProtocol
      else finish (p =? 3) st
    | None =>
      match build_listener d (default_ldecl (t_addr t) 2) with
      | Err e => Err e
      | Ok l => finish false (push_listener st l)
      end
    end
  end.

Fixpoint build_backends (cid : bytes) (i : N) (bs : list bdecl) : list backend :=
  match bs with
  | [] => []
  | b :: bs' =>
    let id := match bd_id b with
              | Some s => s
              | None => cid ++ [45%N] ++ dec_bytes i ++ [45%N] ++ bd_addr b
              end in
    mk_backend cid id (bd_addr b) (dflt (bd_weight b) default_weight) (bd_sticky b) (bd_backup b)
    :: build_backends cid (i + 1)%N bs'
  end.

Definition hc_defaults : list Z := [10; 5; 3; 3; 0].
Fixpoint hc_fill (vs ds : list Z) : list Z :=
  match vs, ds with
  | v :: vs', d :: ds' => dflt v d :: hc_fill vs' ds'
  | _, _ => []
  end.

Definition build_clu (c : cdecl) (pp : Z) : clu :=
  let http := cd_proto c =? 0 in
  mk_clu (cd_id c) (http && (cd_sticky c =? 1)) (http && (cd_redirect c =? 1)) pp (dflt (cd_lb c) 0) (cd_lm c)
         (if http then cd_http2 c else -1)
         (cd_hc c) (if cd_hc c then cd_hc_uri c else None)
         (if cd_hc c then hc_fill (cd_hc_vals c) hc_defaults else [-1; -1; -1; -1; -1])
         (cd_pay c).

(** [validate_health_check_config] *)
Definition hc_valid (c : clu) : bool :=
  negb (c_hc c)
  || (forallb (fun v => 0 <? v) (firstn 4 (c_hc_vals c))
      && match c_hc_uri c with
         | Some (47%N :: rest) => forallb (fun b => (32 <=? b)%N || (b =? 9)%N) rest
         | _ => false
         end).

Definition add_cluster_cfg (st : lstate) (c : ccfg) : lstate :=
  mk_lstate (ls_known st) (ls_expect st) (ls_http st) (ls_https st) (ls_tcp st) (ls_udp st) (ls_clusters st ++ [c]) (ls_routes st).

Definition populate_cluster (d : decl) (c : cdecl) (st : lstate) : res lstate :=
  if negb (hc_valid (build_clu c (-1))) then Err EInvalidHealthCheck
  else if negb (nodup_keys (map bkey (build_backends (cd_id c) 0 (cd_backs c)))) then Err EDuplicateBackend
  else if cd_proto c =? 1 then
    match tcp_fronts_conv (ls_expect st) None (cd_id c) [] (cd_fronts c) with
    | Err e => Err e
    | Ok (ts, has) =>
      let send := cd_send_proxy c =? 1 in
      let expect := match has with Some true => true | _ => false end in
      let pp := if send then (if expect then 2 else 1) else (if expect then 0 else -1) in
      match resolve_tcp d ts st with
      | Err e => Err e
      | Ok (ts', st') =>
        Ok (add_cluster_cfg st' (mk_ccfg (build_clu c pp) [] ts' (build_backends (cd_id c) 0 (cd_backs c))))
      end
    end
  else
    match http_fronts_conv (cd_id c) (cd_fronts c) with
    | Err e => Err e
    | Ok fs =>
      match resolve_http d fs st with
      | Err e => Err e
      | Ok (fs', st') =>
        Ok (add_cluster_cfg st' (mk_ccfg (build_clu c (-1)) fs' [] (build_backends (cd_id c) 0 (cd_backs c))))
      end
    end.

Fixpoint populate_clusters (d : decl) (cs : list cdecl) (st : lstate) : res lstate :=
  match cs with
  | [] => Ok st
  | c :: cs' =>
    match populate_cluster d c st with
    | Err e => Err e
    | Ok st' => populate_clusters d cs' st'
    end
  end.

Definition known_lproto (p : Z) : bool := (p =? -1) || (p =? 0) || (p =? 1) || (p =? 2) || (p =? 3).
Definition known_cproto (p : Z) : bool := (p =? 0) || (p =? 1).

(** what toml/serde rejects: unknown protocol words, two tables with one cluster id, anything malformed *)
Definition parses (d : decl) : bool :=
  negb (d_malformed d)
  && forallb (fun l => known_lproto (ld_proto l)) (d_listeners d)
  && forallb (fun c => known_cproto (cd_proto c)) (d_clusters d)
  && nodup_bytes (map cd_id (d_clusters d)).

Definition has_h2 (l : lst) : bool := memb b_h2 (l_alpn l).

(** [Config::load_from_path]: [order] is the iteration order of the clusters [HashMap] *)
Definition load_in (d : decl) (order : list cdecl) : res config :=
  if negb (parses d) then Err EDeserialize
  else if negb (nodup_bytes (map ld_addr (d_listeners d))) then Err EAddrInUse
  else match populate_listeners d (d_listeners d) (mk_lstate [] [] [] [] [] [] [] []) with
       | Err e => Err e
       | Ok st =>
         match populate_clusters d order st with
         | Err e => Err e
         | Ok st' =>
           if existsb has_h2 (ls_https st') && (buffer_of d <? h2_min_buffer_size) then Err EBufferSize
           else if d_autosave d then Err EMissing
           else Ok (mk_config (ls_http st') (ls_https st') (ls_tcp st') (ls_udp st') (ls_clusters st')
                              (negb (d_activate d =? 0)) (d_metrics d =? 1))
         end
       end.

Definition load (d : decl) : res config := load_in d (d_clusters d).

(** * Requests *)

Inductive request :=
| RAddListener (l : lst)
| RAddCluster (c : clu)
| RAddFront (f : front)
| RAddCert (addr : bytes) (fp : Z)
| RAddTFront (t : tfront)
| RAddBackend (b : backend)
| RActivate (kind : Z) (addr : bytes)
| RMetrics.

(** [HttpFrontendConfig::generate_requests] *)
Definition front_requests (x : front * Z) : list request :=
  let '(f, cert) := x in
  if f_https f then [RAddCert (f_addr f) cert; RAddFront f] else [RAddFront f].

(** [HttpClusterConfig::generate_requests] / [TcpClusterConfig::generate_requests] *)
Definition cluster_requests (c : ccfg) : list request :=
  RAddCluster (cc_clu c)
  :: flat_map front_requests (cc_hfronts c) ++ map RAddTFront (cc_tfronts c) ++ map RAddBackend (cc_backs c).

Definition all_listeners (cf : config) : list lst := cf_http cf ++ cf_https cf ++ cf_tcp cf ++ cf_udp cf.

(** [Config::generate_config_messages], contents; [order] = [self.clusters.values()] *)
Definition config_requests (cf : config) (order : list ccfg) : list request :=
  map RAddListener (all_listeners cf)
  ++ flat_map cluster_requests order
  ++ (if cf_activate cf then map (fun l => RActivate (l_kind l) (l_addr l)) (all_listeners cf) else [])
  ++ (if cf_metrics cf then [RMetrics] else []).

(** the [count] variable: [M] = 2^bits of its type; release builds wrap *)
Fixpoint number_from (M : Z) (count : Z) (rs : list request) : list (Z * request) :=
  match rs with
  | [] => []
  | r :: rs' => (count, r) :: number_from M ((count + 1) mod M) rs'
  end.
Definition number (M : Z) (rs : list request) : list (Z * request) := number_from M 0 rs.

(** checked builds: [count += 1] after every message but the metrics one panics when it overflows *)
Definition increments (cf : config) (order : list ccfg) : Z :=
  Z.of_nat (List.length (config_requests cf order)) - (if cf_metrics cf then 1 else 0).
Definition checked_panics (M : Z) (cf : config) (order : list ccfg) : bool := M <=? increments cf order.

Definition counter_mod : Z := 2 ^ counter_bits.

(** * ConfigState *)

Record state := mk_state {
  s_listeners : list lst; s_clusters : list clu; s_fronts : list front; s_tfronts : list tfront;
  s_backends : list backend; s_certs : list (bytes * Z) }.

Definition empty_state : state := mk_state [] [] [] [] [] [].

Inductive dres := DOk | DExists | DNotFound | DInvalid.

Definition has {A} (key : A -> list tok) (k : list tok) (l : list A) : bool :=
  existsb (fun y => toks_eqb (key y) k) l.

(** insert, rejecting a duplicate key (listeners, HTTP(S) and TCP/UDP frontends) *)
Definition add_new {A} (key : A -> list tok) (x : A) (l : list A) : list A * dres :=
  if has key (key x) l then (l, DExists) else (l ++ [x], DOk).

(** upsert (clusters, backends) *)
Definition replace_key {A} (key : A -> list tok) (x : A) (l : list A) : list A :=
  map (fun y => if toks_eqb (key y) (key x) then x else y) l.
Definition upsert {A} (key : A -> list tok) (x : A) (l : list A) : list A * dres :=
  if has key (key x) l then (replace_key key x l, DOk) else (l ++ [x], DOk).

(** insert unless present, never an error (certificates) *)
Definition add_skip {A} (key : A -> list tok) (x : A) (l : list A) : list A * dres :=
  if has key (key x) l then (l, DOk) else (l ++ [x], DOk).

Definition set_active (l : lst) : lst :=
  mk_lst (l_kind l) (l_addr l) true (l_expect l) (l_public l) (l_ft l) (l_bt l) (l_ct l) (l_rt l) (l_sticky l) (l_dh11 l)
         (l_hsts l) (l_hsts_age l) (l_max_rx l) (l_max_flows l) (l_cert l) (l_alpn l) (l_pay l) (l_ext l).

Definition activate (k : list tok) (l : list lst) : list lst * dres :=
  if has lkey k l then (map (fun y => if toks_eqb (lkey y) k then set_active y else y) l, DOk)
  else (l, DNotFound).

(** [ConfigState::add_tcp_frontend] / [add_udp_frontend]: a TCP (UDP) address bound to
    another cluster takes no frontend of this one *)
Definition bound_elsewhere (t : tfront) (l : list tfront) : bool :=
  existsb (fun y => Bool.eqb (t_udp y) (t_udp t) && bytes_eqb (t_addr y) (t_addr t)
                    && negb (bytes_eqb (t_cluster y) (t_cluster t))) l.

(** [ConfigState::dispatch] *)
Definition dispatch (s : state) (r : request) : state * dres :=
  match r with
  | RAddListener l =>
    let '(x, d) := add_new lkey l (s_listeners s) in
    (mk_state x (s_clusters s) (s_fronts s) (s_tfronts s) (s_backends s) (s_certs s), d)
  | RAddCluster c =>
    if hc_valid c then
      let '(x, d) := upsert ckey c (s_clusters s) in
      (mk_state (s_listeners s) x (s_fronts s) (s_tfronts s) (s_backends s) (s_certs s), d)
    else (s, DInvalid)
  | RAddFront f =>
    let '(x, d) := add_new fkey f (s_fronts s) in
    (mk_state (s_listeners s) (s_clusters s) x (s_tfronts s) (s_backends s) (s_certs s), d)
  | RAddCert a fp =>
    let '(x, d) := add_skip certkey (a, fp) (s_certs s) in
    (mk_state (s_listeners s) (s_clusters s) (s_fronts s) (s_tfronts s) (s_backends s) x, d)
  | RAddTFront t =>
    if bound_elsewhere t (s_tfronts s) then (s, DExists) else
    let '(x, d) := add_new tkey t (s_tfronts s) in
    (mk_state (s_listeners s) (s_clusters s) (s_fronts s) x (s_backends s) (s_certs s), d)
  | RAddBackend b =>
    let '(x, d) := upsert bkey b (s_backends s) in
    (mk_state (s_listeners s) (s_clusters s) (s_fronts s) (s_tfronts s) x (s_certs s), d)
  | RActivate k a =>
    let '(x, d) := activate (lkey_of k a) (s_listeners s) in
    (mk_state x (s_clusters s) (s_fronts s) (s_tfronts s) (s_backends s) (s_certs s), d)
  | RMetrics => (s, DOk)
  end.

Fixpoint apply_all (rs : list request) (s : state) : state * list dres :=
  match rs with
  | [] => (s, [])
  | r :: rs' =>
    let '(s1, d) := dispatch s r in
    let '(s2, ds) := apply_all rs' s1 in
    (s2, d :: ds)
  end.
