(** C03 — token interface of the model for the correspondence check. *)
From Coq Require Import List ZArith NArith String Bool.
From SV Require Import Common.Tok C13.Model C03.Model.
Import ListNotations.
Open Scope string_scope.
Open Scope list_scope.

Definition summary (s : list N) : list tok :=
  match strict_h1 s with
  | None => [TS "S"; TS "bad"]
  | Some l =>
    TS "S" :: tn_nat (List.length l) ::
    flat_map (fun r => [TB (rq_method r); TB (rq_target r); TB (rq_host r);
                        tn_nat (List.length (rq_headers r)); tn_nat (List.length (rq_body r));
                        tn_nat (List.length (rq_trailers r))]) l
  end.

Fixpoint pairs (ts : list tok) : list header :=
  match ts with
  | TB k :: TB v :: t => (k, v) :: pairs t
  | _ => []
  end.

(** the body the driver appends after the head so that the message is complete *)
Definition tail_of (a : accepted) (es : bool) : list N :=
  if es then []
  else match values_of (B "content-length") (headers_of (a_items a)) with
       | c :: _ => if (4096 <? dec_value 0 c)%N then [] else repeat 120%N (N.to_nat (dec_value 0 c))
       | [] => B "0" ++ crlf ++ crlf
       end.

Definition step_op (op : list tok) : list tok :=
  match op with
  | TS name :: args =>
    if name =? "h2" then
      match args with
      | TN es :: kv =>
        let e := Z.eqb es 1 in
        match accept_h2 (pairs kv) e with
        | Reject => [TS "reject"]
        | Accept a => let bytes := serialize_h1 a in
                      [TS "accept"; TB bytes] ++ summary (bytes ++ tail_of a e)
        end
      | _ => [TS "badop"] end
    else if name =? "h1" then
      match args with [TB raw] => summary raw | _ => [TS "badop"] end
    else if name =? "guard" then
      match args with
      | TB m :: kv => [TS (if h1_guard m (pairs kv) then "forward" else "refuse")]
      | _ => [TS "badop"] end
    else if name =? "cuts" then []
    else [TS "badop"]
  | _ => [TS "badop"]
  end.

Definition run_case (ops : list (list tok)) : list (list tok) := map step_op ops.
