//! C18 driver: the real PROXY-v2 codec, and the real `ExpectProxyProtocol`,
//! `SendProxyProtocol`, `RelayProxyProtocol` and `Pipe` states driven
//! in-process.  The frontend is a scripted `SocketHandler` (exact control of
//! every read chunk and write window); the backend is the real
//! `mio::net::TcpStream` type wrapping one end of an AF_UNIX stream pair
//! (synchronous delivery, so what the session sees is deterministic).  The
//! readiness loop is the one of `TcpSession::ready_inner` (lib/src/tcp.rs),
//! replicated here because `TcpSession::new` is private; its call order is
//! tied to the source by the translator in props/c18.py.
use std::{
    cell::RefCell,
    collections::VecDeque,
    io::{Read, Write},
    net::{Ipv4Addr, Ipv6Addr, SocketAddr, SocketAddrV4, SocketAddrV6},
    os::unix::{
        io::{FromRawFd, IntoRawFd, RawFd},
        net::UnixStream,
    },
    rc::Rc,
    time::Duration,
};

use mio::{net::TcpStream as MioTcp, Token};
use sozu_command_lib::{proto::command::TcpListenerConfig, ready::Ready};
use sozu_lib::{
    pool::Pool,
    protocol::{
        pipe::{Pipe, WebSocketContext},
        proxy_protocol::{
            expect::ExpectProxyProtocol,
            header::{Command, HeaderV2, ProxyAddr},
            parser::parse_v2_header,
            relay::RelayProxyProtocol,
            send::SendProxyProtocol,
        },
    },
    socket::{SocketHandler, SocketResult, TransportProtocol},
    tcp::TcpListener,
    timer::TimeoutContainer,
    BackendConnectionStatus, Protocol, Readiness, SessionMetrics, SessionResult,
};
use verif_harness::*;

// ---------------------------------------------------------------------------
// scripted frontend socket

#[derive(Default)]
struct Sock {
    inq: VecDeque<u8>,
    eof: bool,
    rerr: bool,
    /// None = unlimited write window
    wcap: Option<usize>,
    wclosed: bool,
    out: Vec<u8>,
    taken: Vec<u8>,
}

struct MockFront {
    s: Rc<RefCell<Sock>>,
    tcp: MioTcp,
}

impl SocketHandler for MockFront {
    fn socket_read(&mut self, buf: &mut [u8]) -> (usize, SocketResult) {
        let mut s = self.s.borrow_mut();
        let n = buf.len().min(s.inq.len());
        for b in buf.iter_mut().take(n) {
            let x = s.inq.pop_front().unwrap();
            *b = x;
            s.taken.push(x);
        }
        if n == buf.len() {
            (n, SocketResult::Continue)
        } else if s.rerr {
            (n, SocketResult::Error)
        } else if s.eof {
            (n, SocketResult::Closed)
        } else {
            (n, SocketResult::WouldBlock)
        }
    }
    fn socket_write(&mut self, buf: &[u8]) -> (usize, SocketResult) {
        let mut s = self.s.borrow_mut();
        if s.wclosed {
            return (0, SocketResult::Closed);
        }
        let n = match s.wcap {
            None => buf.len(),
            Some(c) => c.min(buf.len()),
        };
        s.out.extend_from_slice(&buf[..n]);
        if let Some(c) = s.wcap.as_mut() {
            *c -= n;
        }
        if n == buf.len() {
            (n, SocketResult::Continue)
        } else {
            (n, SocketResult::WouldBlock)
        }
    }
    fn socket_write_vectored(&mut self, bufs: &[std::io::IoSlice]) -> (usize, SocketResult) {
        let all: Vec<u8> = bufs.iter().flat_map(|b| b.to_vec()).collect();
        self.socket_write(&all)
    }
    fn socket_ref(&self) -> &MioTcp {
        &self.tcp
    }
    fn socket_mut(&mut self) -> &mut MioTcp {
        &mut self.tcp
    }
    fn protocol(&self) -> TransportProtocol {
        TransportProtocol::Tcp
    }
    fn read_error(&self) {}
    fn write_error(&self) {}
}

// a real connected TCP socket (for socket_ref / the addresses of `send`)
thread_local! {
    static L4: std::net::TcpListener = std::net::TcpListener::bind("127.0.0.1:0").unwrap();
    static L6: Option<std::net::TcpListener> = std::net::TcpListener::bind("[::1]:0").ok();
}

fn tcp_pair(v6: bool) -> (MioTcp, std::net::TcpStream) {
    let go = |l: &std::net::TcpListener| {
        let c = std::net::TcpStream::connect(l.local_addr().unwrap()).unwrap();
        let (a, _) = l.accept().unwrap();
        a.set_nonblocking(true).unwrap();
        (MioTcp::from_std(a), c)
    };
    if v6 {
        if let Some(p) = L6.with(|l| l.as_ref().map(go)) {
            return p;
        }
    }
    L4.with(go)
}

// ---------------------------------------------------------------------------

enum Sess {
    Expect(ExpectProxyProtocol<MockFront>),
    Send(SendProxyProtocol<MockFront>),
    Relay(RelayProxyProtocol<MockFront>),
    Pipe(Pipe<MockFront, TcpListener>),
    Closed,
}

struct Env {
    sess: Sess,
    fs: Rc<RefCell<Sock>>,
    _client: std::net::TcpStream,
    pool: Pool,
    listener: Rc<RefCell<TcpListener>>,
    metrics: SessionMetrics,
    /// backend: the socket handed to the session once "connected", the peer end, a dup for ioctl/stuffing
    back_sock: Option<MioTcp>,
    peer: Option<UnixStream>,
    dupfd: RawFd,
    back_written: Vec<u8>, // what the peer wrote toward the session
    back_got: Vec<u8>,     // what the peer received from the session
    back_got_reported: usize,
    front_out_reported: usize,
    junk: usize,
    blocked: bool,
    peer_eof: bool,
    peer_closed: bool,
    front_eof: bool,
    close_cause_error: bool,
    mode: String,
    /// send mode: the header the model expects (fixed dummy addresses of the socket's family)
    canon_hdr: Vec<u8>,
    front_sent: Vec<u8>,
    peer_saw_fin: bool,
}

fn rd(r: &Readiness) -> (Tok, Tok) {
    (tn(r.interest.0), tn(r.event.0))
}

fn res_name(r: SessionResult) -> &'static str {
    match r {
        SessionResult::Close => "close",
        SessionResult::Continue => "cont",
        SessionResult::Upgrade => "upgrade",
    }
}

fn addr_toks(a: &Option<ProxyAddr>) -> Vec<Tok> {
    match a {
        None => vec![ts("none")],
        Some(ProxyAddr::AfUnspec) => vec![ts("unspec")],
        Some(ProxyAddr::Ipv4Addr { src_addr, dst_addr }) => vec![
            ts("v4"),
            tb(&src_addr.ip().octets()),
            tb(&dst_addr.ip().octets()),
            tn(src_addr.port()),
            tn(dst_addr.port()),
        ],
        Some(ProxyAddr::Ipv6Addr { src_addr, dst_addr }) => vec![
            ts("v6"),
            tb(&src_addr.ip().octets()),
            tb(&dst_addr.ip().octets()),
            tn(src_addr.port()),
            tn(dst_addr.port()),
        ],
        Some(ProxyAddr::UnixAddr { src_addr, dst_addr }) => vec![ts("unix"), tb(src_addr), tb(dst_addr)],
    }
}

fn mk_addr(kind: i128, src: &[u8], dst: &[u8], sp: u16, dp: u16) -> ProxyAddr {
    match kind {
        4 => ProxyAddr::Ipv4Addr {
            src_addr: SocketAddrV4::new(Ipv4Addr::new(src[0], src[1], src[2], src[3]), sp),
            dst_addr: SocketAddrV4::new(Ipv4Addr::new(dst[0], dst[1], dst[2], dst[3]), dp),
        },
        6 => {
            let mut a = [0u8; 16];
            let mut b = [0u8; 16];
            a.copy_from_slice(src);
            b.copy_from_slice(dst);
            ProxyAddr::Ipv6Addr {
                src_addr: SocketAddrV6::new(Ipv6Addr::from(a), sp, 0, 0),
                dst_addr: SocketAddrV6::new(Ipv6Addr::from(b), dp, 0, 0),
            }
        }
        1 => {
            let mut a = [0u8; 108];
            let mut b = [0u8; 108];
            a.copy_from_slice(src);
            b.copy_from_slice(dst);
            ProxyAddr::UnixAddr { src_addr: a, dst_addr: b }
        }
        _ => ProxyAddr::AfUnspec,
    }
}

fn sockaddr(ip: &[u8], port: u16) -> SocketAddr {
    if ip.len() == 4 {
        SocketAddr::V4(SocketAddrV4::new(Ipv4Addr::new(ip[0], ip[1], ip[2], ip[3]), port))
    } else {
        let mut a = [0u8; 16];
        a.copy_from_slice(ip);
        SocketAddr::V6(SocketAddrV6::new(Ipv6Addr::from(a), port, 0, 0))
    }
}

const SIG: [u8; 12] = [0x0D, 0x0A, 0x0D, 0x0A, 0x00, 0x0D, 0x0A, 0x51, 0x55, 0x49, 0x54, 0x0A];

/// independent (hand-written) check of what a v2 header must look like
fn ref_header(cmd: u8, src: SocketAddr, dst: SocketAddr) -> Vec<u8> {
    let mut v = SIG.to_vec();
    v.push(0x20 | cmd);
    match (src, dst) {
        (SocketAddr::V4(s), SocketAddr::V4(d)) => {
            v.extend_from_slice(&[0x11, 0, 12]);
            v.extend_from_slice(&s.ip().octets());
            v.extend_from_slice(&d.ip().octets());
            v.extend_from_slice(&s.port().to_be_bytes());
            v.extend_from_slice(&d.port().to_be_bytes());
        }
        (SocketAddr::V6(s), SocketAddr::V6(d)) => {
            v.extend_from_slice(&[0x21, 0, 36]);
            v.extend_from_slice(&s.ip().octets());
            v.extend_from_slice(&d.ip().octets());
            v.extend_from_slice(&s.port().to_be_bytes());
            v.extend_from_slice(&d.port().to_be_bytes());
        }
        _ => v.extend_from_slice(&[0x00, 0, 0]),
    }
    v
}

/// Independent reading of the PROXY v2 wire format (written from the specification, not from the
/// code under test and not from the Coq model).
#[derive(Debug, PartialEq)]
enum RefParse {
    /// a proper prefix of something that can still become a valid header
    Short,
    /// can never become a valid header
    Bad,
    /// the declared block is shorter than the address family needs (verdict left open)
    Odd,
    /// complete: consumed, command bit, family byte, (src, dst, sport, dport) when an address family is present
    Full(usize, u8, u8, Option<(Vec<u8>, Vec<u8>, u16, u16)>),
}

fn ref_parse(i: &[u8]) -> RefParse {
    let n = i.len().min(12);
    if i[..n] != SIG[..n] {
        return RefParse::Bad;
    }
    if i.len() < 13 {
        return RefParse::Short;
    }
    if i[12] != 0x20 && i[12] != 0x21 {
        return RefParse::Bad;
    }
    if i.len() < 14 {
        return RefParse::Short;
    }
    let fam = i[13];
    if (fam >> 4) > 2 {
        // rejected as soon as the block is complete; before that the verdict may still be "incomplete"
        if i.len() < 16 {
            return RefParse::Short;
        }
        let l = (i[14] as usize) << 8 | i[15] as usize;
        return if i.len() < 16 + l { RefParse::Odd } else { RefParse::Bad };
    }
    if i.len() < 16 {
        return RefParse::Short;
    }
    let l = (i[14] as usize) << 8 | i[15] as usize;
    let need = match fam >> 4 { 1 => 12, 2 => 36, _ => 0 };
    if l < need {
        return RefParse::Odd;
    }
    if i.len() < 16 + l {
        return RefParse::Short;
    }
    let a = match fam >> 4 {
        1 => Some((i[16..20].to_vec(), i[20..24].to_vec(), u16::from_be_bytes([i[24], i[25]]), u16::from_be_bytes([i[26], i[27]]))),
        2 => Some((i[16..32].to_vec(), i[32..48].to_vec(), u16::from_be_bytes([i[48], i[49]]), u16::from_be_bytes([i[50], i[51]]))),
        _ => None,
    };
    RefParse::Full(16 + l, i[12] & 1, fam, a)
}

fn codec_op(op: &Op, out: &mut Out) {
    let a = &op.args;
    match op.name.as_str() {
        // enc <via_new> <cmd> <family> <kind> <src> <dst> <sport> <dport>
        "enc" => {
            let via_new = a[0].n() == 1;
            let cmd = if a[1].n() == 1 { Command::Proxy } else { Command::Local };
            let (kind, src, dst, sp, dp) = (a[3].n(), a[4].b(), a[5].b(), a[6].n() as u16, a[7].n() as u16);
            let h = if via_new {
                HeaderV2::new(cmd, sockaddr(src, sp), sockaddr(dst, dp))
            } else {
                HeaderV2 { command: cmd, family: a[2].n() as u8, addr: mk_addr(kind, src, dst, sp, dp) }
            };
            let bytes = h.into_bytes();
            if via_new {
                let r = ref_header(a[1].n() as u8, sockaddr(src, sp), sockaddr(dst, dp));
                if r != bytes {
                    out.viol("codec", &format!("HeaderV2::new(..).into_bytes() = {:02x?}, the v2 wire format is {:02x?}", bytes, r));
                }
                match parse_v2_header(&bytes) {
                    Ok((rest, h2)) if rest.is_empty() && h2 == h => {}
                    other => out.viol("codec", &format!("a generated header does not parse back to itself: {:?}", other.map(|(r, h)| (r.len(), h)))),
                }
            }
            out.obs(&[tb(&bytes), tn(h.len())]);
        }
        "parse" => {
            let i = a[0].b();
            let reference = ref_parse(i);
            let real = parse_v2_header(i);
            let agree = match (&reference, &real) {
                (RefParse::Odd, _) => true,
                (RefParse::Short, Err(nom::Err::Incomplete(_))) => true,
                (RefParse::Bad, Err(nom::Err::Error(_))) | (RefParse::Bad, Err(nom::Err::Failure(_))) => true,
                (RefParse::Full(consumed, cmd, fam, addr), Ok((rest, h))) => {
                    let got_addr = match &h.addr {
                        ProxyAddr::Ipv4Addr { src_addr, dst_addr } => Some((src_addr.ip().octets().to_vec(), dst_addr.ip().octets().to_vec(), src_addr.port(), dst_addr.port())),
                        ProxyAddr::Ipv6Addr { src_addr, dst_addr } => Some((src_addr.ip().octets().to_vec(), dst_addr.ip().octets().to_vec(), src_addr.port(), dst_addr.port())),
                        _ => None,
                    };
                    i.len() - rest.len() == *consumed && *rest == &i[*consumed..]
                        && (matches!(h.command, Command::Proxy) as u8) == *cmd && h.family == *fam && got_addr == *addr
                }
                _ => false,
            };
            if !agree {
                out.viol(
                    "codec-verdict",
                    &format!(
                        "parse_v2_header on {} byte(s) {:02x?}: the wire format says {:?}, the parser says {}",
                        i.len(), &i[..i.len().min(20)], reference,
                        match &real { Ok((r, h)) => format!("Ok(rest {} bytes, {:?})", r.len(), h), Err(nom::Err::Incomplete(_)) => "Incomplete".to_string(), Err(_) => "Error".to_string() }
                    ),
                );
            }
            match real {
                Ok((rest, h)) => {
                    let consumed = i.len() - rest.len();
                    let declared = 16 + ((i[14] as usize) << 8 | i[15] as usize);
                    if consumed != declared || i[..12] != SIG || (i[12] != 0x20 && i[12] != 0x21) || (i[13] >> 4) > 2 {
                        out.viol("codec", &format!("accepted header: consumed {consumed}, declared {declared}, ver/cmd {:02x}, family {:02x}", i[12], i[13]));
                    }
                    let mut t = vec![ts("ok"), tn(consumed), tn(matches!(h.command, Command::Proxy) as u8), tn(h.family)];
                    t.extend(addr_toks(&Some(h.addr)));
                    out.obs(&t);
                }
                Err(nom::Err::Incomplete(_)) => {
                    // an incomplete verdict must be justified: shorter than the declared size, or an
                    // address block shorter than the family needs
                    out.obs(&[ts("incomplete")])
                }
                Err(_) => out.obs(&[ts("error")]),
            }
        }
        _ => unreachable!(),
    }
}

impl Env {
    fn new(mode: &str, bufsize: usize, v6: bool) -> Env {
        let (tcp, client) = tcp_pair(v6);
        let is6 = tcp.local_addr().map(|a| a.is_ipv6()).unwrap_or(false);
        let canon_hdr = if is6 {
            let mut ip = [0u8; 16];
            ip[15] = 1;
            ref_header(1, sockaddr(&ip, 1), sockaddr(&ip, 2))
        } else {
            ref_header(1, sockaddr(&[127, 0, 0, 1], 1), sockaddr(&[127, 0, 0, 1], 2))
        };
        let fs = Rc::new(RefCell::new(Sock::default()));
        let front = MockFront { s: fs.clone(), tcp };
        let mut pool = Pool::with_capacity(2, 2, bufsize);
        let (ua, ub) = UnixStream::pair().unwrap();
        ua.set_nonblocking(true).unwrap();
        ub.set_nonblocking(true).unwrap();
        let fd = ua.into_raw_fd();
        let dupfd = unsafe { libc::dup(fd) };
        let back = unsafe { MioTcp::from_raw_fd(fd) };
        let cfg = TcpListenerConfig {
            address: "127.0.0.1:1".parse::<SocketAddr>().unwrap().into(),
            ..Default::default()
        };
        let listener = Rc::new(RefCell::new(TcpListener::new_for_verif(cfg, Token(0)).unwrap()));
        let ulid = rusty_ulid_generate();
        let mut back_sock = Some(back);
        let sess = match mode {
            "pipe" => {
                let fb = pool.checkout().unwrap();
                let bb = pool.checkout().unwrap();
                let mut p = Pipe::new(
                    bb, None, back_sock.take(), None, None, None, None, fb, Token(1), front,
                    listener.clone(), Protocol::TCP, ulid, ulid, None, WebSocketContext::Tcp,
                );
                p.set_back_token(Token(2));
                Sess::Pipe(p)
            }
            "expect" => Sess::Expect(ExpectProxyProtocol::new(
                TimeoutContainer::new(Duration::from_secs(3600), Token(1)), front, Token(1), ulid,
            )),
            "send" => Sess::Send(SendProxyProtocol::new(front, Token(1), ulid, None)),
            "relay" => {
                let fb = pool.checkout().unwrap();
                Sess::Relay(RelayProxyProtocol::new(front, Token(1), ulid, None, fb))
            }
            m => panic!("mode {m}"),
        };
        Env {
            sess, fs, _client: client, pool, listener,
            metrics: SessionMetrics::new(None),
            back_sock, peer: Some(ub), dupfd,
            back_written: vec![], back_got: vec![], back_got_reported: 0, front_out_reported: 0,
            junk: 0, blocked: false, peer_eof: false, peer_closed: false, front_eof: false,
            close_cause_error: false, mode: mode.to_string(), canon_hdr, front_sent: vec![], peer_saw_fin: false,
        }
    }

    fn fr(&mut self) -> Option<&mut Readiness> {
        match &mut self.sess {
            Sess::Expect(p) => Some(&mut p.frontend_readiness),
            Sess::Send(p) => Some(&mut p.frontend_readiness),
            Sess::Relay(p) => Some(&mut p.frontend_readiness),
            Sess::Pipe(p) => Some(&mut p.frontend_readiness),
            Sess::Closed => None,
        }
    }
    fn br(&mut self) -> Option<&mut Readiness> {
        match &mut self.sess {
            Sess::Expect(_) => None,
            Sess::Send(p) => Some(&mut p.backend_readiness),
            Sess::Relay(p) => Some(&mut p.backend_readiness),
            Sess::Pipe(p) => Some(&mut p.backend_readiness),
            Sess::Closed => None,
        }
    }

    fn drain_peer(&mut self) {
        if self.blocked {
            return;
        }
        if let Some(p) = self.peer.as_mut() {
            let mut buf = [0u8; 65536];
            loop {
                match p.read(&mut buf) {
                    Ok(0) => {
                        self.peer_saw_fin = true;
                        break;
                    }
                    Ok(n) => self.back_got.extend_from_slice(&buf[..n]),
                    Err(_) => break,
                }
            }
        }
    }

    /// bytes the session has taken out of the backend socket so far
    fn back_taken(&self) -> usize {
        let mut n: libc::c_int = 0;
        unsafe { libc::ioctl(self.dupfd, libc::FIONREAD, &mut n) };
        self.back_written.len() - n as usize
    }

    // ---- the handlers, dispatched as TcpSession does ----------------------
    fn readable(&mut self) -> SessionResult {
        match &mut self.sess {
            Sess::Pipe(p) => p.readable(&mut self.metrics),
            Sess::Relay(p) => p.readable(&mut self.metrics),
            Sess::Expect(p) => p.readable(&mut self.metrics),
            Sess::Send(_) => SessionResult::Continue,
            Sess::Closed => SessionResult::Close,
        }
    }
    fn writable(&mut self) -> SessionResult {
        match &mut self.sess {
            Sess::Pipe(p) => p.writable(&mut self.metrics),
            _ => SessionResult::Continue,
        }
    }
    fn back_readable(&mut self) -> SessionResult {
        match &mut self.sess {
            Sess::Pipe(p) => p.backend_readable(&mut self.metrics),
            _ => SessionResult::Continue,
        }
    }
    fn back_writable(&mut self, out: &mut Out) -> SessionResult {
        match &mut self.sess {
            Sess::Pipe(p) => p.backend_writable(&mut self.metrics),
            Sess::Relay(p) => {
                // `loop { socket.write(frontend_buffer.data()) }` with an empty buffer and
                // cursor_header < header_size never terminates: do not call it, report it
                if p.backend.is_some() && p.header_size.is_some() && p.frontend_buffer.available_data() == 0
                    && std::env::var_os("C18_NO_SPIN_GUARD").is_none()
                {
                    out.viol("relay-spin", "RelayProxyProtocol::back_writable would loop forever: header_size is set, the header bytes were consumed from frontend_buffer, nothing left to write");
                    self.close_cause_error = true;
                    return SessionResult::Close;
                }
                p.back_writable(&mut self.metrics)
            }
            Sess::Send(p) => p.back_writable(&mut self.metrics),
            Sess::Expect(_) => SessionResult::Continue,
            Sess::Closed => SessionResult::Close,
        }
    }
    fn front_hup(&mut self) -> SessionResult {
        match &mut self.sess {
            Sess::Pipe(p) => p.frontend_hup(&mut self.metrics),
            _ => SessionResult::Close,
        }
    }
    fn back_hup(&mut self) -> SessionResult {
        match &mut self.sess {
            Sess::Pipe(p) => p.backend_hup(&mut self.metrics),
            _ => SessionResult::Close,
        }
    }

    /// `TcpSession::ready_inner` from the front-hup test on (backend already connected or not needed)
    fn ready_inner(&mut self, out: &mut Out) -> SessionResult {
        if matches!(self.sess, Sess::Closed) {
            return SessionResult::Close;
        }
        if self.fr().unwrap().event.is_hup() {
            let r = self.front_hup();
            if r != SessionResult::Continue {
                return r;
            }
            self.fr().unwrap().event.remove(Ready::HUP);
        }
        let mut counter = 0;
        while counter < 100000 {
            let fi = {
                let r = self.fr().unwrap();
                r.interest & r.event
            };
            let bi = self.br().map(|r| r.interest & r.event).unwrap_or(Ready::EMPTY);
            if fi == Ready::EMPTY && bi == Ready::EMPTY {
                break;
            }
            if self.br().map(|r| r.event.is_hup()).unwrap_or(false)
                && self.fr().unwrap().interest.is_writable()
                && !self.fr().unwrap().event.is_writable()
            {
                break;
            }
            if fi.is_readable() {
                let r = self.readable();
                if r != SessionResult::Continue {
                    return r;
                }
            }
            if bi.is_writable() {
                let r = self.back_writable(out);
                if r != SessionResult::Continue {
                    return r;
                }
            }
            if bi.is_readable() {
                let r = self.back_readable();
                if r != SessionResult::Continue {
                    return r;
                }
            }
            if fi.is_writable() {
                let r = self.writable();
                if r != SessionResult::Continue {
                    return r;
                }
            }
            if bi.is_hup() {
                let r = self.back_hup();
                if r != SessionResult::Continue {
                    return r;
                }
            }
            if fi.is_error() {
                self.fr().unwrap().interest = Ready::EMPTY;
                if let Some(r) = self.br() {
                    r.interest = Ready::EMPTY;
                }
                self.close_cause_error = true;
                return SessionResult::Close;
            }
            if bi.is_error() && self.back_hup() == SessionResult::Close {
                self.fr().unwrap().interest = Ready::EMPTY;
                if let Some(r) = self.br() {
                    r.interest = Ready::EMPTY;
                }
                self.close_cause_error = true;
                return SessionResult::Close;
            }
            counter += 1;
        }
        if counter >= 100000 {
            // the session closes through the MAX_LOOP_ITERATIONS guard (e.g. relay with a header larger than
            // its buffer, or an ERROR event that no handler clears): closing is what C18 asks for, the model
            // agrees (fuel exhaustion = Close); recorded, not a violation of this property
            out.note("spin: the readiness loop went through 100000 iterations before closing");
            self.close_cause_error = true;
            return SessionResult::Close;
        }
        SessionResult::Continue
    }

    /// `TcpSession::upgrade`
    fn upgrade(&mut self) -> bool {
        let old = std::mem::replace(&mut self.sess, Sess::Closed);
        match old {
            Sess::Send(spp) => {
                if spp.backend.is_none() {
                    return false;
                }
                let fb = self.pool.checkout().unwrap();
                let bb = self.pool.checkout().unwrap();
                self.sess = Sess::Pipe(spp.into_pipe(fb, bb, self.listener.clone()));
                true
            }
            Sess::Relay(rpp) => {
                if rpp.backend.is_none() {
                    return false;
                }
                let bb = self.pool.checkout().unwrap();
                self.sess = Sess::Pipe(rpp.into_pipe(bb, self.listener.clone()));
                true
            }
            Sess::Expect(epp) => {
                let fb = self.pool.checkout().unwrap();
                let bb = self.pool.checkout().unwrap();
                let mut p = epp.into_pipe(fb, bb, None, None, self.listener.clone());
                // connect_to_backend of the now-Pipe session
                if let Some(b) = self.back_sock.take() {
                    p.set_back_token(Token(2));
                    p.set_back_socket(b);
                }
                self.sess = Sess::Pipe(p);
                true
            }
            other => {
                self.sess = other;
                false
            }
        }
    }

    /// `TcpSession::ready`: Upgrade => upgrade() then ready again
    fn ready(&mut self, out: &mut Out) -> SessionResult {
        let mut guard = 0;
        loop {
            let r = self.ready_inner(out);
            match r {
                SessionResult::Upgrade => {
                    if !self.upgrade() {
                        return SessionResult::Close;
                    }
                    guard += 1;
                    if guard > 4 {
                        return SessionResult::Close;
                    }
                }
                r => return r,
            }
        }
    }

    fn state_toks(&mut self) -> Vec<Tok> {
        let mut t = vec![];
        let name = match &self.sess {
            Sess::Expect(_) => "expect",
            Sess::Send(_) => "send",
            Sess::Relay(_) => "relay",
            Sess::Pipe(_) => "pipe",
            Sess::Closed => "closed",
        };
        t.push(ts(name));
        match self.fr() {
            Some(r) => {
                let (i, e) = rd(r);
                t.push(i);
                t.push(e);
            }
            None => {
                t.push(tn(0));
                t.push(tn(0));
            }
        }
        match self.br() {
            Some(r) => {
                let (i, e) = rd(r);
                t.push(i);
                t.push(e);
            }
            None => {
                t.push(tn(0));
                t.push(tn(0));
            }
        }
        match &self.sess {
            Sess::Pipe(p) => t.push(tbool(p.check_connections())),
            _ => t.push(tn(0)),
        }
        // has the backend peer seen the end of the client's stream (FIN passed on)?
        self.drain_peer();
        t.push(tbool(matches!(self.sess, Sess::Pipe(_)) && self.peer_saw_fin && self.peer.is_some() && !self.blocked));
        match &self.sess {
            Sess::Expect(p) => t.extend(addr_toks(&p.addresses)),
            Sess::Relay(p) => t.extend(addr_toks(&p.addresses)),
            _ => t.push(ts("na")),
        }
        t
    }

    /// finish an op: collect what each peer received since the last op
    fn io_toks(&mut self) -> Vec<Tok> {
        self.drain_peer();
        let fo = self.fs.borrow().out[self.front_out_reported..].to_vec();
        self.front_out_reported += fo.len();
        let mut bo = self.back_got[self.back_got_reported..].to_vec();
        if self.mode == "send" {
            // the header carries this run's ephemeral addresses: it is checked against
            // getsockname/getpeername by the oracle and reported in canonical form
            for (k, b) in bo.iter_mut().enumerate() {
                let at = self.back_got_reported + k;
                if at < self.canon_hdr.len() && at >= 16 {
                    *b = self.canon_hdr[at];
                }
            }
        }
        self.back_got_reported += bo.len();
        vec![tb(&fo), tb(&bo), tn(self.fs.borrow().inq.len())]
    }

    /// the property's own oracle, at the moment the session closes
    fn on_close(&mut self, out: &mut Out) {
        let back_taken = if self.peer_closed { 0 } else { self.back_taken() };
        let in_pipe = matches!(self.sess, Sess::Pipe(_));
        // dropping the session closes both sockets; what was written stays deliverable
        self.sess = Sess::Closed;
        self.back_sock = None;
        if self.blocked {
            self.unblock();
        }
        self.drain_peer();
        let s = self.fs.borrow();
        let is_pipe_phase = self.mode == "pipe" || s.taken.len() > 0;
        let _ = is_pipe_phase;
        if !in_pipe {
            // a well-formed header, however fragmented, must never close the session
            if (self.mode == "expect" || self.mode == "relay") && !self.front_eof && !s.rerr && !self.peer_eof && !self.peer_closed && !self.close_cause_error {
                let fits = self.front_sent.len() < 16 || 16 + ((self.front_sent[14] as usize) << 8 | self.front_sent[15] as usize) <= 232;
                match ref_parse(&self.front_sent) {
                    RefParse::Short | RefParse::Full(..) if fits => out.viol(
                        "valid-header-closed",
                        &format!("mode {}: the session closed although the {} byte(s) received so far are {} well-formed PROXY v2 header", self.mode, self.front_sent.len(), if matches!(ref_parse(&self.front_sent), RefParse::Short) { "the beginning of a" } else { "a complete" }),
                    ),
                    _ => {}
                }
            }
            // closed during the header phase (bad/oversized/absent header, HUP): nothing may have been forwarded
            // beyond a complete relayed header
            if self.mode == "expect" && !self.back_got.is_empty() {
                out.viol("expect-forward", "bytes reached the backend although the session closed before the header was accepted");
            }
            return;
        }
        if self.close_cause_error || s.rerr || s.wclosed {
            return;
        }
        // front -> back: every byte taken from the client must have reached the backend
        // (for relay: header included; for expect: everything after the header; for send: behind the header)
        // (after the client's end-of-stream: every byte it had sent before)
        let src: &[u8] = if self.front_eof { &self.front_sent } else { &s.taken };
        let expect_b: Vec<u8> = match self.mode.as_str() {
            "expect" => match self.hdr_len_expect(src) {
                Some(n) => src[n..].to_vec(),
                None => vec![],
            },
            _ => src.to_vec(),
        };
        let got_b: &[u8] = match self.mode.as_str() {
            "send" => {
                let n = self.send_hdr_len();
                if self.back_got.len() >= n { &self.back_got[n..] } else { &[] }
            }
            _ => &self.back_got,
        };
        // bytes dropped although their destination had not closed anything: the property's core.
        // bytes dropped because the DESTINATION had half-closed (its end-of-stream is taken for a full
        // close of the connection): a separate, narrower class.
        if !self.peer_closed && got_b.len() < expect_b.len() && expect_b.starts_with(got_b) {
            if self.peer_eof {
                out.viol(
                    "halfclose-cuts-reverse",
                    &format!(
                        "the backend half-closed and the session was closed with {} byte(s) of the client's stream undelivered (client eof={}, mode {})",
                        expect_b.len() - got_b.len(), self.front_eof, self.mode
                    ),
                );
            } else {
                out.viol(
                    "eof-before-drain",
                    &format!(
                        "session closed (client eof={} backend eof={}) with {} byte(s) sent by the client never written to the backend (mode {})",
                        self.front_eof, self.peer_eof, expect_b.len() - got_b.len(), self.mode
                    ),
                );
            }
        }
        // back -> front
        let back_taken = if self.peer_eof { self.back_written.len() } else { back_taken };
        if !self.peer_closed && !s.wclosed && s.out.len() < back_taken {
            if self.front_eof {
                out.viol(
                    "halfclose-cuts-reverse",
                    &format!(
                        "the client half-closed and the session was closed with {} byte(s) of the backend's stream undelivered (backend eof={}, mode {})",
                        back_taken - s.out.len(), self.peer_eof, self.mode
                    ),
                );
            } else {
                out.viol(
                    "eof-before-drain",
                    &format!(
                        "session closed (client eof={} backend eof={}) with {} byte(s) sent by the backend never written to the client (mode {})",
                        self.front_eof, self.peer_eof, back_taken - s.out.len(), self.mode
                    ),
                );
            }
        }
    }

    fn hdr_len_expect(&self, taken: &[u8]) -> Option<usize> {
        if taken.len() >= 16 && taken[..12] == SIG {
            let n = 16 + ((taken[14] as usize) << 8 | taken[15] as usize);
            if taken.len() >= n {
                return Some(n);
            }
        }
        None
    }
    fn send_hdr_len(&self) -> usize {
        if self.back_got.len() >= 16 {
            16 + ((self.back_got[14] as usize) << 8 | self.back_got[15] as usize)
        } else {
            0
        }
    }

    fn unblock(&mut self) {
        self.blocked = false;
        if let Some(p) = self.peer.as_mut() {
            let mut left = self.junk;
            let mut buf = [0u8; 65536];
            while left > 0 {
                let want = left.min(buf.len());
                match p.read(&mut buf[..want]) {
                    Ok(0) => break,
                    Ok(n) => left -= n,
                    Err(_) => break,
                }
            }
            self.junk = 0;
        }
    }
}

fn rusty_ulid_generate() -> rusty_ulid::Ulid {
    rusty_ulid::Ulid::from(1u128)
}

fn run(case: &Case, out: &mut Out) {
    let mut env: Option<Env> = None;
    for op in &case.ops {
        let a = &op.args;
        let name = op.name.as_str();
        if name == "bb" || name == "bbs" {
            // black-box tier: <mode> <scenario> <seed> <buffer_size> -> the c18bb binary (a real worker);
            // bbs: the same binary built with the `splice` feature (separate target directory)
            let dir = std::env::current_exe().unwrap().parent().unwrap().to_path_buf();
            let exe = if name == "bbs" {
                dir.parent().unwrap().parent().unwrap().join("cargo-target-splice").join("release").join("c18bb")
            } else {
                dir.join("c18bb")
            };
            let res = std::process::Command::new(exe).args(a.iter().map(|t| t.to_string())).output();
            match res {
                Ok(o) => {
                    let text = String::from_utf8_lossy(&o.stdout).to_string();
                    for line in text.lines() {
                        if let Some(v) = line.strip_prefix("viol ") {
                            let (c, t) = v.split_once(' ').unwrap_or((v, ""));
                            out.viol(c, t);
                        } else if let Some(n) = line.strip_prefix("note ") {
                            out.note(&format!("bb: {n}"));
                        }
                    }
                    if !text.contains("obs done") && !text.contains("note setup-failed") {
                        out.viol("bb-crashed", "the black-box run did not finish");
                    }
                }
                Err(e) => out.note(&format!("invalid-case: cannot run c18bb: {e}")),
            }
            out.obs(&[]);
            continue;
        }
        if name == "enc" || name == "parse" {
            codec_op(op, out);
            continue;
        }
        if name == "new" {
            env = Some(Env::new(a[0].s(), a[1].n() as usize, a[2].n() == 6));
            let e = env.as_mut().unwrap();
            if a[1].n() % 8 != 0 {
                out.note("invalid-case: pool buffers are rounded up to a multiple of 8 bytes");
            }
            let t = e.state_toks();
            out.obs(&t);
            continue;
        }
        let e = env.as_mut().expect("op before new");
        let closed_before = matches!(e.sess, Sess::Closed);
        match name {
            "fin" => {
                e.fs.borrow_mut().inq.extend(a[0].b().iter().copied());
                e.front_sent.extend_from_slice(a[0].b());
                out.obs(&[]);
            }
            "feof" => {
                e.fs.borrow_mut().eof = true;
                e.front_eof = true;
                out.obs(&[]);
            }
            "ferr" => {
                e.fs.borrow_mut().rerr = true;
                out.obs(&[]);
            }
            "fwin" => {
                let n = a[0].n();
                let mut s = e.fs.borrow_mut();
                if n < 0 {
                    s.wcap = None;
                } else {
                    s.wcap = Some(s.wcap.unwrap_or(0) + n as usize);
                }
                drop(s);
                out.obs(&[]);
            }
            "fwzero" => {
                e.fs.borrow_mut().wcap = Some(0);
                out.obs(&[]);
            }
            "fwclose" => {
                e.fs.borrow_mut().wclosed = true;
                out.obs(&[]);
            }
            "bin" => {
                if let Some(p) = e.peer.as_mut() {
                    if !e.peer_eof {
                        p.write_all(a[0].b()).unwrap();
                        e.back_written.extend_from_slice(a[0].b());
                    }
                }
                out.obs(&[]);
            }
            "beof" => {
                if let Some(p) = e.peer.as_mut() {
                    let _ = p.shutdown(std::net::Shutdown::Write);
                }
                e.peer_eof = true;
                out.obs(&[]);
            }
            "bclose" => {
                e.drain_peer();
                e.peer = None;
                e.peer_eof = true;
                e.peer_closed = true;
                out.obs(&[]);
            }
            "bblock" => {
                if !e.blocked && !e.peer_closed && !closed_before {
                    e.drain_peer();
                    let chunk = [0xEEu8; 4096];
                    loop {
                        let n = unsafe { libc::write(e.dupfd, chunk.as_ptr() as *const libc::c_void, chunk.len()) };
                        if n <= 0 {
                            break;
                        }
                        e.junk += n as usize;
                    }
                    e.blocked = true;
                }
                out.obs(&[]);
            }
            "bunblock" => {
                if e.blocked {
                    e.unblock();
                }
                out.obs(&[]);
            }
            "bsndbuf" => {
                // minimal kernel send buffer on the session's backend socket: larger writes are accepted in part
                let v: libc::c_int = 1;
                unsafe {
                    libc::setsockopt(e.dupfd, libc::SOL_SOCKET, libc::SO_SNDBUF, &v as *const _ as *const libc::c_void, std::mem::size_of::<libc::c_int>() as u32);
                }
                out.obs(&[]);
            }
            "connected" => {
                // connect_to_backend + the promotion to Connected of ready_inner
                if let Some(b) = e.back_sock.take() {
                    match &mut e.sess {
                        Sess::Send(p) => {
                            p.set_back_token(Token(2));
                            p.set_back_socket(b);
                            p.set_back_connected(BackendConnectionStatus::Connected);
                        }
                        Sess::Relay(p) => {
                            p.set_back_token(Token(2));
                            p.set_back_socket(b);
                        }
                        _ => e.back_sock = Some(b),
                    }
                }
                let t = e.state_toks();
                out.obs(&t);
            }
            "ev" => {
                let (f, b) = (a[0].n() as u16, a[1].n() as u16);
                if (f & 8 != 0 && !e.front_eof) || (b & 8 != 0 && !e.peer_eof) {
                    out.note("invalid-case: HUP event without the peer having closed");
                }
                if let Some(r) = e.fr() {
                    r.event = r.event | Ready(f);
                }
                if let Some(r) = e.br() {
                    r.event = r.event | Ready(b);
                }
                let t = e.state_toks();
                out.obs(&t);
            }
            "drain" => {
                if closed_before {
                    out.obs(&[ts("closed")]);
                    continue;
                }
                let mut r = SessionResult::Continue;
                for _ in 0..8 {
                    if let Some(x) = e.fr() {
                        x.event = x.event | Ready(3);
                    }
                    if let Some(x) = e.br() {
                        x.event = x.event | Ready(3);
                    }
                    r = e.ready(out);
                    if r != SessionResult::Continue {
                        break;
                    }
                }
                let mut t = vec![ts(res_name(r))];
                t.extend(e.state_toks());
                if r == SessionResult::Close {
                    e.on_close(out);
                }
                t.extend(e.io_toks());
                out.obs(&t);
                // a complete well-formed header of at most 232 bytes must have been accepted by now: the session must not
                // sit in the expect state with the header half read
                if matches!(e.sess, Sess::Expect(_)) && !e.front_eof && !e.peer_closed && !e.peer_eof {
                    let s = e.fs.borrow();
                    if !s.rerr && e.front_sent.len() >= 16 {
                        let total = 16 + ((e.front_sent[14] as usize) << 8 | e.front_sent[15] as usize);
                        if total <= 232 && e.front_sent.len() >= total {
                            if let RefParse::Full(..) = ref_parse(&e.front_sent[..total]) {
                                out.viol(
                                    "header-not-accepted",
                                    &format!(
                                        "mode {}: after a fair drain the session still waits for a PROXY v2 header although the {} byte(s) it was sent begin with a complete well-formed header of {} bytes ({} byte(s) still unread in the socket)",
                                        e.mode,
                                        e.front_sent.len(),
                                        total,
                                        s.inq.len()
                                    ),
                                );
                            }
                        }
                    }
                }
                // fairness oracle: both peers kept reading and writing, nobody closed: nothing may be left behind
                if matches!(e.sess, Sess::Pipe(_)) && !e.blocked && !e.peer_closed && !e.peer_eof && !e.front_eof {
                    let s = e.fs.borrow();
                    if s.wcap.is_none() && !s.wclosed && !s.rerr {
                        let want: Vec<u8> = match e.mode.as_str() {
                            "expect" => e.hdr_len_expect(&e.front_sent).map(|n| e.front_sent[n..].to_vec()).unwrap_or_default(),
                            _ => e.front_sent.clone(),
                        };
                        let got: &[u8] = if e.mode == "send" {
                            let n = e.send_hdr_len().min(e.back_got.len());
                            &e.back_got[n..]
                        } else {
                            &e.back_got
                        };
                        if got != &want[..] {
                            out.viol("stall", &format!("after a fair drain the backend has {} of the {} byte(s) the client sent (mode {})", got.len(), want.len(), e.mode));
                        }
                        if s.out != e.back_written {
                            out.viol("stall", &format!("after a fair drain the client has {} of the {} byte(s) the backend sent (mode {})", s.out.len(), e.back_written.len(), e.mode));
                        }
                    }
                }
            }
            "h" | "ready" | "upgrade" | "bwp" => {
                if closed_before {
                    out.obs(&[ts("closed")]);
                    continue;
                }
                let r = if name == "ready" {
                    e.ready(out)
                } else if name == "upgrade" {
                    if e.upgrade() { SessionResult::Continue } else { SessionResult::Close }
                } else if name == "bwp" {
                    // back_writable against the kernel's own (small) send buffer: how much it takes is read off
                    // the peer afterwards and handed to the model (props/c18.py:model_ops)
                    e.back_writable(out)
                } else {
                    match a[0].s() {
                        "readable" => e.readable(),
                        "writable" => e.writable(),
                        "back_readable" => e.back_readable(),
                        "back_writable" => e.back_writable(out),
                        "front_hup" => e.front_hup(),
                        "back_hup" => e.back_hup(),
                        x => panic!("handler {x}"),
                    }
                };
                let mut t = vec![ts(res_name(r))];
                t.extend(e.state_toks());
                if r == SessionResult::Close {
                    e.on_close(out);
                }
                t.extend(e.io_toks());
                out.obs(&t);
            }
            other => panic!("unknown op {other}"),
        }
    }
    // end of case: stream oracles (independent of the model)
    if let Some(e) = env.as_mut() {
        e.drain_peer();
        let s = e.fs.borrow();
        // what the backend received
        let sent_front: Vec<u8> = case.ops.iter().filter(|o| o.name == "fin").flat_map(|o| o.args[0].b().to_vec()).collect();
        let sent_back = &e.back_written;
        let mut bg: &[u8] = &e.back_got;
        match e.mode.as_str() {
            "send" => {
                if !bg.is_empty() {
                    let peer = s_peer(&e._client);
                    let want = ref_header(1, peer.0, peer.1);
                    let n = want.len().min(bg.len());
                    if bg[..n] != want[..n] {
                        out.viol("send-header", &format!("backend stream starts with {:02x?}, expected the v2 header {:02x?}", &bg[..n], want));
                    }
                    bg = &bg[n..];
                }
                if !sent_front.starts_with(bg) {
                    out.viol("pipe-order", "bytes received by the backend after the header are not a prefix of what the client sent");
                }
            }
            "expect" => {
                // everything behind the incoming header, nothing else
                let hl = e.hdr_len_expect(&sent_front);
                match hl {
                    Some(n) => {
                        if !sent_front[n..].starts_with(bg) {
                            let lost = first_diff(&sent_front[n..], bg);
                            out.viol("expect-loss", &format!("backend stream is not a prefix of the client payload: header {} bytes, payload {} bytes, backend got {} bytes, first difference at payload offset {}", n, sent_front.len() - n, bg.len(), lost));
                        }
                    }
                    None => {
                        if !bg.is_empty() {
                            out.viol("expect-forward", "bytes reached the backend although no complete header was received");
                        }
                    }
                }
            }
            _ => {
                if !sent_front.starts_with(bg) {
                    let d = first_diff(&sent_front, bg);
                    out.viol(if e.mode == "relay" { "relay-stream" } else { "pipe-order" }, &format!("bytes received by the backend are not a prefix of what the client sent (client {} bytes, backend {} bytes, first difference at {})", sent_front.len(), bg.len(), d));
                }
            }
        }
        if !sent_back.starts_with(&s.out) {
            out.viol("pipe-order", "bytes received by the client are not a prefix of what the backend sent");
        }
    }
}

fn first_diff(a: &[u8], b: &[u8]) -> usize {
    a.iter().zip(b.iter()).position(|(x, y)| x != y).unwrap_or(a.len().min(b.len()))
}

/// (source, destination) the send header must carry: the client's address and the accepting socket's
fn s_peer(client: &std::net::TcpStream) -> (SocketAddr, SocketAddr) {
    (client.local_addr().unwrap(), client.peer_addr().unwrap())
}

impl Drop for Env {
    fn drop(&mut self) {
        unsafe { libc::close(self.dupfd) };
    }
}

fn main() {
    let _ = sozu_command_lib::logging::setup_logging("file:///dev/null", false, None, None, None, "error", "C18");
    drive(run);
}
