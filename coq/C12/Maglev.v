(** C12 — the Maglev population loop fills every slot (termination within its
    fuel), by coprimality of every [skip] with the prime table size. *)
From Coq Require Import List Arith ZArith NArith Bool Lia Znumtheory.
From SV Require Import C12.Model C12.Proofs.
Import ListNotations.

(* ------------------------------------------------------------------ *)
(** * Every residue is reached *)

Lemma cover_Z (m skip off next c0 : Z) :
  (0 < m)%Z -> rel_prime skip m -> (0 <= c0 < m)%Z ->
  exists j, (0 <= j < m)%Z /\ ((off + (next + j) * skip) mod m = c0)%Z.
Proof.
  intros Hm Hr Hc.
  destruct (rel_prime_bezout _ _ Hr) as [u v E].
  set (t := (c0 - off - next * skip)%Z).
  exists ((t * u) mod m)%Z. split; [apply Z.mod_pos_bound; lia|].
  assert (K : ((off + (next + (t * u) mod m) * skip) mod m = (off + next * skip + t * (u * skip)) mod m)%Z).
  { replace (off + (next + (t * u) mod m) * skip)%Z with ((off + next * skip) + ((t * u) mod m) * skip)%Z by ring.
    rewrite <- Z.add_mod_idemp_r by lia.
    rewrite Z.mul_mod_idemp_l by lia.
    rewrite Z.add_mod_idemp_r by lia. f_equal. ring. }
  rewrite K.
  replace (u * skip)%Z with (1 - v * m)%Z by lia.
  replace (off + next * skip + t * (1 - v * m))%Z with (c0 + (- t * v) * m)%Z by (unfold t; ring).
  rewrite Z_mod_plus_full. apply Z.mod_small. lia.
Qed.

Lemma prime_skip_coprime (m skip : Z) : prime m -> (1 <= skip < m)%Z -> rel_prime skip m.
Proof.
  intros Hp Hs. apply rel_prime_sym. apply prime_rel_prime; [assumption|].
  intros D. apply Z.divide_pos_le in D; lia.
Qed.

Open Scope N_scope.

Definition slot (off skip m j : N) : nat := N.to_nat ((off + j * skip) mod m).

Lemma cover_N (m skip off next : N) (c0 : nat) :
  prime (Z.of_N m) -> 1 <= skip < m -> (c0 < N.to_nat m)%nat ->
  exists d, (d < N.to_nat m)%nat /\ slot off skip m (next + N.of_nat d) = c0.
Proof.
  intros Hp Hs Hc.
  assert (Hm : (0 < Z.of_N m)%Z) by (destruct Hp; lia).
  destruct (cover_Z (Z.of_N m) (Z.of_N skip) (Z.of_N off) (Z.of_N next) (Z.of_nat c0)) as [j [Hj E]].
  - exact Hm.
  - apply prime_skip_coprime; [assumption|lia].
  - lia.
  - exists (Z.to_nat j). split; [lia|].
    unfold slot. apply Nat2Z.inj. rewrite <- E.
    rewrite N_nat_Z, N2Z.inj_mod, N2Z.inj_add, N2Z.inj_mul, N2Z.inj_add.
    rewrite nat_N_Z, Z2Nat.id by lia. reflexivity.
Qed.

(* ------------------------------------------------------------------ *)
(** * The inner search finds a free slot when there is one *)

Lemma find_free_some table off skip m : forall fuel next,
  (exists d, (d < fuel)%nat /\ nth (slot off skip m (next + N.of_nat d)) table None = None) ->
  exists j c, find_free table off skip m next fuel = Some (j, c) /\
              c = slot off skip m j /\ nth c table None = None.
Proof.
  induction fuel as [|f IH]; intros next [d [Hd Hn]]; [lia|].
  cbn [find_free]. fold (slot off skip m next).
  destruct (nth (slot off skip m next) table None) as [x|] eqn:E.
  - destruct d as [|d'].
    + rewrite N.add_0_r in Hn. congruence.
    + apply IH. exists d'. split; [lia|].
      replace (next + 1 + N.of_nat d') with (next + N.of_nat (S d')) by lia. exact Hn.
  - exists next, (slot off skip m next). repeat split. exact E.
Qed.

(* ------------------------------------------------------------------ *)
(** * Counting filled slots *)

Definition is_some {A} (o : option A) : bool := match o with Some _ => true | None => false end.
Definition nsome (t : list (option nat)) : nat := length (filter is_some t).

Lemma nsome_le t : (nsome t <= length t)%nat.
Proof. unfold nsome. induction t as [|x r IH]; cbn; [lia|]. destruct (is_some x); cbn; lia. Qed.

Lemma exists_free t : (nsome t < length t)%nat -> exists c, (c < length t)%nat /\ nth c t None = None.
Proof.
  unfold nsome. induction t as [|x r IH]; cbn [filter length]; [lia|].
  destruct x as [v|]; cbn [is_some length].
  - intros H. destruct IH as [c [Hc Hn]]; [lia|]. exists (S c). split; [lia|exact Hn].
  - intros _. exists 0%nat. split; [lia|reflexivity].
Qed.

Lemma nsome_upd t : forall c b, (c < length t)%nat -> nth c t None = None ->
  nsome (upd t c (Some b)) = S (nsome t).
Proof.
  unfold nsome. induction t as [|x r IH]; intros [|c] b Hc Hn; cbn [length] in Hc; try lia.
  - cbn in Hn. subst. cbn. reflexivity.
  - cbn [nth] in Hn. cbn [upd filter]. assert (Hc' : (c < length r)%nat) by lia.
    destruct (is_some x); cbn [length]; rewrite (IH c b Hc' Hn); reflexivity.
Qed.

Lemma all_some t : nsome t = length t -> Forall (fun e => is_some e = true) t.
Proof.
  unfold nsome. induction t as [|x r IH]; cbn [filter length]; [constructor|].
  destruct x as [v|]; cbn [is_some length].
  - intros H. constructor; [reflexivity|]. apply IH. lia.
  - intros H. pose proof (nsome_le r) as L. unfold nsome in L. lia.
Qed.

(* ------------------------------------------------------------------ *)
(** * Sums *)

Lemma sumN_upd l : forall b v, (b < length l)%nat -> sumN (upd l b v) + nth b l 0 = sumN l + v.
Proof.
  unfold sumN. induction l as [|x r IH]; intros [|b] v Hb; cbn [length] in Hb; try lia.
  - cbn. lia.
  - cbn [upd fold_right nth]. specialize (IH b v). lia.
Qed.

Lemma sum_lt_exists l1 : forall l2, length l1 = length l2 -> sumN l1 < sumN l2 ->
  exists i, (i < length l1)%nat /\ nth i l1 0 < nth i l2 0.
Proof.
  unfold sumN. induction l1 as [|x r IH]; intros [|y s] HL HS; cbn [length] in HL; try discriminate.
  cbn [fold_right] in HS. destruct (N.lt_ge_cases x y) as [Hxy|Hxy].
  - exists 0%nat. cbn [length nth]. split; [lia|exact Hxy].
  - destruct (IH s) as [i [Hi Hn]]; [lia|lia|]. exists (S i). cbn [length nth]. split; [lia|exact Hn].
Qed.

Lemma upd_nth_same {A} (l : list A) : forall i v d, (i < length l)%nat -> nth i (upd l i v) d = v.
Proof. induction l as [|x r IH]; intros [|i] v d H; cbn [length] in H; try lia; cbn; auto. apply IH. lia. Qed.

Lemma upd_nth_other {A} (l : list A) : forall i j v d, i <> j -> nth j (upd l i v) d = nth j l d.
Proof.
  induction l as [|x r IH]; intros [|i] [|j] v d H; cbn; auto; try congruence; try (apply IH; congruence).
Qed.

(** the remainder loop adds exactly its fuel to the sum *)
Lemma distribute_sum n : forall fuel targets i, (0 < n)%nat -> length targets = n ->
  sumN (distribute targets n i fuel) = sumN targets + N.of_nat fuel /\
  length (distribute targets n i fuel) = n.
Proof.
  induction fuel as [|f IH]; intros targets i Hn HL; cbn [distribute].
  - split; [lia|exact HL].
  - assert (Hi : (i mod n < length targets)%nat) by (rewrite HL; apply Nat.mod_upper_bound; lia).
    destruct (IH (upd targets (i mod n) (nth (i mod n) targets 0 + 1)) (S i) Hn) as [S1 S2].
    { rewrite upd_length. exact HL. }
    split; [|exact S2]. rewrite S1.
    pose proof (sumN_upd targets (i mod n) (nth (i mod n) targets 0 + 1) Hi). lia.
Qed.

(** [sum floor(w_i * m / T) <= m] for [T = sum w_i > 0] *)
Lemma floor_sum_le m T : 0 < T -> forall ws,
  T * sumN (map (fun w => w * m / T) ws) <= sumN ws * m.
Proof.
  intros HT. unfold sumN. induction ws as [|w r IH]; cbn [map fold_right]; [lia|].
  pose proof (N.mul_div_le (w * m) T). nia.
Qed.
