"""C02 — every received request gets exactly one well-formed answer."""
import os, re, sys
import vlib
from vlib import Case

sys.path.insert(0, os.path.join(vlib.ROOT, "tools"))
import rustmini as R

ID = "C02"
COQ_DIRS = ["Common", "C02"]
COQ_TARGETS = ["C02/Props.vo", "C02/Run.vo"]
PROPS_MODULES = ["C02.Props"]
RUN_MODULE = "C02.Run"
RUN_FN = "run_case"
HARNESS_BIN = "c02"
HARNESS_BINS = ["c02"]
SHRINK_KEEP = ("new",)

MUX = os.path.join(vlib.REPO, "lib/src/protocol/mux")


# ---------------------------------------------------------------------------
# translator (T-table): decision trees and tables regenerated from the source

# context of the function being read: its let-bindings (expanded inside conditions), the file it lives in
# (one-level helper calls are followed), the names of the two flags of Mux::timeout, named constants
CTX = dict(binds={}, src="", close_flag="should_close", write_flag="should_write", consts={})


def set_ctx(body, src):
    CTX["binds"] = R.let_bindings(body)
    CTX["src"] = src
    CTX["consts"] = dict(re.findall(r"\bconst\s+(\w+)\s*:\s*\w+\s*=\s*(\d+)\s*;", src))


def is_interim_expr(t0):
    """`matches!(<..>.status_line, ..Response { code, .. } if (100..200).contains(&code) [&& code != 101])`"""
    return "status_line" in t0 and re.search(r"\(100\.\.200\)\.contains\(&?\w+\)|\(100\.\.=199\)\.contains\(&?\w+\)|\w+/100==1", t0) is not None


def classify(leaf, depth=0):
    """leaf of a condition (let-bindings already expanded) -> atom name | None"""
    t0 = "".join(leaf.split())
    while t0.startswith("(") and R.match_brace(t0, 0, "(", ")") == len(t0) - 1:
        t0 = t0[1:-1]
    if is_interim_expr(t0):
        return "CBackInterim"
    if "self.frontend" in t0 and "Connection::H2" in t0 and (t0.startswith("matches!(") or re.search(r"Connection::H2\(_\)=>true", t0)):
        return "CFrontIsH2"
    for rx, name in ((r"\bback\)*\.is_main_phase\(\)$", "CBackMainPhase"), (r"\bback\)*\.is_terminated\(\)$", "CBackTerminated"),
                     (r"\bback\)*\.is_error\(\)$", "CBackError"), (r"\bback\)*\.is_completed\(\)$", "CBackCompleted"),
                     (r"\bback\)*\.consumed$", "CBackConsumed"), (r"\bfront\)*\.consumed$", "CFrontConsumed"),
                     (r"\bcontext\)*\.keep_alive_backend$", "CKeepAliveBackend")):
        if re.search(rx, t0) and not re.search(r"&&|\|\|", t0):
            return name
    # a one-level private helper: `name(..)` / `x.name(..)` whose body is a single boolean expression
    m = re.fullmatch(r"(?:[\w.\[\]&()]*?[.:])?(\w+)\((.*)\)", t0)
    if m and depth == 0 and CTX["src"]:
        try:
            hb, _ = R.fn_body(CTX["src"], m.group(1))
        except R.Unrecognised:
            return None
        binds = R.let_bindings(hb)
        tail = re.sub(r"\blet\b[^;]*;", " ", hb).strip()
        if tail and ";" not in tail:
            try:
                e = R.parse_bool(tail, lambda x: classify(x, 1), binds)
            except R.Unrecognised:
                return None
            if e[0] == "atom":
                return e[1]
    return None


def cond_tree(text):
    e = R.parse_bool(text, classify, CTX["binds"])
    if "const" in repr(e):
        raise R.Unrecognised("constant inside condition %r" % text)
    return e


STATES = ["Idle", "Link", "Linked", "Unlinked", "Recycle"]
ACTIONS = ["ForwardTerminated", "CloseDelimited", "ForwardUnterminated", "SendDefault", "Reconnect"]


def cond_coq(e):
    if e[0] == "atom":
        return "BC %s" % e[1]
    if e[0] == "not":
        return "BNot (%s)" % cond_coq(e[1])
    return "%s (%s) (%s)" % ("BOr" if e[0] == "or" else "BAnd", cond_coq(e[1]), cond_coq(e[2]))


def effects(text, what):
    """Ordered list of the recognised effects in a leaf's text (Coq `eff` terms).
    Anything that looks like an effect we know about but cannot classify fails the tie."""
    found = []
    pats = [
        (r"\bset_default_answer(?:_with_retry_after)?\s*\(\s*[\w.&\s]+,\s*[&\w.\s]+,\s*(\w+)\s*,", "ans"),
        (r"\bforcefully_terminate_answer\s*\(", "EForce"),
        (r"\b%s\s*=\s*false\b" % re.escape(CTX["close_flag"]), "EWait"),
        (r"\b%s\s*=\s*true\b" % re.escape(CTX["write_flag"]), "EWrite"),
        (r"\bunlink_stream\s*\(", "EUnlink"),
        (r"\bstate\s*=\s*StreamState::(\w+)", "state"),
        (r"\barm_writable\s*\(", "EArm"),
        (r"\binterest\s*\.\s*insert\s*\(\s*Ready::WRITABLE\s*\)", "EInterestW"),
        (r"\bsignal_pending_write\s*\(", "ESignalW"),
        (r"\bpending_links\s*\.\s*push_back\s*\(", "ERelink"),
        (r"\bparsing_phase\s*=\s*kawa::ParsingPhase::Terminated\b", "ETerminate"),
        (r"\bEndStreamAction::(\w+)(?:\((\w+)\))?", "act"),
    ]
    for rx, tag in pats:
        for m in re.finditer(rx, text):
            if tag == "ans":
                a = m.group(1)
                a = CTX["consts"].get(a, a)        # a named constant of the same file stands for its value
                if a.isdigit():
                    term = "EAns (Lit %s)" % a
                elif re.fullmatch(r"[a-z_]\w*", a):
                    term = "EAns Var"              # a binding: the status carried by the decision / the sub-match
                else:
                    raise R.Unrecognised("%s: default answer with unrecognised status argument %r" % (what, a))
            elif tag == "state":
                if m.group(1) not in STATES:
                    raise R.Unrecognised("%s: unknown StreamState::%s" % (what, m.group(1)))
                term = "ESetState S%s" % m.group(1)
            elif tag == "act":
                if m.group(1) not in ACTIONS:
                    raise R.Unrecognised("%s: unknown EndStreamAction::%s" % (what, m.group(1)))
                if m.group(1) == "SendDefault":
                    if not (m.group(2) or "").isdigit():
                        raise R.Unrecognised("%s: SendDefault without a literal status" % what)
                    term = "EAct (ASendDefault %s)" % m.group(2)
                else:
                    term = "EAct A%s" % m.group(1)
            else:
                term = tag
            found.append((m.start(), term))
    # constructs that would change the meaning of a leaf but that the table does not express
    for bad in (r"\bmatch\b", r"\bfor\b", r"\bwhile\b", r"\bloop\b", r"\breturn\b", r"\bcontinue\b", r"\bbreak\b"):
        if re.search(bad, text):
            raise R.Unrecognised("%s: control flow %s inside a decision leaf" % (what, bad))
    return [t for _, t in sorted(found)]


def tree_coq(t, what):
    if t[0] == "leaf":
        return "Leaf [%s]" % "; ".join(effects(t[1], what))
    return "Ite (%s) (%s) (%s)" % (cond_coq(cond_tree(t[1])), tree_coq(t[2], what), tree_coq(t[3], what))


# concrete causes of a failed Router::connect, as paths through the error enums
CAUSES = [
    ("KMaxRetries", ["MaxConnectionRetries"]),
    ("KMaxSessionsMemory", ["MaxSessionsMemory"]),
    ("KMaxBuffers", ["MaxBuffers"]),
    ("KNoBackendForCluster", ["Backend", "NoBackendForCluster"]),
    ("KBackendMio", ["Backend", "MioConnection"]),
    ("KBackendStatus", ["Backend", "Status"]),
    ("KBackendFailures", ["Backend", "ConnectionFailures"]),
    ("KHostParse", ["RetrieveClusterError", "RetrieveFrontend", "HostParse"]),
    ("KInvalidCharsAfterHost", ["RetrieveClusterError", "RetrieveFrontend", "InvalidCharsAfterHost"]),
    ("KNoClusterFound", ["RetrieveClusterError", "RetrieveFrontend", "NoClusterFound"]),
    ("KUnauthorized", ["RetrieveClusterError", "UnauthorizedRoute"]),
    ("KSniMismatch", ["RetrieveClusterError", "SniAuthorityMismatch"]),
    ("KHttpsRedirect", ["RetrieveClusterError", "HttpsRedirect"]),
    ("KNoMethod", ["RetrieveClusterError", "NoMethod"]),
    ("KNoHost", ["RetrieveClusterError", "NoHost"]),
    ("KNoPath", ["RetrieveClusterError", "NoPath"]),
    ("KNotFound", ["NotFound"]),
    ("KTooManyPerIp", ["TooManyConnectionsPerIp"]),
]
ENUMS = {   # enum name -> (file, variants the CAUSES list was written against)
    "BackendConnectionError": ("lib/src/lib.rs", ["NotFound", "MaxConnectionRetries", "MaxSessionsMemory", "Backend", "RetrieveClusterError", "MaxBuffers", "TooManyConnectionsPerIp"]),
    "RetrieveClusterError": ("lib/src/lib.rs", ["NoMethod", "NoHost", "NoPath", "UnauthorizedRoute", "RetrieveFrontend", "HttpsRedirect", "SniAuthorityMismatch"]),
    "FrontendFromRequestError": ("lib/src/lib.rs", ["HostParse", "InvalidCharsAfterHost", "NoClusterFound"]),
    "BackendError": ("lib/src/backends.rs", ["NoBackendForCluster", "MioConnection", "Status", "ConnectionFailures"]),
}


def enum_variants(stripped, name):
    body, _, _ = R.block_after(stripped, r"\bpub enum " + name + r"\b")
    body = re.sub(r"#\[[^\]]*\]", " ", body)
    out, depth, cur = [], 0, ""
    for c in body:
        if c in "({[":
            depth += 1
        elif c in ")}]":
            depth -= 1
        elif c == "," and depth == 0:
            out.append(cur)
            cur = ""
            continue
        if depth == 0 or (depth == 1 and c in "({["):
            cur += c
    out.append(cur)
    return [re.match(r"\s*(\w+)", v).group(1) for v in out if re.match(r"\s*\w+", v)]


def pat_path(p):
    """`BE::Backend(BackendError::NoBackendForCluster(_))` -> ['Backend','NoBackendForCluster','*']"""
    segs = []
    while True:
        p = p.strip().rstrip(",").strip()
        m = re.match(r"(?:ref\s+)?(?:\w+::)*(\w+)\s*(.*)$", p, re.S)
        if not m:
            raise R.Unrecognised("connect-error arm pattern %r" % p)
        name, rest = m.group(1), m.group(2).strip()
        if name == "_" or (name[0].islower() and not rest):
            segs.append("*")
            return segs
        segs.append(name)
        if not rest:
            return segs
        if rest.startswith("{"):
            return segs        # struct pattern: fields do not discriminate
        if rest.startswith("("):
            e = R.match_brace(rest, 0, "(", ")")
            p = rest[1:e].strip()
            if p.startswith("ref "):
                p = p[4:]
            continue
        raise R.Unrecognised("connect-error arm pattern tail %r" % rest)


def pat_matches(segs, cause):
    for i, s in enumerate(segs):
        if s == "*":
            return True
        if i >= len(cause) or cause[i] != s:
            return False
    return True   # pattern shorter than the cause: struct/unit at that depth


FACTS_FILE = os.path.join(vlib.ROOT, "props", "c02_facts.json")


def read_facts():
    """-> ({fact name: Coq definition text}, {fact name: why it could not be read}, hard failures).
    Every fact is read on its own: a construct that is no longer RECOGNISED only loses that fact
    (reported `unreadable:`, the definition then comes from the committed snapshot props/c02_facts.json);
    a construct that is recognised and says something else yields a different definition (the proofs and the
    correspondence run decide) or a hard failure."""
    facts, unread, fails = {}, {}, []

    def fact(name, fn, soft=False):
        """soft: the fact is observed exhaustively by the in-process correspondence run (see TRANSLATE_FALLBACK and
        harmless/ tests); every other fact that cannot be read is a HARD failure (the snapshot only keeps Gen.v
        well-formed so that the rest of the run still reports)"""
        try:
            facts[name] = fn()
        except (R.Unrecognised, ValueError, IndexError, AttributeError, KeyError) as ex:
            if soft:
                unread[name] = "%s" % (ex,)
            else:
                fails.append("%s: the source could not be read as the model's fact: %s" % (name, ex))

    shared = R.strip(open(os.path.join(MUX, "shared.rs")).read())
    mod = R.strip(open(os.path.join(MUX, "mod.rs")).read())
    h1 = R.strip(open(os.path.join(MUX, "h1.rs")).read())
    h2 = R.strip(open(os.path.join(MUX, "h2.rs")).read())
    ans = R.strip(open(os.path.join(MUX, "answers.rs")).read())
    cn = R.strip(open(os.path.join(MUX, "connection.rs")).read())

    def f_esd():
        body, _ = R.fn_body(shared, "end_stream_decision")
        set_ctx(body, shared)
        return "Definition gen_esd : dtree := %s." % tree_coq(R.parse_block(body), "shared.rs end_stream_decision")
    fact("gen_esd", f_esd, soft=True)

    # (ii) BackendConnectionError -> status
    def f_connect():
        m = re.search(r"match\s+self\s*\.\s*router\s*\.\s*connect\s*\(", mod)
        if m:
            e = R.match_brace(mod, m.end() - 1, "(", ")")
            outer = mod[mod.index("{", e):]
        else:
            # `let r = self.router.connect(..); match r {`
            m = re.search(r"let\s+(\w+)\s*=\s*self\s*\.\s*router\s*\.\s*connect\s*\(", mod)
            if not m:
                raise R.Unrecognised("mod.rs: the call of self.router.connect( was not found")
            m2 = re.compile(r"match\s+%s\s*\{" % m.group(1)).search(mod, m.end())
            if not m2:
                raise R.Unrecognised("mod.rs: no match on the result of router.connect")
            outer = mod[m2.end() - 1:]
        outer = outer[1:R.match_brace(outer, 0)]
        set_ctx(outer, mod)
        arms = R.match_arms(outer)
        err_arm = [(p_, b) for p_, b in arms if p_.startswith("Err(")]
        ok_arm = [b for p_, b in arms if p_.startswith("Ok(")]
        if len(err_arm) != 1 or len(ok_arm) != 1 or len(arms) != 2:
            raise R.Unrecognised("mod.rs: connect() result match is not {Ok, Err}")
        if effects(ok_arm[0], "connect Ok arm"):
            fails.append("mod.rs: the Ok arm of router.connect now has answer effects: %s" % effects(ok_arm[0], "ok"))
        ename = re.fullmatch(r"Err\(\s*(?:ref\s+)?(\w+)\s*\)", err_arm[0][0])
        if not ename:
            raise R.Unrecognised("mod.rs: Err arm pattern %r" % err_arm[0][0])
        mm = re.search(r"\bmatch\s+&?%s\s*\{" % ename.group(1), err_arm[0][1])
        if not mm:
            raise R.Unrecognised("mod.rs: no match on the connect error in the Err arm")
        inner = err_arm[0][1][mm.end() - 1:]
        inner = inner[1:R.match_brace(inner, 0)]
        earms = []
        for pat, b in R.match_arms(inner):
            alts = [pat_path(a) for a in re.split(r"\s\|\s", pat)]
            earms.append((alts, b, pat))
        rows, fallback = [], None
        for cname, path in CAUSES:
            hit = None
            for alts, b, pat in earms:
                if any(pat_matches(a, path) for a in alts):
                    hit = (b, pat)
                    break
            if hit is None:
                fails.append("mod.rs: no connect-error arm matches %s" % "::".join(path))
                continue
            b, pat = hit
            sub = re.search(r"let\s+(\w+)\s*=\s*match\s+&?\w+\s*\{", b)
            red = re.search(r"let\s+(\w+)\s*=\s*stream\s*\.\s*context\s*\.\s*redirect_status\s*\.\s*unwrap_or\s*\(\s*(\w+)\s*\)", b)
            if sub:
                sb = b[sub.end() - 1:]
                sb_in = sb[1:R.match_brace(sb, 0)]
                code = None
                for sp, sv in R.match_arms(sb_in):
                    if any(pat_matches(pat_path(a), path[2:]) for a in re.split(r"\s\|\s", sp)):
                        code = CTX["consts"].get(sv.strip().rstrip(","), sv.strip().rstrip(","))
                        break
                if code is None or not code.isdigit():
                    fails.append("mod.rs: RetrieveFrontend sub-match has no literal status for %s" % path[-1])
                    continue
                rest = b[:sub.start()] + b[sub.end() - 1 + R.match_brace(sb, 0) + 1:]
                effs = [x.replace("EAns Var", "EAns (Lit %s)" % code) for x in effects(rest, "connect arm " + pat)]
            elif red:
                fallback = CTX["consts"].get(red.group(2), red.group(2))
                effs = [x.replace("EAns Var", "EAns Redirect") for x in effects(b[:red.start()] + b[red.end():], "connect arm " + pat)]
            else:
                effs = effects(b, "connect arm " + pat)
            rows.append("  | %s => [%s]" % (cname, "; ".join(effs)))
        if fallback is None or not fallback.isdigit():
            fails.append("mod.rs: HttpsRedirect arm no longer reads redirect_status.unwrap_or(<n>)")
        return ("Definition gen_connect (k : cause) : list eff :=\n  match k with\n%s\n  end.\n" % "\n".join(rows)
                + "Definition gen_redirect_fallback : N := %s." % (fallback if fallback and fallback.isdigit() else "0"))
    fact("gen_connect", f_connect)
    # the variant universe the cause list was written against
    for en, (f, want) in ENUMS.items():
        try:
            got = enum_variants(R.strip(open(os.path.join(vlib.REPO, f)).read()), en)
        except R.Unrecognised as ex:
            fails.append("%s: enum %s could not be read: %s" % (f, en, ex))
            continue
        if got != want:
            fails.append("%s: enum %s variants changed: %s (cause list written for %s)" % (f, en, got, want))

    # (iii) timeouts
    def timeout_body():
        tbody, _ = R.fn_body(mod, "timeout", mod.index("fn update_readiness(&mut self"))
        set_ctx(tbody, mod)
        head = tbody[:tbody.index("if ")]
        cf = re.findall(r"let\s+mut\s+(\w+)\s*=\s*true\s*;", head)
        wf = re.findall(r"let\s+mut\s+(\w+)\s*=\s*false\s*;", head)
        if len(cf) != 1 or len(wf) != 1:
            raise R.Unrecognised("mod.rs timeout: the two flags (`let mut <close> = true; let mut <write> = false;`) were not found")
        CTX["close_flag"], CTX["write_flag"] = cf[0], wf[0]
        return tbody

    def f_ft():
        tbody = timeout_body()
        fm = re.search(r"match\s+self\s*\.\s*context\s*\.\s*streams\s*\[\s*\w+\s*\]\s*\.\s*state\s*\{", tbody)
        if not fm:
            raise R.Unrecognised("mod.rs timeout: per-stream state match not found")
        fb = tbody[fm.end() - 1:]
        fb = fb[1:R.match_brace(fb, 0)]
        seen = {}
        for pat, b in R.match_arms(fb):
            mm = re.fullmatch(r"StreamState::(\w+)(?:\(_\w*\))?", pat)
            if not mm or mm.group(1) not in STATES:
                raise R.Unrecognised("mod.rs timeout: arm pattern %r" % pat)
            seen[mm.group(1)] = tree_coq(R.parse_block(b), "frontend timeout arm " + mm.group(1))
        if sorted(seen) != sorted(STATES):
            fails.append("mod.rs timeout: frontend-timer arms are %s" % sorted(seen))
        return "Definition gen_front_timeout (s : sstate) : dtree :=\n  match s with\n%s\n  end." % "\n".join(
            "  | S%s => %s" % (s_, seen.get(s_, "Leaf []")) for s_ in STATES)
    fact("gen_front_timeout", f_ft)

    def backend_loop(tbody):
        # the loop over the streams linked to the backend whose timer fired: the `for` whose body answers 504
        for bm in re.finditer(r"for\s+(\w+)\s+in\s+[\w.&()]+\s*\{", tbody):
            bb = tbody[bm.end() - 1:]
            bb = bb[1:R.match_brace(bb, 0)]
            if re.search(r"set_default_answer\s*\(", bb) and re.search(r"\.\s*end_stream\s*\(\s*%s\b" % bm.group(1), bb) and not re.search(r"\bmatch\b", bb.split("set_default_answer")[0]):
                return bb
        raise R.Unrecognised("mod.rs timeout: backend-timer loop not found")

    def f_bt():
        tbody = timeout_body()
        bb = backend_loop(tbody)
        return "Definition gen_back_timeout : dtree := %s." % tree_coq(R.parse_block(bb), "backend timeout")
    fact("gen_back_timeout", f_bt)

    # re-arming of the timers on the paths that keep the session
    def f_rearm():
        tbody = timeout_body()
        cf, wf = CTX["close_flag"], CTX["write_flag"]

        def has(rx, text):
            return "true" if re.search(rx, text, re.S) else "false"
        sw, _, swe = R.block_after(tbody, r"\bif\s+%s\s*(?=\{)" % wf)
        rest = tbody[swe:]
        sc, _, sce = R.block_after(rest, r"\bif\s+%s\s*(?=\{)" % cf)
        els = rest[sce + 1:]
        arm = r"self\.frontend\.timeout_container\(\)\.set\(self\.frontend_token\)"
        out = ["Definition gen_rearm_after_write : bool := %s." % has(r"(\w+)\s*==\s*StateResult::Continue\s*\{\s*" + arm, sw),
               "Definition gen_rearm_delay_close : bool := %s." % has(r"delay_close_for_frontend_flush\(\"\"\)\s*\{.*?" + arm + r".*?return StateResult::Continue", sc),
               "Definition gen_rearm_wait : bool := %s." % has(r"^\s*else\s*\{\s*" + arm + r";\s*StateResult::Continue", els),
               "Definition gen_rearm_backend_wait : bool := %s." % has(r"if\s+!%s\s*\{\s*\w+\.timeout_container\(\)\.set\(token\)" % cf, tbody),
               "Definition gen_write_rounds : nat := %s." % (re.search(r"for\s+_\s+in\s+0\.\.(\d+)", sw) or [0, "0"])[1]]
        return "\n".join(out)
    fact("gen_rearm", f_rearm)

    # end_stream server arms of both protocols
    for proto, fname, src in (("h1", "h1.rs", h1), ("h2", "h2.rs", h2)):
        def f_arm(proto=proto, fname=fname, src=src):
            body, _ = R.fn_body(src, "end_stream")
            set_ctx(body, src)
            mm = re.search(r"match\s+end_stream_decision\s*\(\s*&?\w+\s*\)\s*\{", body)
            if not mm:
                lm = re.search(r"let\s+(\w+)\s*=\s*end_stream_decision\s*\(\s*&?\w+\s*\)\s*;", body)
                mm = lm and re.compile(r"match\s+%s\s*\{" % lm.group(1)).search(body, lm.end())
            if not mm:
                raise R.Unrecognised("%s: no match on end_stream_decision(stream)" % fname)
            ab = body[mm.end() - 1:]
            ab = ab[1:R.match_brace(ab, 0)]
            rows = {}
            for pat, b in R.match_arms(ab):
                m2 = re.fullmatch(r"EndStreamAction::(\w+)(?:\((\w+)\))?", pat)
                if not m2 or m2.group(1) not in ACTIONS:
                    raise R.Unrecognised("%s end_stream arm %r" % (fname, pat))
                rows[m2.group(1)] = tree_coq(R.parse_block(b), "%s end_stream arm %s" % (fname, pat))
            if sorted(rows) != sorted(ACTIONS):
                fails.append("%s: end_stream arms are %s" % (fname, sorted(rows)))
            return "Definition gen_end_arm_%s (a : atag) : dtree :=\n  match a with\n%s\n  end." % (proto, "\n".join(
                "  | T%s => %s" % (a, rows.get(a, "Leaf []")) for a in ACTIONS))
        fact("gen_end_arm_" + proto, f_arm)

    # answers.rs: what the two helpers do to the stream
    def f_answers():
        b1, _ = R.fn_body(ans, "set_default_answer_with_retry_after")
        b2, _ = R.fn_body(ans, "forcefully_terminate_answer")
        b0, _ = R.fn_body(ans, "set_default_answer")
        set_ctx(b1, ans)
        if not re.search(r"set_default_answer_with_retry_after\s*\(\s*\w+\s*,\s*\w+\s*,\s*\w+\s*,\s*\w+\s*,\s*None\s*\)", b0):
            fails.append("answers.rs: set_default_answer no longer forwards to set_default_answer_with_retry_after(.., None)")
        # shape facts the in-process `answer` op observes (buffer content, end flag, recorded status)
        ends = re.search(r"end_stream\s*:\s*true|\.end_stream\s*=\s*true", b1) is not None
        for cm in re.finditer(r"\b(\w+)\s*\(\s*(?:&mut\s+)?\w+\s*\)\s*;", b1):
            try:
                hb, _ = R.fn_body(ans, cm.group(1))
            except R.Unrecognised:
                continue
            if re.search(r"end_stream", hb):
                ends = True
        for ok, what in ((re.search(r"\b\w+\.clear\(\)\s*;", b1), "clears the response kawa first"), (ends, "ensures an end_stream flag"),
                         (re.search(r"context\.status\s*=\s*Some\(\w+\)", b1), "records the resolved status")):
            if not ok:
                fails.append("answers.rs: set_default_answer no longer %s" % what)
        return ("Definition gen_default_answer_effs : list eff := [%s].\n" % "; ".join(e for e in effects(re.sub(r"\bmatch\b", "switch", b1), "set_default_answer") if not e.startswith("EAns"))
                + "Definition gen_force_effs : list eff := [%s]." % "; ".join(effects(b2, "forcefully_terminate_answer")))
    fact("gen_answer_effs", f_answers)

    def f_codes():
        db0 = R.fn_body(ans, "default_answer_for_code")[0]
        dm = re.search(r"\bmatch\s+\w+\s*\{", db0)
        db = db0[dm.end() - 1:]
        consts = dict(re.findall(r"\bconst\s+(\w+)\s*:\s*\w+\s*=\s*(\d+)\s*;", ans))
        codes = []
        for p_, _ in R.match_arms(db[1:R.match_brace(db, 0)]):
            for alt in re.split(r"\s*\|\s*", p_):
                alt = consts.get(alt.strip(), alt.strip())
                if alt.isdigit():
                    codes.append(alt)
        return "Definition gen_known_codes : list N := [%s]." % "; ".join(codes)
    fact("gen_known_codes", f_codes)

    # (iv) retry budget
    def f_retries():
        srv = R.strip(open(os.path.join(vlib.REPO, "lib/src/server.rs")).read())
        m = re.search(r"\bconst\s+CONN_RETRIES\s*:\s*\w+\s*=\s*(\d+)\s*;", srv)
        if not m:
            raise R.Unrecognised("server.rs: CONN_RETRIES")
        rt = R.strip(open(os.path.join(MUX, "router.rs")).read())
        cb, _ = R.fn_body(rt, "connect")
        cut = re.search(r"\battempts\s*\+=\s*1\s*;", cb)
        if not cut:
            raise R.Unrecognised("router.rs connect: `attempts += 1` not found")
        pre = R.expand(cb[:cut.start()], {k: v for k, v in R.let_bindings(cb[:cut.start()]).items() if "attempts" in v or "CONN_RETRIES" in v})
        g = re.search(r"if\s+\(?[\w.()]*attempts\)?\s*(>=|>|==|<=|<)\s*\(?CONN_RETRIES\)?\s*\{", pre)
        op = g and g.group(1)
        if not g:
            g = re.search(r"if\s+\(?CONN_RETRIES\)?\s*(>=|>|==|<=|<)\s*\(?[\w.()]*attempts\)?\s*\{", pre)
            op = g and {"<=": ">=", "<": ">", ">=": "<=", ">": "<", "==": "=="}[g.group(1)]
        if not g:
            raise R.Unrecognised("router.rs connect: no comparison of stream.attempts with CONN_RETRIES before `attempts += 1`")
        blk = pre[g.end() - 1:]
        blk = blk[1:R.match_brace(blk, 0)]
        if not re.search(r"return\s+Err\(\s*BackendConnectionError::MaxConnectionRetries", blk):
            fails.append("router.rs connect: the retry guard no longer returns MaxConnectionRetries")
        if not re.search(r"if\s+!matches!\(\s*\w+\.state\s*,\s*StreamState::Link\s*\)\s*\{.*?return\s+Err\(", cb, re.S):
            fails.append("router.rs: connect no longer rejects a stream that is not in Link state")
        return ("Definition gen_conn_retries : nat := %s.\n" % m.group(1)
                + "Definition gen_retry_guard_ge : bool := %s." % ("true" if op == ">=" else "false"))
    fact("gen_retries", f_retries)

    # h1.rs writable: when the client connection is kept after a relayed response; the head gate
    def guard_expr(body, pos, binds):
        gs = R.enclosing_guard(body, pos)
        return " && ".join("(%s)" % g for g in gs) or "true"

    def f_h1_keepalive():
        wb, _ = R.fn_body(h1, "writable")
        binds = R.let_bindings(wb)
        cand = None
        for m in re.finditer(r"\bif\b", wb):
            cb = R._cond_before(wb, wb.index("{", m.end())) if "{" in wb[m.end():] else None
            if cb and "keep_alive_frontend" in R.expand(cb[0], {k: v for k, v in binds.items() if "keep_alive" in v}) and not cb[0].startswith("let "):
                cand = cb[0]
                break
        if cand is None:
            raise R.Unrecognised("h1.rs writable: the keep-alive decision (an `if` on keep_alive_frontend) was not found")

        def cl(t):
            t0 = "".join(t.split())
            if re.search(r"keep_alive_frontend$", t0):
                return "KAF"
            if re.search(r"keep_alive_backend$", t0):
                return "KAB"
            if re.fullmatch(r"[\w.()]*back\)*\.expects(>0|!=0|>=1)", t0) or re.fullmatch(r"0<[\w.()]*back\)*\.expects", t0):
                return "EXP"
            if re.fullmatch(r"[\w.()]*back\)*\.expects==0", t0):
                return ("not", ("atom", "EXP"))
            m_ = re.fullmatch(r"[\w.()]*\.method(!=|==)Some\((?:\w+::)*Method::Head\)", t0)
            if m_:
                return ("atom", "HEAD") if m_.group(1) == "==" else ("not", ("atom", "HEAD"))
            if re.search(r"\bfront\)*\.is_terminated\(\)$", t0):
                return "FT"
            if re.fullmatch(r"\w+", t0) and t0 in binds:
                return None                      # a let-bound name: read its definition
            # the decision was found; a test it makes that the model does not know is a DIFFERENT decision
            return "OTHER:" + t0
        e = R.parse_bool(cand, cl, binds)
        A = lambda n: ("atom", n)
        by_close = ("and", ("and", ("not", A("KAB")), A("EXP")), ("not", A("HEAD")))
        return ("Definition gen_h1_close_after_close : bool := %s.\n" % ("true" if R.bool_implies(e, ("not", by_close)) and R.bool_implies(e, A("KAF")) else "false")
                + "Definition gen_h1_close_if_request_open : bool := %s." % ("true" if R.bool_implies(e, A("FT")) and R.bool_implies(e, A("KAF")) else "false"))
    fact("gen_h1_keepalive", f_h1_keepalive)

    def f_head_gate():
        wb, _ = R.fn_body(h1, "writable")
        binds = R.let_bindings(wb)
        ps = [m.start() for m in re.finditer(r"\.prepare\(\s*&mut\s+kawa::h1::BlockConverter\s*\)", wb)]
        if len(ps) != 1 or len(re.findall(r"\.prepare\(", wb)) != 1:
            raise R.Unrecognised("h1.rs writable: expected exactly one kawa.prepare(&mut kawa::h1::BlockConverter)")

        def cl(t):
            t0 = "".join(t.split())
            if t0 == "true":
                return True
            if re.fullmatch(r"matches!\(self\.position,Position::Server\)|self\.position\.is_server\(\)", t0):
                return "SRV"
            if re.fullmatch(r"self\.position\.is_client\(\)|matches!\(self\.position,Position::Client\(\.\.\)\)", t0):
                return ("not", ("atom", "SRV"))
            if re.search(r"\.is_main_phase\(\)$", t0):
                return "MAIN"
            if re.search(r"\.is_error\(\)$", t0):
                return "ERR"
            return None
        e = R.parse_bool(guard_expr(wb, ps[0], binds), cl, binds)
        A = lambda n: ("atom", n)
        blocked = ("and", ("and", A("SRV"), ("not", A("MAIN"))), ("not", A("ERR")))
        return "Definition gen_h1_head_gate : bool := %s." % ("true" if R.bool_implies(blocked, ("not", e)) else "false")
    fact("gen_h1_head_gate", f_head_gate)

    def interim_cl(extra):
        def cl(t):
            t0 = "".join(t.split())
            while t0.startswith("(") and R.match_brace(t0, 0, "(", ")") == len(t0) - 1:
                t0 = t0[1:-1]
            if t0 == "true":
                return True
            if is_interim_expr(t0):
                return "INTERIM"
            if re.search(r"keep_alive_backend$", t0):
                return "KAB"
            if re.search(r"\bfront\)*\.is_terminated\(\)$", t0):
                return "REQ_TERM"
            if re.search(r"\bfront\)*\.is_completed\(\)$", t0):
                return "REQ_WRITTEN"
            if re.search(r"\.is_terminated\(\)$", t0):
                return "TERM"
            return extra(t0)
        return cl

    def f_park():
        eb, _ = R.fn_body(h1, "end_stream")
        binds = R.let_bindings(eb)
        ps = [m.start() for m in re.finditer(r"=\s*BackendStatus::KeepAlive\s*;", eb)]
        if len(ps) != 1:
            raise R.Unrecognised("h1.rs end_stream: expected exactly one `= BackendStatus::KeepAlive;`")
        e = R.parse_bool(guard_expr(eb, ps[0], binds), interim_cl(lambda t0: None), binds)
        A = lambda n: ("atom", n)
        want = ("and", ("and", A("KAB"), A("TERM")), ("not", A("INTERIM")))
        # the request side (the model's "request completely sent": parsed to its end; the source also asks that
        # every byte of it was written, which the model does not tell apart)
        return ("Definition gen_park_requires_terminated : bool := %s.\n" % ("true" if R.bool_implies(e, want) else "false")
                + "Definition gen_park_requires_request_sent : bool := %s." % ("true" if R.bool_implies(e, A("REQ_TERM")) else "false"))
    fact("gen_park_requires_terminated", f_park)

    def f_waits():
        rd, _ = R.fn_body(mod, "ready")
        binds = R.let_bindings(rd)
        ps = [m.start() for m in re.finditer(r"\bdead_backends\.push\(", rd)]
        if len(ps) != 1:
            raise R.Unrecognised("mod.rs ready: the dead-backend close (`dead_backends.push(`) was not found")

        def behind(name):
            try:
                ub, _ = R.fn_body(cn, name)
            except R.Unrecognised:
                return False
            ubinds = R.let_bindings(ub)
            tails = [t for t in re.split(r";|\{|\}|=>", ub) if "unparsed_data" in R.expand(t, ubinds) and "let " not in t]
            for t in tails:
                try:
                    def cl2(x):
                        x0 = "".join(x.split())
                        if re.search(r"unparsed_data\(\)\)*\.is_empty\(\)$", x0):
                            return "EMPTY"
                        return None
                    e2 = R.parse_bool(t.strip().rstrip(","), interim_cl(lambda x0: "EMPTY" if re.search(r"unparsed_data\(\)\)*\.is_empty\(\)$", x0) else None), ubinds)
                except R.Unrecognised:
                    continue
                A = lambda n: ("atom", n)
                if R.bool_equiv(e2, ("and", ("and", A("INTERIM"), A("TERM")), ("not", A("EMPTY")))) and re.search(r"\.back\b", R.expand(t, ubinds) + ub):
                    return True
            return False

        def cl(t0):
            if t0 == "dead":
                return "DEAD"
            if re.search(r"\.event\)*\.is_hup\(\)$", t0):
                return "HUP"
            if re.search(r"\.event\)*\.is_error\(\)$", t0):
                return "ERRV"
            if re.search(r"filter_interest\(\)\.is_readable\(\)$", t0):
                return "READABLE"
            m_ = re.fullmatch(r"\w+\.(\w+)\(&self\.context\)", t0)
            if m_ and m_.group(1) == "has_buffer_pressure":
                return "PRESSURE"
            if m_ and behind(m_.group(1)):
                return "BEHIND"
            if m_:
                return "OTHER:" + m_.group(1)      # another predicate: recognised, not the one the model assumes
            return None
        gs = R.enclosing_guard(rd, ps[0])
        if not gs:
            raise R.Unrecognised("mod.rs ready: the dead-backend close is not under an `if`")
        e = R.parse_bool(gs[0], lambda t: cl("".join(t.split())), binds)
        A = lambda n: ("atom", n)
        if not R.bool_implies(e, ("or", A("DEAD"), ("or", A("HUP"), A("ERRV")))):
            raise R.Unrecognised("mod.rs ready: the guard of the dead-backend close does not test `dead`")
        waits = R.bool_implies(e, ("not", A("BEHIND")))
        # the read path parses the buffered leftover when the socket has nothing more (WouldBlock) or is closed
        rb, _ = R.fn_body(h1, "readable")
        rbinds = R.let_bindings(rb)
        lname = [k for k, v in rbinds.items() if "unparsed_data" in v and "is_initial" in v]
        if len(lname) != 1:
            raise R.Unrecognised("h1.rs readable: the leftover-after-interim test (a `let` on is_initial and unparsed_data) was not found")
        lv = "".join(rbinds[lname[0]].split())
        sm = re.search(r"matches!\(status,([\w:|]+)\)", lv)
        stat = set(re.findall(r"SocketResult::(\w+)", sm.group(1))) if sm else set(re.findall(r"status==SocketResult::(\w+)", lv))
        parses = ({"WouldBlock", "Closed"} <= stat and re.search(r"\bsize==0\b", lv) is not None and "is_client()" in lv
                  and re.search(r"if\s+update_readiness_after_read\([^)]*\)\s*&&\s*!%s\s*\{" % lname[0], rb) is not None)
        return "Definition gen_close_waits_behind_interim : bool := %s." % ("true" if waits and parses else "false")
    fact("gen_close_waits_behind_interim", f_waits)
    return facts, unread, fails


FACT_ORDER = ["gen_esd", "gen_connect", "gen_front_timeout", "gen_back_timeout", "gen_rearm", "gen_end_arm_h1", "gen_end_arm_h2",
              "gen_answer_effs", "gen_known_codes", "gen_retries", "gen_h1_keepalive", "gen_h1_head_gate",
              "gen_park_requires_terminated", "gen_close_waits_behind_interim"]
GEN_TAIL = ("Definition gen_tables : tables :=\n  mkT gen_esd gen_connect gen_redirect_fallback gen_front_timeout gen_back_timeout\n"
            "      (fun h2 => if h2 then gen_end_arm_h2 else gen_end_arm_h1) gen_default_answer_effs gen_force_effs gen_known_codes\n"
            "      gen_conn_retries gen_retry_guard_ge gen_rearm_after_write gen_rearm_delay_close gen_rearm_wait gen_rearm_backend_wait\n      gen_h1_close_after_close gen_h1_close_if_request_open gen_h1_head_gate\n      gen_park_requires_terminated gen_park_requires_request_sent gen_close_waits_behind_interim.")


def snapshot():
    """(re)write props/c02_facts.json from the current source — by hand, never at check time; commit the result"""
    import json
    facts, unread, fails = read_facts()
    if unread or fails:
        raise SystemExit("cannot snapshot: %r %r" % (unread, fails))
    json.dump(facts, open(FACTS_FILE, "w"), indent=1, sort_keys=True)


def translate_tables():
    """-> (Gen.v text, failures)"""
    import json
    facts, unread, fails = read_facts()
    snap = json.load(open(FACTS_FILE)) if os.path.exists(FACTS_FILE) else {}
    lines = ["(* GENERATED by props/c02.py:translate from /repo — do not edit. *)",
             "From Coq Require Import List NArith.", "From SV Require Import C02.Model.", "Import ListNotations.", "Open Scope N_scope.", ""]
    for name in FACT_ORDER:
        if name in facts:
            lines.append(facts[name])
        elif name in snap:
            lines.append(snap[name])           # keeps Gen.v well-formed; the failure / `unreadable:` message is reported below
        else:
            fails.append("%s could not be read and props/c02_facts.json has no snapshot of it: %s" % (name, unread.get(name)))
    for name, why in unread.items():
        fails.append("unreadable: %s: %s; the model keeps the fact last read (props/c02_facts.json)" % (name, why))
    lines.append(GEN_TAIL)
    return "\n".join(lines) + "\n", fails


TRANSLATE_FALLBACK = ("the only fact that may be reported unreadable is the tree of shared.rs end_stream_decision: the in-process "
                      "correspondence run calls the real function on its whole finite domain (640 points: stream state x parsing phase x "
                      "keep_alive_backend x front.consumed x back.consumed x pending output x interim status line) on every run and "
                      "compares each decision with the model's, so any change of that tree is a disagreement whatever its spelling "
                      "(harmless/C02_esd_unreadable_* show both directions); the model then keeps the tree last read "
                      "(props/c02_facts.json). Every other fact that cannot be read, or reads differently, is a hard failure")


def translate():
    text, fails = translate_tables()
    vlib.write_if_changed(os.path.join(vlib.COQ, "C02", "Gen.v"), text)
    return fails


if __name__ == "__main__":
    t, f = translate_tables()
    print(t)
    print(f)


# ---------------------------------------------------------------------------
# in-process cases (real Stream + real helpers through the hook)

RULE = ("in-process: (x*) the whole finite domain of end_stream_decision — every stream state x kawa parsing phase x "
        "keep_alive_backend x front.consumed x back.consumed x pending-output, 640 points, every run; (a*) "
        "set_default_answer for every status the mux can ask for plus unknown codes, from seeded random stream states, "
        "followed by esd / force / a second answer; (f*) forcefully_terminate_answer likewise. Non-trivial and distinct: "
        "the case reaches at least two different EndStreamAction values or installs an answer on a stream whose response "
        "was already partly consumed; distinct by op text. Black-box: see extra_stage.")
ASSUMPTIONS = [
    "kawa (parser, block converter, Kawa::clear/is_main_phase/...) behaves as its interface says; its phase predicates are re-checked on all 8 phases by the exhaustive run",
    "the session feeds the per-request automaton the inputs the model assumes (mio readiness, timer wheel, kernel close/reset semantics): exercised by the black-box fault enumeration only",
    "HttpAnswers templates are the listener defaults (custom templates may resolve another status; the model uses the resolved status)",
]
TRUSTED = ["translator props/c02.py:translate + tools/rustmini.py regenerate coq/C02/Gen.v (end_stream_decision tree, connect-error table, both timeout trees, h1/h2 end_stream arms, answer helper effects, retry budget, the h1.rs keep-alive / head-gate / park rules, the dead-backend check that waits for bytes unparsed behind an interim) from lib/src/protocol/mux/{shared,mod,h1,h2,answers,router,connection}.rs and lib/src/server.rs",
           "props/c02_facts.json: committed snapshot of the facts last read (written by props.c02.snapshot() by hand, never at check time); a fact whose construct is no longer recognised is generated from it and reported `unreadable:` (TRANSLATE_FALLBACK)",
           "black-box tier: sozu-e2e Worker + scripted raw-socket peers in harness/src/bin/c02bb.rs"]
CODES = [301, 302, 308, 400, 401, 404, 408, 421, 429, 502, 503, 504]
ODD_CODES = [0, 100, 200, 204, 304, 413, 418, 500, 501, 505, 507, 599, 65535]


def exhaustive_cases():
    out, ops, k = [], [["new", 0]], 0
    for st in range(5):
        for ph in range(8):
            for bits in range(16):
                ka, fc, bc, pend = bits & 1, (bits >> 1) & 1, (bits >> 2) & 1, (bits >> 3) & 1
                ops.append(["set", st, ph, ka, fc, bc, pend, 0, 0])
                ops.append(["esd"])
                # the same point with an interim / upgrade / final status line in the response buffer
                for line in (100, 103, 101, 200):
                    ops.append(["setline", line])
                    ops.append(["esd"])
                ops.append(["setline", 0])
                if len(ops) >= 33:
                    out.append(Case("x%d" % k, ops, dict(kind="x")))
                    k += 1
                    ops = [["new", 0]]
    if len(ops) > 1:
        out.append(Case("x%d" % k, ops, dict(kind="x")))
    return out


def rand_set(rng):
    return ["set", rng.randrange(5), rng.randrange(8), rng.randrange(2), rng.randrange(2), rng.randrange(2),
            rng.randrange(2), rng.randrange(2), rng.randrange(2)]


def answer_case(rng, cid):
    ops = [["new", rng.randrange(2)]]
    for _ in range(rng.randint(2, 10)):
        r = rng.random()
        if r < 0.35:
            ops.append(rand_set(rng))
        elif r < 0.55:
            ops.append(["esd"])
        elif r < 0.85:
            ops.append(["answer", rng.choice(CODES) if rng.random() < 0.75 else rng.choice(ODD_CODES)])
        else:
            ops.append(["force"])
    ops.append(["esd"])
    return Case(cid, ops, dict(kind="a"))


def gen_cases(rng, tier):
    n = {"quick": 1500, "thorough": 20000, "search": 4000}.get(tier, 1500)
    out = exhaustive_cases()
    for c in CODES + ODD_CODES:
        out.append(Case("c%d" % c, [["new", 0], ["set", 2, 1, 1, 1, 1, 1, 0, 0], ["answer", c], ["esd"]], dict(kind="a")))
    for i in range(n):
        out.append(answer_case(rng, "a%d" % i))
    return out


def corpus_cases():
    d = os.path.join(vlib.ROOT, "corpus", ID)
    out = []
    if os.path.isdir(d):
        for f in sorted(os.listdir(d)):
            if f.endswith(".case"):
                for c in vlib.parse_cases(open(os.path.join(d, f)).read()):
                    c.id = "k" + c.id
                    out.append(c)
    return out


def nontrivial(case, o):
    acts = set()
    partly = False
    last_set = None
    for op, ob in zip(case.ops, o["obs"]):
        if op[0] == "esd" and ob:
            acts.add(ob[0])
        if op[0] == "set":
            last_set = op
        if op[0] == "answer" and last_set is not None and last_set[5] == 1:
            partly = True
    return len(acts) >= 2 or partly


LEVEL_TEXT = ("Machine-checked proof (Coq 8.16) over an executable per-request life-cycle automaton whose decision tables "
              "(end_stream_decision, connect-error -> status, frontend/backend timeout arms, h1/h2 end_stream arms, retry budget) "
              "are regenerated from the Rust source on every run and proved equal to the documented tables; in-process exhaustive "
              "differential run of the real end_stream_decision / set_default_answer / forcefully_terminate_answer against the "
              "extracted model; black-box fault enumeration through a real worker compared with the automaton's prediction.")
LEVEL_NOTE = ("PARTIAL: the decision logic is proved on the model; the binding of the automaton's inputs to the live session "
              "(mio readiness, timer wheel, kernel socket semantics, kawa parsing) is by generated tables plus black-box runs, "
              "not by proof. 1xx interim responses, upgrades and H2 backends are outside the automaton's alphabet.")
TECHNIQUE = "Rocq/Coq proof over an executable Gallina model + source translator (T-table) + differential correspondence + black-box fault enumeration"
CLAIMED = True


# ---------------------------------------------------------------------------
# black-box fault enumeration (extra_stage): real worker, scripted peers

HARNESS_BINS = ["c02", "c02bb"]
HEAD_CL = b"HTTP/1.1 200 OK\r\nContent-Length: 20\r\nX-Test: abcdefgh\r\n\r\n"
HEAD_CH = b"HTTP/1.1 200 OK\r\nTransfer-Encoding: chunked\r\n\r\n"
HEAD_CD = b"HTTP/1.1 200 OK\r\nConnection: close\r\n\r\n"
HEAD_CLC = b"HTTP/1.1 200 OK\r\nContent-Length: 20\r\nConnection: close\r\n\r\n"
BODY = b"0123456789abcdefghij"
CHUNKED = b"a\r\n0123456789\r\na\r\nabcdefghij\r\n0\r\n\r\n"
PRE = ["req_head", "connect_ok", "req_sent"]


def predict_inputs(kind, k):
    """-> (list of admissible input schedules for the model, expected body length of a relayed 200 or None)"""
    if kind in ("close_at", "reset_at", "stall_after", "chunked_close_at", "close_delim_at", "cl_close_at"):
        head, full = {"chunked_close_at": (HEAD_CH, HEAD_CH + CHUNKED), "close_delim_at": (HEAD_CD, HEAD_CD + BODY),
                      "cl_close_at": (HEAD_CLC, HEAD_CLC + BODY)}.get(kind, (HEAD_CL, HEAD_CL + BODY))
        k = min(k, len(full))
        lost = "back_timeout" if kind == "stall_after" else "back_close"
        if kind == "cl_close_at" and k == len(full):
            # complete, length-delimited, "Connection: close": relayed, client connection kept
            return [PRE + ["back_head", "back_end", "front_write"]], 20
        if kind in ("close_delim_at", "cl_close_at") and k >= len(head):
            pre = PRE + ["back_no_keepalive", "back_head"]
            return [pre + ["back_close", "front_write"], pre + ["front_write", "back_close", "front_write"]], k - len(head)
        if k == 0:
            return [PRE + [lost]], None
        if k < len(head):
            return [PRE + ["back_partial", lost]], None
        # a reset may destroy bytes the proxy has not read yet: the k = 0 schedule is admissible too
        rst = [PRE + [lost]] if kind == "reset_at" else []
        if k < len(full):
            pre = PRE + ["back_head"]
            return rst + [pre + [lost, "front_write", "front_timeout"],
                    pre + ["front_write", lost, "front_write", "front_timeout"],
                    pre + ["front_write_partial", lost, "front_write", "front_timeout"]], None
        if kind == "stall_after":
            return [PRE + ["back_head", "back_end", "front_write"]], 20
        return [PRE + ["back_head", "back_end", "front_write"]], 20
    if kind == "refuse":
        return [["req_head"] + ["connect_ok", "back_close"] * 3 + ["connect_ok"]], None
    if kind == "stall":
        return [PRE + ["back_timeout"]], None
    if kind == "garbage":
        return [PRE + ["back_garbage"]], None
    if kind == "nohost":
        return [["req_head", "KNoClusterFound"]], None
    if kind == "nobackend":
        return [["req_head", "KNoBackendForCluster"]], None
    if kind == "redirect":
        return [["req_head", "KHttpsRedirect"]], None
    if kind == "slow_client":
        return [["front_timeout"]], None
    raise ValueError(kind)


def classify_events(toks):
    """model event tokens of one request -> class"""
    evs = []
    i = 0
    while i < len(toks):
        t = toks[i]
        if t == "default":
            evs.append(("default", toks[i + 1])); i += 2
        elif t == "abort":
            evs.append(("abort",)); i += 2
        else:
            evs.append((t,)); i += 1
    for e in evs:
        if e[0] == "default":
            return "default %d" % e[1]
    if ("relay_end",) in evs:
        return "relay"
    if ("abort",) in evs or ("relay_start",) in evs:
        return "abort"
    return "none"


def classify_obs(r):
    if r.get("hang"):
        return "hang"
    if r["complete"] and r["status"] == 200:
        return "relay"
    if r["complete"] and r["status"]:
        return "default %d" % r["status"]
    if r["eof"]:
        return "abort"
    return "none"


def bb_scenarios(tier, rng):
    s = [("close_at", k) for k in (0, 9, 17, 30, 57, 58, 59, 70, 77, 78)]
    s += [("refuse", 0), ("stall", 0), ("stall_after", 65), ("reset_at", 0), ("reset_at", 65), ("garbage", 0),
          ("nohost", 0), ("nobackend", 0), ("redirect", 0), ("slow_client", 0),
          ("chunked_close_at", 60), ("chunked_close_at", len(HEAD_CH + CHUNKED)),
          ("close_delim_at", 50), ("close_delim_at", len(HEAD_CD + BODY)), ("keepalive_close", 0),
          ("cl_close_at", 30), ("cl_close_at", 66), ("cl_close_at", len(HEAD_CLC + BODY)), ("cl_close_twice", 0),
          ("early_response", 0), ("continue100", 0), ("expect100", 0), ("hints103", 0), ("processing102", 0),
          ("continue_then_close", 0), ("continue_then_close", 1), ("continue_then_close", 2),
          ("upgrade_then_close", 0), ("two_finals", 0), ("burst103", 0), ("burst103", 1), ("burst100", 0),
          ("reuse_stall", 0), ("reuse_stall_after", 65), ("reuse_close_at", 0), ("reuse_close_at", 30), ("reuse_close_at", 65),
          ("reuse_reset_at", 0), ("sticky_refusing", 0), ("abort_then_next", 0)]
    if tier != "quick":
        s += [("close_at", k) for k in range(0, len(HEAD_CL + BODY) + 1)]
        s += [("reset_at", k) for k in range(0, len(HEAD_CL + BODY), 3)]
        s += [("chunked_close_at", k) for k in range(0, len(HEAD_CH + CHUNKED) + 1, 2)]
        s += [("close_delim_at", k) for k in range(len(HEAD_CD) - 3, len(HEAD_CD + BODY) + 1)]
        s += [("stall_after", k) for k in (0, 20, 58, 60, 77)]
        s += [("cl_close_at", k) for k in range(len(HEAD_CLC) - 2, len(HEAD_CLC + BODY) + 1)]
    return s


def run_bb(scns, work, tag):
    p = os.path.join(work, "bb_%s.txt" % tag)
    with open(p, "w") as f:
        for i, (kind, k) in enumerate(scns):
            f.write("scn %d %s %d\n" % (i, kind, k))
    rc, o, e, dt = vlib.sh([vlib.harness_path("c02bb"), p], timeout=240, cwd=work)
    res = {}
    for line in o.splitlines():
        w = line.split()
        if len(w) >= 3 and w[0] == "res":
            d = {}
            for kv in w[3:]:
                if "=" in kv:
                    a, b = kv.split("=", 1)
                    d[a] = int(b)
            res.setdefault(int(w[1]), []).append(d)
    return rc, res, e[-400:]


def model_predictions(schedules, work):
    """runs the extracted model on `auto` ops; -> list of event-token lists"""
    drv, prob = vlib.model_build(RUN_MODULE, RUN_FN)
    if drv is None:
        raise RuntimeError(prob)
    p = os.path.join(work, "bb_model.txt")
    with open(p, "w") as f:
        f.write("case 0\n")
        for sch in schedules:
            f.write("op auto 0 0 " + " ".join(sch) + "\n")
        f.write("end\n")
    rc, out, e, dt = vlib.sh([drv, p, "--print"], timeout=120, cwd=work)
    rows = [l.split()[2:] for l in out.splitlines() if l.startswith("mobs")]
    return [[vlib.tok_parse(x) for x in r] for r in rows]


def extra_stage(tier, rng, work):
    scns = bb_scenarios(tier, rng)
    failures, viols = [], []
    # predictions
    flat, index = [], []
    for kind, k in scns:
        if kind.startswith("reuse_"):
            # keep-alive reuse of the client and of the backend connection: the fault hits the SECOND request;
            # the automaton's prediction for that request is the one of the plain fault (after a recycle)
            sch, blen = predict_inputs(kind[len("reuse_"):], k)
            index.append((len(flat), len(sch), blen))
            flat += sch
            continue
        if kind in ("keepalive_close", "cl_close_twice", "early_response", "continue100", "expect100", "hints103", "processing102",
                    "continue_then_close", "upgrade_then_close", "two_finals", "sticky_refusing", "abort_then_next", "burst103", "burst100"):
            index.append(None)
            continue
        sch, blen = predict_inputs(kind, k)
        index.append((len(flat), len(sch), blen))
        flat += sch
    try:
        preds = model_predictions(flat, work)
    except Exception as ex:
        return dict(failures=["black-box: model predictions unavailable: %r" % (ex,)], viols=[], coverage={})
    if len(preds) != len(flat):
        return dict(failures=["black-box: model printed %d predictions for %d schedules" % (len(preds), len(flat))], viols=[], coverage={})

    def judge(res):
        """-> list of (scenario index, class, text) disagreements / property violations"""
        bad = []
        for i, (kind, k) in enumerate(scns):
            rs = res.get(i)
            if not rs:
                bad.append((i, "bb-no-result", "%s %d: no result from the driver" % (kind, k)))
                continue
            for r in rs:
                if r.get("hang"):
                    bad.append((i, "bb-hang", "%s %d: no answer and no close within the deadline" % (kind, k)))
                if r.get("emb"):
                    bad.append((i, "bb-answer-in-body", "%s %d: a status line sits inside the body of a response that had started (status %s): answer bytes were appended to it"
                                % (kind, k, r.get("status"))))
                if r.get("extra") and r.get("status", 0) // 100 != 1:
                    bad.append((i, "bb-two-answers", "%s %d: %d bytes follow a complete response" % (kind, k, r["extra"])))
            if kind == "early_response":
                # the backend answered before the request body was complete: the response is relayed, and the
                # rest of the body must not be taken for a new request (no second answer on this connection)
                cl = [classify_obs(r) for r in rs]
                if not cl or cl[0] != "relay" or rs[0]["body"] != 20:
                    bad.append((i, "bb-mismatch", "early_response: first answer observed %s" % cl[:1]))
                if len(rs) > 1 and rs[1]["status"]:
                    bad.append((i, "bb-two-answers", "early_response: a second answer (status %d) followed the early response of the same request" % rs[1]["status"]))
                continue
            if kind.startswith("reuse_"):
                start, n, blen = index[i]
                want = sorted(set(classify_events(p) for p in preds[start:start + n]))
                cl = [classify_obs(r) for r in rs]
                if not cl or cl[0] != "relay":
                    bad.append((i, "bb-mismatch", "%s %d: first request on the connection observed %s" % (kind, k, cl[:1])))
                elif len(cl) < 2:
                    bad.append((i, "bb-no-result", "%s %d: the second request was not sent (first: eof=%s)" % (kind, k, rs[0]["eof"])))
                elif kind == "reuse_stall" and cl[1] == "default 504" and rs[1].get("ms", 0) > 2500:
                    # back_timeout is 1 s, front_timeout 3 s: the 504 must come from the backend timer
                    bad.append((i, "bb-late-answer", "%s %d: the 504 of the second request came after %d ms: the backend timer (1 s) of the reused connection did not fire"
                                % (kind, k, rs[1]["ms"])))
                elif cl[1] not in want:
                    bad.append((i, "bb-reuse", "%s %d: the second request on the reused connections observed '%s', the automaton predicts %s"
                                % (kind, k, cl[1], want)))
                continue
            if kind == "abort_then_next":
                ok = len(rs) == 2 and rs[0]["body"] >= 10000 and classify_obs(rs[1]) == "relay" and rs[1]["body"] == 6 and rs[1].get("b0") == 115
                if not ok:
                    bad.append((i, "bb-cross-request", "abort_then_next: observed %s: after a client went away in the middle of a download the next client must get its own response ('second'), never the rest of the other one"
                                % [(r["status"], r["body"], r.get("b0")) for r in rs]))
                continue
            if kind == "sticky_refusing":
                # 503 is for "no usable backend": a healthy sibling exists, the refusing sticky target must not exhaust the retries
                if classify_obs(rs[0]) != "relay":
                    bad.append((i, "bb-sticky", "sticky_refusing: observed '%s' although a healthy backend exists (sticky cookie names a refusing backend)" % classify_obs(rs[0])))
                continue
            if kind == "continue_then_close":
                # an interim 100 and then the backend dies: the request is owed a 502 (the interim is not an answer);
                # the automaton: [req_head_body connect_ok req_sent back_100 (front_write) back_close] -> default 502
                final = rs[-1] if rs[-1]["status"] or len(rs) == 1 else rs[0]
                finals = [r for r in rs if r["status"] and r["status"] // 100 != 1]
                if not finals or classify_obs(finals[-1]) != "default 502":
                    bad.append((i, "bb-interim-only", "continue_then_close %d: observed %s: the request got no final answer (502 expected) after the interim response"
                                % (k, [(r["status"], r["complete"], r["eof"], r.get("hang", 0)) for r in rs])))
                continue
            if kind == "upgrade_then_close":
                ok = len(rs) == 2 and rs[0]["status"] == 101 and rs[1]["eof"] and not rs[1].get("hang") and not rs[1]["extra"]
                if not ok:
                    bad.append((i, "bb-upgrade", "upgrade_then_close: observed %s (expected the 101, then the end of the tunnel)"
                                % [(r["status"], r["eof"], r.get("hang", 0), r["extra"]) for r in rs]))
                continue
            if kind == "two_finals":
                ok = len(rs) == 2 and all(classify_obs(r) == "relay" and r["body"] == 20 for r in rs) and rs[0].get("b0") == 48 and rs[1].get("b0") == 66
                if not ok:
                    bad.append((i, "bb-cross-request", "two_finals: observed %s: the second request must get its own response (body 'B...'), not the surplus response of the first"
                                % [(r["status"], r["body"], r.get("b0")) for r in rs]))
                continue
            if kind in ("continue100", "expect100", "hints103", "processing102", "burst103", "burst100"):
                # burst*: the interim response, the complete final response and the FIN in ONE segment (automaton:
                # IBackBurst, theorem interim_final_and_close_in_one_segment)
                want1 = {"hints103": 103, "burst103": 103, "processing102": 102}.get(kind, 100)
                ok = len(rs) == 2 and rs[0]["status"] == want1 and rs[0]["complete"] and classify_obs(rs[1]) == "relay" and rs[1]["body"] == 20
                if not ok:
                    bad.append((i, "bb-interim", "%s: observed %s (expected interim %d, then the relayed 200 with 20 bytes)"
                                % (kind, [(r["status"], r["complete"], r["body"]) for r in rs], want1)))
                continue
            if kind == "cl_close_twice":
                # Connection is hop-by-hop: the backend closing its connection after a complete,
                # length-delimited response must not end the client's keep-alive connection
                cl = [classify_obs(r) for r in rs]
                if len(rs) < 2 or cl != ["relay", "relay"] or rs[0]["eof"] or any(r["body"] != 20 for r in rs):
                    bad.append((i, "bb-keepalive", "cl_close_twice: observed %s eof=%s (client connection must stay open and serve a second request)" % (cl, [r["eof"] for r in rs])))
                continue
            if kind == "keepalive_close":
                cl = [classify_obs(r) for r in rs]
                if cl[0] != "relay" or (len(cl) > 1 and cl[1] not in ("relay", "default 502", "default 503")) or len(cl) < 2:
                    bad.append((i, "bb-keepalive", "keepalive_close: observed %s" % cl))
                for r in rs:
                    if classify_obs(r) == "relay" and r["body"] != 20:
                        bad.append((i, "bb-body", "keepalive_close: relayed body has %d bytes, backend sent 20" % r["body"]))
                continue
            start, n, blen = index[i]
            want = sorted(set(classify_events(p) for p in preds[start:start + n]))
            if kind == "cl_close_at" and HEAD_CLC and len(HEAD_CLC) <= k < len(HEAD_CLC + BODY):
                # the proxy ends the message by closing (its only means); the declared
                # Content-Length lets the client see the truncation: that is an abort to the client
                want = ["abort" if w == "relay" else w for w in want]
            got = classify_obs(rs[0])
            if got not in want:
                bad.append((i, "bb-mismatch", "%s %d: client observed '%s', the automaton predicts %s" % (kind, k, got, want)))
            if got == "abort" and rs[0]["status"] == 0 and kind != "slow_client":
                # the request was fully received and the client got no byte at all, only a close
                bad.append((i, "bb-no-answer", "%s %d: no answer: the backend was lost after a complete response head, nothing was forwarded and the connection was closed after %d ms without any response" % (kind, k, rs[0].get("ms", 0))))
            if got == "relay" and blen is not None and rs[0]["body"] != blen:
                bad.append((i, "bb-body", "%s %d: relayed body has %d bytes, backend sent %d" % (kind, k, rs[0]["body"], blen)))
            if kind == "stall" and got == "default 504" and rs[0].get("ms", 0) > 2500:
                bad.append((i, "bb-late-answer", "%s %d: the 504 came after %d ms: the backend timer (1 s) did not fire" % (kind, k, rs[0]["ms"])))
        return bad

    rc, res, err = run_bb(scns, work, "0")
    if rc != 0:
        failures.append("black-box driver exit %d: %s" % (rc, err))
    bad = judge(res)
    # a disagreement only counts if it reproduces on 3 re-runs
    confirmed = []
    if bad:
        again = [set((i, c) for i, c, _ in judge(run_bb(scns, work, str(n))[1])) for n in (1, 2, 3)]
        for (i, c, t) in bad:
            if all((i, c) in a for a in again):
                confirmed.append((i, c, t))
    for (i, c, t) in confirmed:
        kind, k = scns[i]
        viols.append((Case("bb%d" % i, [["blackbox", kind, k]]), c, t))
    cov = dict(blackbox_scenarios=len(scns), blackbox_disagreements_first_run=len(bad), blackbox_confirmed=len(confirmed),
               blackbox_kinds=sorted(set(k for k, _ in scns)))
    return dict(failures=failures, viols=viols, coverage=cov)


# ---------------------------------------------------------------------------
# black-box tier, H2/TLS frontend: three streams share one client connection; the middle one
# goes to the cluster whose backend injects the fault, its siblings to an HTTP/1 and an h2c backend

HARNESS_BINS = ["c02", "c02bb", "c02h2bb"]


def h2_scenarios(tier):
    s = [("close_at", k) for k in (0, 30, 57, 70, 77)]
    s += [("refuse", 0), ("stall", 0), ("stall_after", 65), ("reset_at", 0), ("reset_at", 65), ("garbage", 0),
          ("chunked_close_at", 60), ("chunked_close_at", len(HEAD_CH + CHUNKED)), ("close_delim_at", 50),
          ("close_delim_at", len(HEAD_CD + BODY)), ("nobackend", 0), ("nohost", 0)]
    # the faulty stream on a scripted h2c backend (harness/src/h2bb.rs h2c_fault_backend): faults before any
    # response byte, and after HEADERS 200 (content-length 3000) + 1000 bytes of DATA
    s += [("h2c_" + f, 0) for f in ("rst_first", "refused", "goaway_first", "close_first", "rst_mid", "close_mid", "stall_mid", "goaway_mid")]
    # two streams answered by the proxy itself at different moments while a third waits for a slow healthy
    # backend (every order), and a client-side RST_STREAM(CANCEL) in the middle of a response followed by a
    # new stream to the same cluster (the half-read backend connection must not be reused)
    s += [("drain_a", 0), ("drain_b", 0), ("drain_c", 0), ("cancel_reuse", 0)]
    if tier != "quick":
        s += [("close_at", k) for k in range(1, len(HEAD_CL + BODY), 4)]
        s += [("reset_at", k) for k in range(3, len(HEAD_CL + BODY), 7)]
        s += [("chunked_close_at", k) for k in range(0, len(HEAD_CH + CHUNKED), 5)]
        s += [("close_delim_at", k) for k in range(len(HEAD_CD) - 2, len(HEAD_CD + BODY))]
    return s


def run_h2(scns, work, tag):
    p = os.path.join(work, "bbh2_%s.txt" % tag)
    with open(p, "w") as f:
        for i, (kind, k) in enumerate(scns):
            f.write("scn %d %s %d\n" % (i, kind, k))
    rc, o, e, dt = vlib.sh([vlib.harness_path("c02h2bb"), p], timeout=300, cwd=work)
    res, alive = {}, None
    for line in o.splitlines():
        w = line.split()
        if len(w) >= 3 and w[0] == "res":
            d = {}
            for kv in w[3:]:
                if "=" in kv:
                    a, b = kv.split("=", 1)
                    d[a] = int(b) if b.lstrip("-").isdigit() else b
            res.setdefault(int(w[1]), {})[int(w[2])] = d
        if w and w[0] == "alive":
            alive = w[1] == "1"
    return rc, res, alive, e[-400:]


def classify_h2(d):
    if d.get("end") == "clean":
        return "relay" if d.get("status") == 200 else "default %s" % d.get("status")
    if d.get("end") == "rst":
        return "abort"
    return "unanswered-close" if d.get("closed") else "hang"


def model_predictions_h2(schedules, work):
    drv, prob = vlib.model_build(RUN_MODULE, RUN_FN)
    if drv is None:
        raise RuntimeError(prob)
    p = os.path.join(work, "bbh2_model.txt")
    with open(p, "w") as f:
        f.write("case 0\n")
        for sch in schedules:
            f.write("op auto 1 0 " + " ".join(sch) + "\n")
        f.write("end\n")
    rc, out, e, dt = vlib.sh([drv, p, "--print"], timeout=120, cwd=work)
    return [[vlib.tok_parse(x) for x in l.split()[2:]] for l in out.splitlines() if l.startswith("mobs")]


def h2_stage(tier, work):
    scns = h2_scenarios(tier)
    H2C_BASE = {"rst_first": ("close_at", 0), "refused": ("close_at", 0), "goaway_first": ("close_at", 0), "close_first": ("close_at", 0),
                "rst_mid": ("close_at", 70), "close_mid": ("close_at", 70), "stall_mid": ("stall_after", 65),
                "goaway_mid": ("close_at", len(HEAD_CL + BODY))}
    flat, index = [], []
    for kind, k in scns:
        if kind.startswith("drain_") or kind == "cancel_reuse":
            index.append(None)
            continue
        if kind.startswith("h2c_"):
            # the automaton's inputs for the same fault shape (lost before any response byte / lost or silent
            # after the head and part of the body / graceful GOAWAY with the body completed)
            bk, bkk = H2C_BASE[kind[4:]]
            sch, _ = predict_inputs(bk, bkk)
            blen = 3000 if kind == "h2c_goaway_mid" else None
        else:
            sch, blen = predict_inputs(kind, k)
        index.append((len(flat), len(sch), blen))
        flat += sch
    preds = model_predictions_h2(flat, work)
    if len(preds) != len(flat):
        return dict(failures=["black-box h2: model printed %d predictions for %d schedules" % (len(preds), len(flat))], viols=[], coverage={})

    def judge(res, alive):
        bad = []
        if alive is False:
            bad.append((0, "bb2-worker-died", "the worker thread ended during the H2 scenarios"))
        for i, (kind, k) in enumerate(scns):
            r = res.get(i)
            if not r or 1 not in r:
                bad.append((i, "bb2-no-result", "h2 %s %d: no result from the driver" % (kind, k)))
                continue
            if kind.startswith("drain_"):
                # every stream gets its own documented answer; the graceful drain started by the first
                # proxy-generated answer must let the others finish
                want3 = ["default 404", "default 503" if kind == "drain_c" else "default 502", "relay"]
                got3 = [classify_h2(r.get(j, {})) for j in range(3)]
                if got3 != want3 or r.get(2, {}).get("body") != 4:
                    bad.append((i, "bb2-drain", "h2 %s: streams 1/3/5 observed %s body5=%s (expected %s, 4 bytes): a proxy-generated answer on one stream cut the others"
                                % (kind, got3, r.get(2, {}).get("body"), want3)))
                for j in range(3):
                    if r.get(j, {}).get("code") in (9998, 9999):
                        bad.append((i, "bb2-two-answers", "h2 %s: stream %d got frames after its end / a second final answer" % (kind, 1 + 2 * j)))
                continue
            if kind == "cancel_reuse":
                d2 = r.get(2, {})
                if r.get(1, {}).get("end") != "cancelled":
                    bad.append((i, "bb2-no-result", "h2 cancel_reuse: the download was never cancelled (no DATA arrived)"))
                elif classify_h2(d2) != "relay" or d2.get("body") != 6:
                    bad.append((i, "bb2-cross-request", "h2 cancel_reuse: the stream that followed a cancelled download observed %s body=%s (expected 200 'second', 6 bytes): the backend connection still owing the rest of the cancelled response was reused"
                                % (classify_h2(d2), d2.get("body"))))
                continue
            # siblings on the same connection must complete untouched (isolation)
            for j, want_body in ((0, 4), (2, 6)):
                d = r.get(j, {})
                if classify_h2(d) != "relay" or d.get("body") != want_body:
                    bad.append((i, "bb2-sibling", "h2 %s %d: sibling stream %d on the same connection: %s body=%s (expected 200, %d bytes, END_STREAM)"
                                % (kind, k, 1 + 2 * j, classify_h2(d), d.get("body"), want_body)))
            d = r[1]
            got = classify_h2(d)
            start, n, blen = index[i]
            want = sorted(set(classify_events(p) for p in preds[start:start + n]))
            if kind.startswith("h2c_") and kind.endswith("_first"):
                # a stream the backend reset / refused before answering may also be reset toward the client
                # (RST_STREAM is the explicit abort of an H2 frontend); never a clean 200
                want = sorted(set(want) | {"abort", "default 503"})
            if kind in ("h2c_rst_mid", "h2c_close_mid", "h2c_stall_mid") and d.get("body", 0) > 1000:
                bad.append((i, "bb2-body", "h2 %s: %s body bytes reached the client, the backend sent 1000" % (kind, d.get("body"))))
            if d.get("code") in (9998, 9999):
                bad.append((i, "bb2-two-answers", "h2 %s %d: frames follow the end of the stream / a second final answer on one stream" % (kind, k)))
            if got == "hang":
                bad.append((i, "bb2-hang", "h2 %s %d: no answer, no RST_STREAM and no close within the deadline" % (kind, k)))
            elif got == "unanswered-close":
                bad.append((i, "bb2-unanswered-close", "h2 %s %d: the connection was closed while the stream had no answer (the automaton predicts %s)" % (kind, k, want)))
            elif got not in want:
                bad.append((i, "bb2-mismatch", "h2 %s %d: client observed '%s', the automaton predicts %s" % (kind, k, got, want)))
            if got == "relay" and blen is not None and d.get("body") != blen:
                bad.append((i, "bb2-body", "h2 %s %d: END_STREAM after %s body bytes, backend sent %d" % (kind, k, d.get("body"), blen)))
        return bad

    failures, viols = [], []
    rc, res, alive, err = run_h2(scns, work, "0")
    if rc != 0:
        failures.append("black-box h2 driver exit %d: %s" % (rc, err))
    bad = judge(res, alive)
    confirmed = []
    if bad:
        again = []
        for n in (1, 2, 3):
            rc2, res2, alive2, _ = run_h2(scns, work, str(n))
            again.append(set((i, c) for i, c, _ in judge(res2, alive2)))
        confirmed = [(i, c, t) for (i, c, t) in bad if all((i, c) in a for a in again)]
    for (i, c, t) in confirmed:
        kind, k = scns[i]
        viols.append((Case("bbh2_%d" % i, [["blackboxh2", kind, k]]), c, t))
    cov = dict(blackbox_h2_scenarios=len(scns), blackbox_h2_streams=3 * len(scns), blackbox_h2_disagreements_first_run=len(bad),
               blackbox_h2_unstable=len(bad) - len(confirmed), blackbox_h2_confirmed=len(confirmed))
    return dict(failures=failures, viols=viols, coverage=cov)


_h1_stage = extra_stage


def extra_stage(tier, rng, work):
    a = _h1_stage(tier, rng, work)
    try:
        b = h2_stage(tier, work)
    except Exception as ex:
        b = dict(failures=["black-box h2 stage: %r" % (ex,)], viols=[], coverage={})
    cov = dict(a.get("coverage", {}))
    cov.update(b.get("coverage", {}))
    return dict(failures=a.get("failures", []) + b.get("failures", []), viols=a.get("viols", []) + b.get("viols", []), coverage=cov)
