(** C16 — executable model of the accept queue, eviction and the zombie check of
    [lib/src/server.rs] ([Server::accept], [create_sessions],
    [evict_least_active_sessions], [zombie_check],
    [shut_down_sessions_by_frontend_tokens]) on top of the admission counters of
    C16/Model.v.  These are private to [Server]: the tie to the code is the
    translator of props/c16.py (the statements this model mirrors) and the
    black-box tier (storms with and without [evict_on_queue_full], zombie-check
    configurations), not an in-process correspondence.

    A queued connection is an identifier and the time it was accepted; a
    session is its frontend token (= the connection's identifier), the time of
    its last event and the number of slab entries it holds (frontend + backend
    tokens).  [select_nth_unstable_by_key] leaves the choice among equally old
    entries open; the model sorts stably, the theorems do not depend on it. *)
From Coq Require Import List Arith NArith Bool Lia.
Import ListNotations.
Open Scope N_scope.

Record sess := mkSess { s_tok : N; s_last : N; s_entries : N }.

Record srv := mkSrv {
  v_max : N; v_nb : N; v_accept : bool;
  v_queue : list (N * N);          (* back of the VecDeque = head of the list *)
  v_sessions : list sess;
  v_now : N;
  v_timeout : N;                   (* accept_queue_timeout *)
  v_evict : bool;                  (* evict_on_queue_full *)
  v_served : list N;               (* connections that became sessions, ever *)
  v_dropped : list N               (* connections dropped from the queue after the timeout *)
}.

Definition srv_new (mx timeout : N) (evict : bool) : srv := mkSrv mx 0 true [] [] 0 timeout evict [] [].

(** [Server::accept]: [push_back] *)
Definition enqueue (s : srv) (id : N) : srv :=
  mkSrv (v_max s) (v_nb s) (v_accept s) ((id, v_now s) :: v_queue s) (v_sessions s) (v_now s)
        (v_timeout s) (v_evict s) (v_served s) (v_dropped s).

(** [check_limits] (the slab gate is in C16/Model.v) *)
Definition q_check (s : srv) : srv * bool :=
  if v_max s <=? v_nb s
  then (mkSrv (v_max s) (v_nb s) false (v_queue s) (v_sessions s) (v_now s) (v_timeout s) (v_evict s) (v_served s) (v_dropped s), false)
  else (s, true).

(** stable insertion sort on the time of the last event *)
Fixpoint insert_s (x : sess) (l : list sess) : list sess :=
  match l with
  | [] => [x]
  | y :: t => if s_last x <? s_last y then x :: l else y :: insert_s x t
  end.
Fixpoint isort (l : list sess) : list sess :=
  match l with [] => [] | x :: t => insert_s x (isort t) end.

(** how many sessions the [count] least active slab entries belong to *)
Fixpoint touched (count : N) (l : list sess) : nat :=
  match l with
  | [] => O
  | x :: t => if count =? 0 then O else S (touched (count - N.min count (s_entries x)) t)
  end.

(** [decr] with the re-enable threshold *)
Definition q_decr (s : srv) (k : N) : srv :=
  let nb := v_nb s - k in
  let acc := if negb (v_accept s) && (nb <? N.max (v_max s * 90 / 100) 1) then true else v_accept s in
  mkSrv (v_max s) nb acc (v_queue s) (v_sessions s) (v_now s) (v_timeout s) (v_evict s) (v_served s) (v_dropped s).

Definition set_sessions (s : srv) (l : list sess) : srv :=
  mkSrv (v_max s) (v_nb s) (v_accept s) (v_queue s) l (v_now s) (v_timeout s) (v_evict s) (v_served s) (v_dropped s).

(** [evict_least_active_sessions(count)]: the sessions owning the [count] oldest
    entries are shut down (each one [decr]s); returns how many *)
Definition evict (s : srv) (count : N) : srv * nat :=
  let sorted := isort (v_sessions s) in
  let k := touched count sorted in
  (q_decr (set_sessions s (skipn k sorted)) (N.of_nat k), k).

(** [zombie_check]: every session idle for longer than the interval is shut down *)
Definition zombie_check (s : srv) (interval : N) : srv :=
  let keep := filter (fun x => negb (interval <? v_now s - s_last x)) (v_sessions s) in
  q_decr (set_sessions s keep) (N.of_nat (length (v_sessions s) - length keep)).

(** [create_sessions]: the [while let Some(..) = accept_queue.pop_back()] loop *)
Fixpoint create_sessions (s : srv) (fuel : nat) : srv :=
  match fuel with
  | O => s
  | S f =>
    match v_queue s with
    | [] => s
    | (id, t) :: rest =>
      let s0 := mkSrv (v_max s) (v_nb s) (v_accept s) rest (v_sessions s) (v_now s) (v_timeout s) (v_evict s) (v_served s) (v_dropped s) in
      if v_timeout s <? v_now s - t then
        (* waited too long: dropped, next *)
        create_sessions (mkSrv (v_max s0) (v_nb s0) (v_accept s0) rest (v_sessions s0) (v_now s0) (v_timeout s0) (v_evict s0) (v_served s0) (id :: v_dropped s0)) f
      else
        let take_in (x : srv) : srv :=
          mkSrv (v_max x) (v_nb x + 1) (v_accept x) (v_queue x) (mkSess id (v_now x) 1 :: v_sessions x) (v_now x)
                (v_timeout x) (v_evict x) (id :: v_served x) (v_dropped x) in
        let '(s1, ok) := q_check s0 in
        if ok then create_sessions (take_in s1) f
        else
          (* the popped socket is not served: it is dropped with the iteration's binding *)
          let lost := mkSrv (v_max s1) (v_nb s1) (v_accept s1) (v_queue s1) (v_sessions s1) (v_now s1) (v_timeout s1) (v_evict s1) (v_served s1) (id :: v_dropped s1) in
          if negb (v_evict s1) then lost
          else
            let '(s2, k) := evict s1 (N.max (v_max s1 / 100) 1) in
            match k with
            | O => mkSrv (v_max s2) (v_nb s2) (v_accept s2) (v_queue s2) (v_sessions s2) (v_now s2) (v_timeout s2) (v_evict s2) (v_served s2) (id :: v_dropped s2)
            | _ =>
              let '(s3, ok3) := q_check s2 in
              if ok3 then create_sessions (take_in s3) f
              else mkSrv (v_max s3) (v_nb s3) (v_accept s3) (v_queue s3) (v_sessions s3) (v_now s3) (v_timeout s3) (v_evict s3) (v_served s3) (id :: v_dropped s3)
            end
      end
  end.

(** every connection the worker has ever taken from a listener: queued, served or dropped *)
Definition all_ids (s : srv) : list N := map fst (v_queue s) ++ v_served s ++ v_dropped s.

Inductive qop :=
| QEnqueue (id : N)            (* a connection is accepted into the queue (the driver gives fresh ids) *)
| QCreate                      (* create_sessions *)
| QTick (d : N)
| QTouch (tok : N)             (* an event on the session *)
| QGrow (tok : N)              (* the session takes one more slab entry (a backend token) *)
| QClose (tok : N)             (* the session ends by itself *)
| QZombie (interval : N).

Definition on_sess (s : srv) (tok : N) (f : sess -> sess) : srv :=
  set_sessions s (map (fun x => if s_tok x =? tok then f x else x) (v_sessions s)).

Definition q_apply (s : srv) (o : qop) : srv :=
  match o with
  | QEnqueue id =>
    (* Server::ready only accepts while can_accept; ids name distinct connections *)
    if v_accept s && negb (existsb (N.eqb id) (all_ids s)) then enqueue s id else s
  | QCreate => create_sessions s (S (length (v_queue s)))
  | QTick d => mkSrv (v_max s) (v_nb s) (v_accept s) (v_queue s) (v_sessions s) (v_now s + d) (v_timeout s) (v_evict s) (v_served s) (v_dropped s)
  | QTouch tok => on_sess s tok (fun x => mkSess (s_tok x) (v_now s) (s_entries x))
  | QGrow tok => on_sess s tok (fun x => mkSess (s_tok x) (s_last x) (s_entries x + 1))
  | QClose tok =>
    let keep := filter (fun x => negb (s_tok x =? tok)) (v_sessions s) in
    q_decr (set_sessions s keep) (N.of_nat (length (v_sessions s) - length keep))
  | QZombie i => zombie_check s i
  end.

Definition q_run (s : srv) (ops : list qop) : srv := fold_left q_apply ops s.
