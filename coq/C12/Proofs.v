(** C12 — lemmas. *)
From Coq Require Import List Arith ZArith NArith Bool Lia FMapPositive.
From SV Require Import C12.Model.
Import ListNotations.
Open Scope N_scope.

Ltac case_if := match goal with |- context [if ?c then _ else _] => destruct c eqn:? end.

(** the backends a selection result may stand for *)
Definition picks (r : pick) : list nat :=
  match r with POne (Some h) => [h] | POne None => [] | PAmong hs => hs end.

(* ------------------------------------------------------------------ *)
(** * Every policy returns members of the candidate list it was given *)

Lemma rr_next_in cur cands cur' h :
  rr_next cur cands = (cur', Some h) -> In h cands.
Proof.
  unfold rr_next. destruct cands as [|x t].
  - intros E; inversion E.
  - intros E. inversion E as [[E1 E2]]. eapply nth_error_In; eauto.
Qed.

Lemma least_go_in f l : forall best, In (least_go f best l) (best :: l).
Proof.
  induction l as [|h t IH]; intros best; cbn [least_go].
  - left; reflexivity.
  - specialize (IH (if f h <? f best then h else best)).
    destruct (f h <? f best); cbn in IH |- *; intuition.
Qed.

Lemma least_in f cands h : least f cands = Some h -> In h cands.
Proof.
  destruct cands as [|x t]; cbn; intros E; inversion E. apply least_go_in.
Qed.

Lemma hrw_go_in sc l : forall best, In (hrw_go sc best l) (best :: l).
Proof.
  induction l as [|h t IH]; intros best; cbn [hrw_go].
  - left; reflexivity.
  - specialize (IH (if sc h <=? sc best then best else h)).
    destruct (sc h <=? sc best); cbn in IH |- *; intuition.
Qed.

Lemma hrw_in sc cands h : hrw sc cands = Some h -> In h cands.
Proof.
  destruct cands as [|x t]; cbn; intros E; inversion E. apply hrw_go_in.
Qed.

Definition ok_opt (L : list nat) (o : option (N * nat)) : Prop :=
  match o with Some (_, h) => In h L | None => True end.

Lemma p2c_step_ok f L a b h :
  ok_opt L a -> ok_opt L b -> In h L ->
  ok_opt L (fst (p2c_step f (a, b) h)) /\ ok_opt L (snd (p2c_step f (a, b) h)).
Proof.
  intros Ha Hb Hh. unfold p2c_step.
  destruct a as [[fm fh]|]; destruct b as [[sm sh]|]; cbn [fst snd ok_opt] in *;
    repeat case_if; cbn [fst snd ok_opt]; auto.
Qed.

Lemma p2c_fold_ok f L : forall l st,
  incl l L -> ok_opt L (fst st) -> ok_opt L (snd st) ->
  ok_opt L (fst (fold_left (p2c_step f) l st)) /\ ok_opt L (snd (fold_left (p2c_step f) l st)).
Proof.
  induction l as [|h t IH]; intros [a b] Hi Ha Hb; cbn [fold_left].
  - split; assumption.
  - cbn [fst snd] in Ha, Hb.
    destruct (p2c_step_ok f L a b h Ha Hb) as [H1 H2]. { apply Hi; left; reflexivity. }
    destruct (p2c_step f (a, b) h) as [a' b'] eqn:E. cbn [fst snd] in H1, H2.
    apply IH; auto. intros x Hx; apply Hi; right; exact Hx.
Qed.

Lemma p2c_in f cands : incl (picks (p2c f cands)) cands.
Proof.
  unfold p2c.
  pose proof (p2c_fold_ok f cands cands (None, None) (incl_refl _) I I) as [H1 H2].
  destruct (fold_left (p2c_step f) cands (None, None)) as [[[fm a]|] [[sm b]|]];
    cbn [fst snd ok_opt picks] in *; intros x Hx; cbn in Hx; intuition; subst; auto.
Qed.

Lemma maglev_probe_in mg addr_of cands start : forall fuel i h,
  maglev_probe mg addr_of cands start i fuel = Some h -> In h cands.
Proof.
  induction fuel as [|f IH]; intros i h; cbn [maglev_probe].
  - intros E; inversion E.
  - destruct (nth (N.to_nat ((start + N.of_nat i) mod m_size mg)) (m_table mg) None) as [idx|].
    + destruct (nth_error (m_addrs mg) idx) as [a|].
      * destruct (find (fun h0 => addr_of h0 =? a) cands) as [h0|] eqn:F.
        -- intros E; inversion E; subst. apply find_some in F. tauto.
        -- apply IH.
      * apply IH.
    + apply IH.
Qed.

Lemma maglev_probe_f_in mg addr_of cands start : forall fuel i h,
  maglev_probe_f mg addr_of cands start i fuel = Some h -> In h cands.
Proof.
  induction fuel as [|f IH]; intros i h; cbn [maglev_probe_f].
  - intros E; inversion E.
  - destruct (PositiveMap.find (pkey ((start + i) mod mf_size mg)) (mf_table mg)) as [idx|].
    + destruct (nth_error (mf_addrs mg) idx) as [a|].
      * destruct (find (fun h0 => addr_of h0 =? a) cands) as [h0|] eqn:F.
        -- intros E; inversion E; subst. apply find_some in F. tauto.
        -- apply IH.
      * apply IH.
    + apply IH.
Qed.

Lemma rr_picks cur cands cur' r :
  rr_next cur cands = (cur', r) -> incl (picks (POne r)) cands.
Proof.
  intros E x Hx. destruct r as [h|]; cbn in Hx; [|tauto].
  destruct Hx as [<-|[]]. eapply rr_next_in; eauto.
Qed.

Lemma lb_next_in s p key cands :
  incl (picks (snd (lb_next s p key cands))) cands.
Proof.
  destruct p as [cur| |m|m|cur|mg cur|mgf cur]; cbn [lb_next].
  - destruct (rr_next cur cands) as [cur' r] eqn:E. cbn [snd]. eapply rr_picks; eauto.
  - cbn [snd]. destruct cands; cbn; auto using incl_refl.
  - cbn [snd]. destruct (least _ cands) as [h|] eqn:E; cbn; intros x Hx; cbn in Hx; [|tauto].
    destruct Hx as [<-|[]]. eapply least_in; eauto.
  - cbn [snd]. apply p2c_in.
  - destruct key as [k|].
    + cbn [snd]. destruct (hrw _ cands) as [h|] eqn:E; cbn; intros x Hx; cbn in Hx; [|tauto].
      destruct Hx as [<-|[]]. eapply hrw_in; eauto.
    + destruct (rr_next cur cands) as [cur' r] eqn:E. cbn [snd]. eapply rr_picks; eauto.
  - destruct key as [k|].
    + destruct cands as [|c0 ct] eqn:EC; [cbn; intros x []|]. rewrite <- EC.
      match goal with |- context [match m_table ?M with [] => _ | _ => _ end] => set (mg1 := M) end.
      destruct (m_table mg1) as [|e0 et] eqn:ET; [cbn; intros x []|].
      destruct (maglev_probe mg1 _ cands _ 0 _) as [h|] eqn:EP; cbn [snd].
      * intros x Hx. cbn in Hx. destruct Hx as [<-|[]]. eapply maglev_probe_in; eauto.
      * destruct (nth_error cands _) as [h|] eqn:EN; cbn; intros x Hx; cbn in Hx; [|tauto].
        destruct Hx as [<-|[]]. eapply nth_error_In; eauto.
    + destruct (rr_next cur cands) as [cur' r] eqn:E. cbn [snd]. eapply rr_picks; eauto.
  - destruct key as [k|].
    + destruct cands as [|c0 ct] eqn:EC; [cbn; intros x []|]. rewrite <- EC.
      match goal with |- context [if negb (mf_built ?M) then _ else _] => set (mg1 := M) end.
      destruct (negb (mf_built mg1)); [cbn; intros x []|].
      destruct (maglev_probe_f mg1 _ cands _ 0 _) as [h|] eqn:EP; cbn [snd].
      * intros x Hx. cbn in Hx. destruct Hx as [<-|[]]. eapply maglev_probe_f_in; eauto.
      * destruct (nth_error cands _) as [h|] eqn:EN; cbn; intros x Hx; cbn in Hx; [|tauto].
        destruct Hx as [<-|[]]. eapply nth_error_In; eauto.
    + destruct (rr_next cur cands) as [cur' r] eqn:E. cbn [snd]. eapply rr_picks; eauto.
Qed.

(* ------------------------------------------------------------------ *)
(** * The candidate cascade *)

Definition bk (s : state) (h : nat) : backend := hget (s_heap s) h.

(** the eligibility predicate of the property statement *)
Definition eligible (s : state) (l : list nat) (h : nat) : Prop :=
  In h l /\ b_status (bk s h) = Normal /\
  (can_open (s_now s) (bk s h) = true \/
   ((forall h', In h' l -> can_open (s_now s) (bk s h') = false) /\
    fail_open_ok (s_now s) (bk s h) = true)).

Lemma status_eqb_eq a b : status_eqb a b = true -> a = b.
Proof. destruct a, b; cbn; congruence. Qed.

Lemma can_open_normal now b : can_open now b = true -> b_status b = Normal.
Proof.
  unfold can_open. destruct (negb (b_healthy b)); [discriminate|].
  intros H. apply andb_prop in H. apply status_eqb_eq; tauto.
Qed.

Lemma fail_open_normal now b : fail_open_ok now b = true -> b_status b = Normal.
Proof. unfold fail_open_ok. intros H. apply andb_prop in H. apply status_eqb_eq; tauto. Qed.

Lemma available_spec s l backup h :
  In h (available s l backup) <->
  In h l /\ b_backup (bk s h) = backup /\ can_open (s_now s) (bk s h) = true.
Proof.
  unfold available, bk. rewrite filter_In, andb_true_iff, eqb_true_iff. tauto.
Qed.

Lemma none_available s l :
  available s l false = [] -> available s l true = [] ->
  forall h, In h l -> can_open (s_now s) (bk s h) = false.
Proof.
  intros H0 H1 h Hh. destruct (can_open (s_now s) (bk s h)) eqn:E; [|reflexivity].
  exfalso. destruct (b_backup (bk s h)) eqn:B.
  - assert (In h (available s l true)) by (apply available_spec; auto). rewrite H1 in H; inversion H.
  - assert (In h (available s l false)) by (apply available_spec; auto). rewrite H0 in H; inversion H.
Qed.

Lemma candidates_eligible s l h : In h (candidates s l) -> eligible s l h.
Proof.
  unfold candidates, eligible.
  destruct (available s l false) as [|p0 pt] eqn:E0.
  - destruct (available s l true) as [|q0 qt] eqn:E1.
    + intros H. apply filter_In in H. destruct H as [Hl Hf]. fold (bk s h) in Hf.
      repeat split; auto.
      * eapply fail_open_normal; eauto.
      * right. split; auto. apply none_available; auto.
    + rewrite <- E1. intros H. apply available_spec in H. destruct H as (Hl & _ & Hc).
      repeat split; auto. eapply can_open_normal; eauto.
  - rewrite <- E0. intros H. apply available_spec in H. destruct H as (Hl & _ & Hc).
    repeat split; auto. eapply can_open_normal; eauto.
Qed.

(** a backup that can open is only offered when no primary can *)
Lemma candidates_backup s l h :
  In h (candidates s l) -> b_backup (bk s h) = true -> can_open (s_now s) (bk s h) = true ->
  forall p, In p l -> b_backup (bk s p) = false -> can_open (s_now s) (bk s p) = false.
Proof.
  unfold candidates. intros H Hb Hc p Hp Hpb.
  destruct (available s l false) as [|p0 pt] eqn:E0.
  - destruct (can_open (s_now s) (bk s p)) eqn:E; [|reflexivity].
    assert (In p (available s l false)) by (apply available_spec; auto). rewrite E0 in H0; inversion H0.
  - rewrite <- E0 in H. apply available_spec in H. destruct H as (_ & Hf & _). congruence.
Qed.

Lemma select_picks s c key :
  incl (picks (snd (select s c key))) (candidates s (c_list (cget s c))).
Proof.
  unfold select. destruct (candidates s (c_list (cget s c))) as [|c0 ct] eqn:E.
  - cbn. intros x [].
  - rewrite <- E.
    pose proof (lb_next_in s (c_lb (cget s c)) key (candidates s (c_list (cget s c)))) as H.
    destruct (lb_next s (c_lb (cget s c)) key (candidates s (c_list (cget s c)))) as [p' r].
    exact H.
Qed.

Lemma selected_is_eligible_lemma s c key h :
  In h (picks (snd (select s c key))) -> eligible s (c_list (cget s c)) h.
Proof. intros H. apply candidates_eligible. eapply select_picks; eauto. Qed.

Lemma backup_only_when_no_primary_lemma s c key h :
  In h (picks (snd (select s c key))) ->
  b_backup (bk s h) = true -> can_open (s_now s) (bk s h) = true ->
  forall p, In p (c_list (cget s c)) -> b_backup (bk s p) = false -> can_open (s_now s) (bk s p) = false.
Proof. intros H. eapply candidates_backup. eapply select_picks; eauto. Qed.

(** a selection returns nobody only when nobody is even fail-open eligible *)
Lemma rr_next_some cur x t : exists h, snd (rr_next cur (x :: t)) = Some h.
Proof.
  unfold rr_next. cbn [snd].
  destruct (nth_error (x :: t) (N.to_nat (cur mod N.of_nat (length (x :: t))))) as [h|] eqn:E; eauto.
  exfalso. apply nth_error_None in E.
  assert (cur mod N.of_nat (length (x :: t)) < N.of_nat (length (x :: t))).
  { apply N.mod_lt. cbn [length]. lia. }
  lia.
Qed.

(* ------------------------------------------------------------------ *)
(** * Sticky sessions *)

Lemma sticky_wins_lemma s c sid h :
  find (fun h => optN_eqb (b_sticky (bk s h)) sid) (c_list (cget s c)) = Some h ->
  can_open (s_now s) (bk s h) = true ->
  find_sticky s c sid = Some h.
Proof. unfold find_sticky, bk. intros -> ->. reflexivity. Qed.

Lemma sticky_sound_lemma s c sid h :
  find_sticky s c sid = Some h ->
  In h (c_list (cget s c)) /\ b_sticky (bk s h) = Some sid /\ can_open (s_now s) (bk s h) = true.
Proof.
  unfold find_sticky, bk.
  destruct (find _ (c_list (cget s c))) as [h0|] eqn:F; [|discriminate].
  destruct (can_open (s_now s) (hget (s_heap s) h0)) eqn:C; [|discriminate].
  intros E; inversion E; subst. apply find_some in F. destruct F as [Hi Hs].
  repeat split; auto. unfold optN_eqb in Hs.
  destruct (b_sticky (hget (s_heap s) h)) as [x|]; [|discriminate].
  apply N.eqb_eq in Hs. congruence.
Qed.

(* ------------------------------------------------------------------ *)
(** * Back-off windows *)

Lemma backoff_window_lemma r t w t' :
  can_try r t = true -> t <= t' -> t' < t + w ->
  can_try (retry_fail r t w) t' = false.
Proof.
  unfold can_try, retry_fail. intros H Ht Hw.
  apply N.leb_le in H.
  assert (E : (t - r_last r <? r_wait r) = false) by (apply N.ltb_ge; lia).
  rewrite E. cbn [r_wait r_last]. apply N.leb_gt. lia.
Qed.

Lemma backoff_window_ends r t w t' :
  can_try r t = true -> t + w <= t' ->
  can_try (retry_fail r t w) t' = true.
Proof.
  unfold can_try, retry_fail. intros H Hw.
  apply N.leb_le in H.
  assert (E : (t - r_last r <? r_wait r) = false) by (apply N.ltb_ge; lia).
  rewrite E. cbn [r_wait r_last]. apply N.leb_le. lia.
Qed.

Lemma fail_in_window_noop r t w : can_try r t = false -> retry_fail r t w = r.
Proof.
  unfold can_try, retry_fail. intros H. apply N.leb_gt in H.
  assert (E : (t - r_last r <? r_wait r) = true) by (apply N.ltb_lt; lia).
  rewrite E. reflexivity.
Qed.

Lemma tries_saturate r t w :
  r_tries r <= r_max r ->
  r_tries (retry_fail r t w) <= r_max (retry_fail r t w) /\ r_max (retry_fail r t w) = r_max r /\
  (can_try r t = true -> r_tries (retry_fail r t w) = N.min (r_tries r + 1) (r_max r)).
Proof.
  unfold retry_fail, can_try. intros H. destruct (t - r_last r <? r_wait r) eqn:E; cbn [r_tries r_max].
  - repeat split; auto. intros C. apply N.leb_le in C. apply N.ltb_lt in E. lia.
  - repeat split; auto. lia.
Qed.

Lemma can_open_in_window now b : can_try (b_retry b) now = false -> can_open now b = false.
Proof.
  unfold can_open. intros ->. destruct (negb (b_healthy b)); [reflexivity|]. apply andb_false_r.
Qed.

(* ------------------------------------------------------------------ *)
(** * Connection counters of one (shared) backend *)

Inductive cop := CInc | CDec | CClosing.

(** the backend and the number of connections actually open on it: [inc]
    opens one iff it answers [Some]; the holder of a connection closes it once *)
Definition cstep (st : backend * N) (o : cop) : backend * N :=
  let '(b, g) := st in
  match o with
  | CInc => let '(b', r) := inc_connections b in (b', match r with Some _ => g + 1 | None => g end)
  | CDec => (fst (dec_connections b), g - 1)
  | CClosing => (set_status b Closing, g)
  end.

(** discipline of the callers: only a held connection is closed *)
Fixpoint disciplined (st : backend * N) (ops : list cop) : Prop :=
  match ops with
  | [] => True
  | o :: t => (o = CDec -> 0 < snd st) /\ disciplined (cstep st o) t
  end.

Definition cinv (st : backend * N) : Prop :=
  b_conns (fst st) = snd st /\ (b_status (fst st) = Closed -> b_conns (fst st) = 0).

Lemma cstep_inv st o : cinv st -> (o = CDec -> 0 < snd st) -> cinv (cstep st o).
Proof.
  destruct st as [b g]. unfold cinv. cbn [fst snd]. intros [Hc Hz] Hd.
  destruct o; cbn [cstep].
  - unfold inc_connections. destruct (b_status b) eqn:S; cbn [fst snd b_conns b_status set_conns].
    + split; [lia|discriminate].
    + split; [assumption|]. rewrite S. discriminate.
    + split; [assumption|]. rewrite S. auto.
  - specialize (Hd eq_refl). unfold dec_connections.
    destruct (b_status b) eqn:S; cbn [fst snd b_conns b_status set_conns].
    + assert (E : (0 <? b_conns b) = true) by (apply N.ltb_lt; lia). rewrite E.
      cbn [fst snd b_conns b_status set_conns]. split; [lia|discriminate].
    + assert (E : (0 <? b_conns b) = true) by (apply N.ltb_lt; lia). rewrite E.
      destruct (b_conns b - 1 =? 0) eqn:Z; cbn [fst snd b_conns b_status set_conns].
      * apply N.eqb_eq in Z. split; [lia|intros _; lia].
      * split; [lia|discriminate].
    + specialize (Hz eq_refl). lia.
  - cbn [fst snd b_conns b_status set_status]. split; [assumption|discriminate].
Qed.

Lemma counters_balance_lemma : forall ops st,
  cinv st -> disciplined st ops ->
  cinv (fold_left cstep ops st).
Proof.
  induction ops as [|o t IH]; intros st Hi Hd; cbn [fold_left]; [assumption|].
  destruct Hd as [Hd Ht]. apply IH; auto. apply cstep_inv; auto.
Qed.

(** Closing becomes Closed exactly when the count reaches 0 *)
Lemma closing_retires_at_zero b :
  b_status b = Closing ->
  (b_status (fst (dec_connections b)) = Closed <-> b_conns (fst (dec_connections b)) = 0) /\
  (b_status (fst (dec_connections b)) = Closed \/ b_status (fst (dec_connections b)) = Closing).
Proof.
  intros S. unfold dec_connections. rewrite S.
  destruct ((if 0 <? b_conns b then b_conns b - 1 else b_conns b) =? 0) eqn:Z;
    cbn [fst b_status b_conns set_conns].
  - apply N.eqb_eq in Z. split; [tauto|auto].
  - apply N.eqb_neq in Z. split; [|auto]. split; [discriminate|tauto].
Qed.

(** an unmatched decrement never wraps *)
Lemma dec_never_underflows b :
  b_conns (fst (dec_connections b)) = b_conns b - 1 \/ b_conns (fst (dec_connections b)) = b_conns b.
Proof.
  unfold dec_connections. destruct (b_status b); cbn [fst b_conns set_conns]; auto;
    destruct (0 <? b_conns b) eqn:E; try (destruct (_ =? 0)); cbn [fst b_conns set_conns]; auto.
Qed.

(** a backend that is not Normal takes no new connection *)
Lemma inc_refused_unless_normal b :
  b_status b <> Normal -> inc_connections b = (b, None).
Proof. unfold inc_connections. destruct (b_status b); congruence. Qed.

(* ------------------------------------------------------------------ *)
(** * Affinity: HRW and Maglev map one key to one backend *)

Definition same_on (s s' : state) (cands : list nat) : Prop :=
  s_scores s = s_scores s' /\
  forall h, In h cands -> b_addr (bk s h) = b_addr (bk s' h) /\ b_weight (bk s h) = b_weight (bk s' h).

Lemma hrw_go_ext sc sc' l : forall best,
  (forall h, In h (best :: l) -> sc h = sc' h) -> hrw_go sc best l = hrw_go sc' best l.
Proof.
  induction l as [|x t IH]; intros best H; cbn [hrw_go]; [reflexivity|].
  rewrite (H x) by (right; left; reflexivity). rewrite (H best) by (left; reflexivity).
  apply IH. intros h [<-|Hh].
  - destruct (sc' x <=? sc' best); apply H; cbn; auto.
  - apply H; cbn; auto.
Qed.

Lemma find_ext_in {A} (f g : A -> bool) l : (forall x, In x l -> f x = g x) -> find f l = find g l.
Proof.
  induction l as [|x t IH]; intros H; cbn [find]; [reflexivity|].
  rewrite (H x) by (left; reflexivity). destruct (g x); [reflexivity|]. apply IH. intros; apply H; right; auto.
Qed.

Lemma maglev_probe_ext mg a a' cands start : (forall h, In h cands -> a h = a' h) ->
  forall fuel i, maglev_probe mg a cands start i fuel = maglev_probe mg a' cands start i fuel.
Proof.
  intros H. induction fuel as [|f IH]; intros i; cbn [maglev_probe]; [reflexivity|].
  destruct (nth _ (m_table mg) None) as [idx|]; [|apply IH].
  destruct (nth_error (m_addrs mg) idx) as [ad|]; [|apply IH].
  rewrite (find_ext_in (fun h => a h =? ad) (fun h => a' h =? ad)).
  - destruct (find _ cands); [reflexivity|apply IH].
  - intros x Hx. rewrite (H x Hx). reflexivity.
Qed.

(** the policies whose keyed selection is a pure function of (key, candidates) *)
Definition affine (p : policy) : Prop :=
  match p with
  | PHrw _ => True
  | PMaglev mg _ => m_table mg <> []
  | _ => False
  end.

Lemma affinity_stable_lemma s s' p k cands :
  affine p -> same_on s s' cands ->
  lb_next s p (Some k) cands = lb_next s' p (Some k) cands /\
  fst (lb_next s p (Some k) cands) = p.
Proof.
  intros Ha [Hs Hh]. destruct p as [cur| |m|m|cur|mg cur|mgf cur]; cbn in Ha; try tauto.
  - cbn [lb_next fst]. split; [|reflexivity]. f_equal. f_equal.
    destruct cands as [|c0 ct]; [reflexivity|]. cbn [hrw]. f_equal.
    apply hrw_go_ext. intros h Hin. unfold bk in Hh. destruct (Hh h Hin) as [-> ->]. rewrite Hs. reflexivity.
  - cbn [lb_next]. destruct cands as [|c0 ct] eqn:EC; [split; reflexivity|]. rewrite <- EC in *.
    destruct (m_table mg) as [|e0 et] eqn:ET; [congruence|].
    rewrite ET.
    rewrite (maglev_probe_ext mg (fun h => b_addr (hget (s_heap s) h)) (fun h => b_addr (hget (s_heap s') h)) cands).
    + destruct (maglev_probe mg _ cands (k mod m_size mg) 0 (N.to_nat (m_size mg))); split; reflexivity.
    + intros h Hin. apply (Hh h Hin).
Qed.

(* ------------------------------------------------------------------ *)
(** * The Maglev table *)

Definition entry_ok (n : nat) (e : option nat) : Prop :=
  match e with Some i => (i < n)%nat | None => True end.

Lemma upd_length {A} (l : list A) : forall i v, length (upd l i v) = length l.
Proof. induction l as [|x t IH]; intros [|i] v; cbn; auto. Qed.

Lemma Forall_upd {A} (P : A -> Prop) (l : list A) : forall i v, Forall P l -> P v -> Forall P (upd l i v).
Proof.
  induction l as [|x t IH]; intros [|i] v H Hv; cbn; auto; inversion H; subst; constructor; auto.
Qed.

Definition tbl_ok (n : nat) (len : nat) (p : pop) : Prop :=
  length (p_table p) = len /\ Forall (entry_ok n) (p_table p).

Lemma pop_pass_ok offs skips targets m n len : forall bs p,
  (forall b, In b bs -> (b < n)%nat) -> tbl_ok n len p -> tbl_ok n len (pop_pass offs skips targets m bs p).
Proof.
  induction bs as [|b rest IH]; intros p Hb Hp; cbn [pop_pass]; [assumption|].
  destruct (m <=? p_count p); [assumption|].
  destruct (nth b targets 0 <=? nth b (p_filled p) 0).
  - apply IH; auto. intros; apply Hb; right; auto.
  - destruct (find_free _ _ _ _ _ _) as [[j c]|]; [|assumption].
    apply IH. { intros; apply Hb; right; auto. }
    destruct Hp as [Hl Hf]. split; cbn [p_table].
    + rewrite upd_length; assumption.
    + apply Forall_upd; auto. cbn. apply Hb; left; reflexivity.
Qed.

Lemma pop_loop_ok offs skips targets m n len bs : forall fuel p,
  (forall b, In b bs -> (b < n)%nat) -> tbl_ok n len p -> tbl_ok n len (pop_loop offs skips targets m bs p fuel).
Proof.
  induction fuel as [|f IH]; intros p Hb Hp; cbn [pop_loop]; [assumption|].
  destruct (m <=? p_count p); [assumption|]. apply IH; auto. apply pop_pass_ok; auto.
Qed.

Lemma Forall_repeat {A} (P : A -> Prop) x n : P x -> Forall P (repeat x n).
Proof. intros H. induction n; cbn; constructor; auto. Qed.

(** after any rebuild: the table is empty or exactly [size] long, and every
    filled slot indexes the address list captured by the same rebuild *)
Lemma maglev_rebuild_valid hashes size aw :
  let mg := maglev_rebuild hashes size aw in
  m_size mg = size /\
  (m_table mg = [] \/ (length (m_table mg) = N.to_nat size /\ m_addrs mg = map fst aw)) /\
  Forall (entry_ok (length (m_addrs mg))) (m_table mg).
Proof.
  unfold maglev_rebuild.
  destruct ((length aw =? 0)%nat || (size =? 0)) eqn:E; cbn [m_size m_table m_addrs].
  - repeat split; auto.
  - match goal with |- context [pop_loop ?o ?sk ?tg ?m ?bs ?p0 ?f] =>
      pose proof (pop_loop_ok o sk tg m (length aw) (N.to_nat size) bs f p0) as H end.
    destruct H as [Hl Hf].
    + intros b Hb. apply in_seq in Hb. lia.
    + split; cbn [p_table]; [apply repeat_length|]. apply Forall_repeat. exact I.
    + repeat split; auto. rewrite map_length. exact Hf.
Qed.

(** the lookup never indexes outside the captured addresses, and what it
    returns is one of the candidates it was handed (never a removed backend) *)
Lemma maglev_lookup_total mg a cands start fuel i :
  maglev_probe mg a cands start i fuel = None \/
  exists h, maglev_probe mg a cands start i fuel = Some h /\ In h cands.
Proof.
  destruct (maglev_probe mg a cands start i fuel) as [h|] eqn:E; [right|left; reflexivity].
  exists h. split; [reflexivity|]. eapply maglev_probe_in; eauto.
Qed.

(* ------------------------------------------------------------------ *)
(** * The entry points that select and then connect *)

Lemma backend_from_cluster_eligible s c w s' h code :
  backend_from_cluster s c w = (s', Some h, code) -> eligible s (c_list (cget s c)) h.
Proof.
  unfold backend_from_cluster. destruct (select s c None) as [s1 r] eqn:E.
  destruct r as [[h0|]|hs]; try discriminate.
  destruct (connect_handle s1 h0 w) as [s2 cd]. intros X. inversion X; subst.
  apply selected_is_eligible_lemma with (key := None). rewrite E. cbn. auto.
Qed.

Lemma backend_from_sticky_eligible s c sid w s' h code :
  backend_from_sticky s c sid w = (s', Some h, code) ->
  (find_sticky s c sid = Some h /\ In h (c_list (cget s c)) /\ can_open (s_now s) (bk s h) = true) \/
  (find_sticky s c sid = None /\ eligible s (c_list (cget s c)) h).
Proof.
  unfold backend_from_sticky. destruct (find_sticky s c sid) as [h0|] eqn:F.
  - destruct (connect_handle s h0 w) as [s2 cd]. intros X. inversion X; subst. left.
    destruct (sticky_sound_lemma s c sid h F) as (A & _ & B). auto.
  - intros X. right. split; [reflexivity|]. eapply backend_from_cluster_eligible; eauto.
Qed.

(** [try_connect]: a connection is counted iff it was opened; a refused or
    failed connect leaves the counter alone; only a Normal backend is dialled *)
Lemma try_connect_counts now w b :
  let '(b', code) := try_connect now w b in
  (code = 0 -> b_status b = Normal /\ b_conns b' = b_conns b + 1) /\
  (code <> 0 -> b_conns b' = b_conns b) /\
  (code = 2 -> b_status b = Normal /\ b_failures b' = b_failures b + 1 /\
               b_retry b' = retry_fail (b_retry b) now w).
Proof.
  unfold try_connect. destruct (b_status b) eqn:S.
  - destruct (connectable (b_addr b)).
    + unfold inc_connections. rewrite S. cbn. repeat split; auto; try discriminate; congruence.
    + cbn. repeat split; auto; discriminate.
  - cbn. repeat split; auto; discriminate.
  - cbn. repeat split; auto; discriminate.
Qed.

(* ------------------------------------------------------------------ *)
(** * LeastLoaded picks a least-loaded candidate *)

Lemma least_go_min f : forall l best,
  f (least_go f best l) <= f best /\ forall x, In x l -> f (least_go f best l) <= f x.
Proof.
  induction l as [|h t IH]; intros best; cbn [least_go]; [split; [lia|intros x []]|].
  destruct (IH (if f h <? f best then h else best)) as [I1 I2].
  destruct (f h <? f best) eqn:E.
  - apply N.ltb_lt in E. split; [lia|]. intros x [<-|Hx]; [exact I1|apply I2, Hx].
  - apply N.ltb_ge in E. split; [exact I1|]. intros x [<-|Hx]; [lia|apply I2, Hx].
Qed.

Lemma least_min f cands h : least f cands = Some h -> forall x, In x cands -> f h <= f x.
Proof.
  destruct cands as [|c0 ct]; cbn [least]; [discriminate|]. intros E x Hx. inversion E; subst.
  destruct (least_go_min f ct c0) as [I1 I2]. destruct Hx as [<-|Hx]; [exact I1|apply I2, Hx].
Qed.

Lemma least_loaded_minimal_lemma s c key m h :
  c_lb (cget s c) = PLeast m -> In h (picks (snd (select s c key))) ->
  forall x, In x (candidates s (c_list (cget s c))) ->
    measure m (hget (s_heap s) h) <= measure m (hget (s_heap s) x).
Proof.
  intros P H x Hx. unfold select in H.
  destruct (candidates s (c_list (cget s c))) as [|c0 ct] eqn:E; [destruct Hx|].
  rewrite P in H. cbn [lb_next snd] in H.
  destruct (least (fun h0 => measure m (hget (s_heap s) h0)) (c0 :: ct)) as [r|] eqn:L; cbn in H; [|destruct H].
  destruct H as [<-|[]]. apply (least_min _ _ _ L x Hx).
Qed.
