"""C15 — no HTTP/2 input can crash, wedge or over-commit a worker."""
import os, re
import vlib
from vlib import Case

ID = "C15"
COQ_DIRS = ["Common", "C15"]
COQ_TARGETS = ["C15/Props.vo", "C15/Run.vo"]
PROPS_MODULES = ["C15.Props"]
RUN_MODULE = "C15.Run"
RUN_FN = "run_case"
HARNESS_BIN = "c15"
HARNESS_BINS = ["c15"]
SHRINK_KEEP = ("fnew",)
CLAIMED = True

MUX = os.path.join(vlib.REPO, "lib/src/protocol/mux")

FT_ORDER = ["Data", "Headers", "Priority", "RstStream", "Settings", "PushPromise", "Ping", "GoAway",
            "WindowUpdate", "Continuation", "PriorityUpdate", "Unknown"]
FT_CODE = {n: i for i, n in enumerate(FT_ORDER)}


def _fn_body(src, sig):
    """text of the function whose signature starts with `sig` (brace matching)"""
    i = src.index(sig)
    j = src.index("{", i)
    depth, k = 0, j
    while True:
        c = src[k]
        if c == "{":
            depth += 1
        elif c == "}":
            depth -= 1
            if depth == 0:
                return src[j:k + 1]
        k += 1


def _num(s):
    s = s.strip().replace("_", "")
    m = re.fullmatch(r"(\d+)\s*<<\s*(\d+)", s)
    if m:
        return int(m.group(1)) << int(m.group(2))
    m = re.fullmatch(r"(\d+)\s*\*\s*(\d+)", s)
    if m:
        return int(m.group(1)) * int(m.group(2))
    return int(s, 0)


def _consts(src, names, fails, where):
    out = {}
    for n in names:
        m = re.search(r"const\s+%s\s*:\s*[A-Za-z0-9_:]+\s*=\s*([^;]+);" % n, src)
        if not m:
            fails.append("%s: constant %s not found" % (where, n))
            continue
        try:
            out[n] = _num(m.group(1))
        except ValueError:
            fails.append("%s: constant %s has a value the translator cannot read: %s" % (where, n, m.group(1)))
    return out


PARSER_CONSTS = ["FRAME_HEADER_SIZE", "STREAM_ID_MASK", "FLAG_END_STREAM", "FLAG_END_HEADERS", "FLAG_PADDED",
                 "FLAG_PRIORITY", "FLAG_ACK", "PRIORITY_PAYLOAD_SIZE", "RST_STREAM_PAYLOAD_SIZE",
                 "SETTINGS_ENTRY_SIZE", "PING_PAYLOAD_SIZE", "WINDOW_UPDATE_PAYLOAD_SIZE", "GOAWAY_PAYLOAD_SIZE",
                 "SETTINGS_HEADER_TABLE_SIZE", "SETTINGS_ENABLE_PUSH", "SETTINGS_MAX_CONCURRENT_STREAMS",
                 "SETTINGS_INITIAL_WINDOW_SIZE", "SETTINGS_MAX_FRAME_SIZE", "SETTINGS_MAX_HEADER_LIST_SIZE",
                 "SETTINGS_ENABLE_CONNECT_PROTOCOL", "SETTINGS_NO_RFC7540_PRIORITIES", "SETTINGS_COUNT",
                 "MAX_SETTINGS_ENTRIES", "PRIORITY_UPDATE_MIN_PAYLOAD", "PRIORITY_UPDATE_MAX_VALUE"]
H2_CONSTS = ["DEFAULT_MAX_PING_LIFETIME", "DEFAULT_MAX_SETTINGS_LIFETIME"]


def translate():
    """T-const + T-table: constants, the frame-type byte map (both directions) and the
    stream-id validity table of `frame_header` are regenerated from the source into Gen.v."""
    fails = []
    ps = open(os.path.join(MUX, "parser.rs")).read()
    ss = open(os.path.join(MUX, "serializer.rs")).read()
    hs = open(os.path.join(MUX, "h2.rs")).read()
    ms = open(os.path.join(MUX, "mod.rs")).read()
    ps_code = ps.split("#[cfg(test)]")[0]
    consts = _consts(ps_code, PARSER_CONSTS, fails, "parser.rs")
    consts.update(_consts(hs, H2_CONSTS, fails, "h2.rs"))
    m = re.search(r"const\s+FLOOD_WINDOW_DURATION\s*:[^=]+=\s*std::time::Duration::from_secs\((\d+)\)", hs)
    if m:
        consts["FLOOD_WINDOW_MS"] = int(m.group(1)) * 1000
    else:
        fails.append("h2.rs: FLOOD_WINDOW_DURATION is no longer Duration::from_secs(n)")
    m = re.search(r"const\s+MAX_LOOP_ITERATIONS\s*:\s*i32\s*=\s*([0-9_]+);", ms)
    if m:
        consts["MAX_LOOP_ITERATIONS"] = _num(m.group(1))
    else:
        fails.append("mod.rs: MAX_LOOP_ITERATIONS not found")

    # byte -> FrameType
    t2f = []
    try:
        body = _fn_body(ps_code, "fn convert_frame_type")
        for m in re.finditer(r"(0x[0-9a-fA-F]+|\d+)\s*=>\s*FrameType::(\w+)\s*,", body):
            t2f.append((_num(m.group(1)), FT_CODE[m.group(2)]))
        if not re.search(r"(\w+)\s*=>\s*FrameType::Unknown\(\1\)", body):
            fails.append("parser.rs: convert_frame_type no longer maps the other bytes to Unknown(byte)")
    except (ValueError, KeyError) as ex:
        fails.append("parser.rs: convert_frame_type unreadable: %r" % (ex,))
    # FrameType -> byte
    f2t = []
    try:
        body = _fn_body(ss, "pub fn serialize_frame_type")
        for m in re.finditer(r"FrameType::(\w+)\s*=>\s*(0x[0-9a-fA-F]+|\d+)\s*,", body):
            f2t.append((FT_CODE[m.group(1)], _num(m.group(2))))
        if not re.search(r"FrameType::Unknown\((\w+)\)\s*=>\s*\1", body):
            fails.append("serializer.rs: serialize_frame_type no longer maps Unknown(t) to t")
    except (ValueError, KeyError) as ex:
        fails.append("serializer.rs: serialize_frame_type unreadable: %r" % (ex,))
    # stream-id validity table
    rules = {}
    try:
        body = _fn_body(ps_code, "pub fn frame_header")
        m = re.search(r"let valid_stream_id = match frame_type \{(.*?)\n    \};", body, re.S)
        tbl = re.sub(r"//[^\n]*", "", m.group(1))
        for arm in re.finditer(r"((?:\|?\s*FrameType::\w+(?:\(_\))?\s*)+)=>\s*(\{[^}]*\}|[^,]+),?", tbl):
            rhs = arm.group(2).strip().strip("{}").strip()
            rule = {"stream_id != 0": 1, "stream_id == 0": 0, "true": 2}.get(rhs)
            if rule is None:
                fails.append("parser.rs: frame_header valid_stream_id arm not understood: %s" % rhs)
                continue
            for t in re.findall(r"FrameType::(\w+)", arm.group(1)):
                rules[FT_CODE[t]] = rule
        if sorted(rules) != list(range(12)):
            fails.append("parser.rs: frame_header valid_stream_id table does not cover every FrameType: %s" % sorted(rules))
    except (ValueError, KeyError, AttributeError) as ex:
        fails.append("parser.rs: frame_header valid_stream_id table unreadable: %r" % (ex,))

    # order of the checks in check_flood (first violation wins) and strictness
    order = re.findall(r"flag\(\s*\"([^\"]+)\",\s*\"[^\"]+\",\s*self\.(\w+),\s*(self\.config\.\w+|[A-Z_]+),?\s*\)", hs.split("\n#[cfg(test)]\nmod tests")[0])
    want = [("RST_STREAM", "rst_stream_count", "self.config.max_rst_stream_per_window"),
            ("PING", "ping_count", "self.config.max_ping_per_window"),
            ("PING lifetime", "total_ping_received_lifetime", "DEFAULT_MAX_PING_LIFETIME"),
            ("SETTINGS", "settings_count", "self.config.max_settings_per_window"),
            ("SETTINGS lifetime", "total_settings_received_lifetime", "DEFAULT_MAX_SETTINGS_LIFETIME"),
            ("empty DATA", "empty_data_count", "self.config.max_empty_data_per_window"),
            ("CONTINUATION", "continuation_count", "self.config.max_continuation_frames"),
            ("WINDOW_UPDATE stream 0", "window_update_stream0_count", "self.config.max_window_update_stream0_per_window"),
            ("accumulated header size", "accumulated_header_size", "self.config.max_header_list_size"),
            ("glitch", "glitch_count", "self.config.max_glitch_count")]
    if [tuple(x) for x in order] != want:
        fails.append("h2.rs: check_flood no longer tests the ten counters in the modelled order: %s" % (order,))
    fails += flood_sites(hs)
    # the ACK variants are not counted: they leave the handler before the bump (model: `qualifying` = None)
    if not re.search(r"fn handle_ping_frame\(&mut self, ping: parser::Ping\) -> MuxResult \{\s*if ping\.ack \{\s*self\.attribute_bytes_to_overhead\(\);\s*return MuxResult::Continue;\s*\}", hs):
        fails.append("h2.rs: handle_ping_frame no longer starts by leaving on a PING ACK (model: only a PING without ACK is counted)")
    if not re.search(r"if settings\.ack \{.{0,2500}?return MuxResult::Continue;\s*\}\s*// CVE-2019-9515: track SETTINGS frame rate\s*let settings_count_before", hs, re.S):
        fails.append("h2.rs: handle_settings_frame no longer leaves on a SETTINGS ACK right before the count (model: only SETTINGS without ACK are counted)")
    # every CONTINUATION of a header block is counted, whatever its length
    if not re.search(r"let cont_count_before = self\.flood_detector\.continuation_count;\s*let acc_size_before = self\.flood_detector\.accumulated_header_size;\s*self\.flood_detector\.continuation_count \+= 1;\s*self\.flood_detector\.accumulated_header_size = self\s*\.flood_detector\s*\.accumulated_header_size\s*\.saturating_add\(payload_len\);", hs):
        fails.append("h2.rs: handle_continuation_header_state no longer counts every CONTINUATION frame by one (and its payload into the accumulated size)")
    # census: in handle_header_state every refusal of a new stream raises highest_peer_stream_id first
    try:
        body = _fn_body(hs, "fn handle_header_state<L>")
        sites = [m.start() for m in re.finditer(r"return self\.refuse_stream_and_discard\(", body)]
        if len(sites) < 3:
            fails.append("h2.rs: handle_header_state has fewer than 3 refuse_stream_and_discard sites (model: draining, stream limit, pool exhausted)")
        for k in sites:
            before = body[max(0, k - 500):k]
            if not re.search(r"if stream_id > self\.highest_peer_stream_id \{\s*self\.highest_peer_stream_id = stream_id;\s*\}\s*$", before):
                fails.append("h2.rs: handle_header_state refuses a stream without raising highest_peer_stream_id first (late frames on it would be treated as frames on an idle stream)")
    except ValueError as ex:
        fails.append("h2.rs: handle_header_state unreadable: %r" % (ex,))

    # shutting_down: a stream is marked as ended only when its request was parsed to the end
    if not re.search(r"if stream\.front\.consumed\s*&& stream\.front\.storage\.is_empty\(\)\s*&& stream\.front\.is_completed\(\)\s*&& stream\.front\.is_terminated\(\)\s*\{\s*stream\.front_received_end_of_stream = true;", ms):
        fails.append("mod.rs: shutting_down marks a stream as having received END_STREAM without requiring the request to be terminated (an upload in flight would be cut)")
    # drive_frontend_shutdown_io: the forced read runs outside ready(); it serves the backends it armed
    if not re.search(r"\.readable\(&mut self\.context, EndpointClient\(&mut self\.router\)\)\s*\{\s*MuxResult::Continue => \{\}\s*MuxResult::CloseSession \| MuxResult::Upgrade => return true,\s*\}.{0,700}?for backend in self\.router\.backends\.values_mut\(\) \{\s*if backend\.readiness\(\)\.filter_interest\(\)\.is_writable\(\) \{\s*let _ = backend\.writable\(&mut self\.context, EndpointServer\(&mut self\.frontend\)\);", ms, re.S):
        fails.append("mod.rs: drive_frontend_shutdown_io no longer writes out what its forced frontend read queued for the backends (no epoll edge follows for bytes already read: the request in flight waits for the shutdown deadline)")
    # reset_stream on a backend connection: once the response has started, only the abort (model on_backend_reset)
    if not re.search(r"let response_started =\s*!self\.position\.is_server\(\) && context\.streams\[stream_id\]\.back\.consumed;\s*if let Some\(token\) = linked_token \{\s*if response_started \{\s*endpoint\.readiness_mut\(token\)\.arm_writable\(\);\s*\} else \{\s*endpoint\.end_stream\(token, stream_id, context\);", hs):
        fails.append("h2.rs: reset_stream asks the frontend for a default answer even when part of the response already went to the client (a 502 page would follow the bytes of the 200, ended cleanly)")
    # trailer fields do not need room in the stream buffer (it may be full of undrained body)
    pk = open(os.path.join(MUX, "pkawa.rs")).read()
    try:
        tb = _fn_body(pk, "pub fn handle_trailer(")
        if "kawa.storage.write_all" in tb or not re.search(r"let key = Store::from_slice\(&k\);\s*let val = Store::from_slice\(&v\);\s*kawa\.push_block\(Block::Header\(Pair \{ key, val \}\)\);", tb):
            fails.append("pkawa.rs: handle_trailer writes the trailer fields into the stream buffer again (full of body when the client is slow: the block fails and the stream is reset)")
    except ValueError as ex:
        fails.append("pkawa.rs: handle_trailer unreadable: %r" % (ex,))
    lines = ["(* GENERATED by props/c15.py:translate from /repo/lib/src/protocol/mux — do not edit. *)",
             "From Coq Require Import NArith List.", "Import ListNotations.", "Open Scope N_scope.", ""]
    for k in PARSER_CONSTS + H2_CONSTS + ["FLOOD_WINDOW_MS", "MAX_LOOP_ITERATIONS"]:
        if k in consts:
            lines.append("Definition %s : N := %d." % (k, consts[k]))
    lines.append("")
    lines.append("(* frame-type codes: %s *)" % ", ".join("%s=%d" % (n, i) for i, n in enumerate(FT_ORDER)))
    lines.append("Definition type_of_byte_table : list (N * N) := [%s]." % "; ".join("(%d, %d)" % x for x in t2f))
    lines.append("Definition byte_of_type_table : list (N * N) := [%s]." % "; ".join("(%d, %d)" % x for x in f2t))
    lines.append("(* 0: stream id must be 0;  1: must be non-zero;  2: any *)")
    lines.append("Definition sid_rule_table : list (N * N) := [%s]." % "; ".join("(%d, %d)" % (k, rules[k]) for k in sorted(rules)))
    if t2f and f2t and len(rules) == 12 and len(consts) == len(PARSER_CONSTS) + len(H2_CONSTS) + 2:
        vlib.write_if_changed(os.path.join(vlib.COQ, "C15", "Gen.v"), "\n".join(lines) + "\n")
    return fails


# ---------------------------------------------------------------------------
# T-steps: every place where a handler bumps a flood counter must run check_flood
# right after the bump (nothing that resets a counter in between, no early exit).

FLOOD_FIELDS = ["rst_stream_count", "ping_count", "settings_count", "empty_data_count",
                "window_update_stream0_count", "continuation_count", "glitch_count"]
# (counter, enclosing fn) -> minimum number of bump sites expected there
FLOOD_SITES = {
    ("rst_stream_count", "handle_rst_stream_frame"): 1,
    ("ping_count", "handle_ping_frame"): 1,
    ("settings_count", "handle_settings_frame"): 1,
    ("empty_data_count", "handle_data_frame"): 1,
    ("window_update_stream0_count", "handle_window_update_frame"): 1,
    ("continuation_count", "handle_continuation_header_state"): 1,
}


# conditions (normalised `if` heads) under which each windowed counter is bumped in its handler; the early
# `return` of the ACK branches is pinned separately below
FLOOD_GUARDS = {
    "rst_stream_count": [],
    "ping_count": [],
    "settings_count": [],
    "empty_data_count": ["if data.payload.is_empty() && !data.end_stream {"],
    "window_update_stream0_count": ["if stream_id == 0 {"],
    "continuation_count": None,   # inside the `match parser::frame_header(..)` arm: shape pinned by regex below
}


def _enclosing_guards(lines, fn_at, i):
    """heads of the `if` blocks that enclose line i, within its function"""
    fn = fn_at[i]
    start = i
    while start > 0 and fn_at[start - 1] == fn:
        start -= 1
    stack = []
    for j in range(start, i):
        ln = lines[j]
        code = ln.split("//")[0]
        for ch_i, ch in enumerate(code):
            if ch == "{":
                stack.append(code.strip() if code.strip().startswith(("if ", "} else if ", "else if ")) else None)
            elif ch == "}":
                if stack:
                    stack.pop()
    return [g for g in stack if g]


def flood_sites(hs):
    fails = []
    code = hs.split("\n#[cfg(test)]\nmod tests")[0]
    lines = code.split("\n")
    fn_at = []
    cur = None
    for ln in lines:
        m = re.match(r"\s*(?:pub(?:\([a-z]+\))?\s+)?fn\s+(\w+)", ln)
        if m:
            cur = m.group(1)
        fn_at.append(cur)
    seen = {}
    for i, ln in enumerate(lines):
        m = re.search(r"self\.flood_detector\.(\w+)\s*(\+=\s*1|=\s*self\s*$|=\s*self\.flood_detector)", ln)
        if not m or m.group(1) not in FLOOD_FIELDS:
            continue
        field = m.group(1)
        fn = fn_at[i]
        # the unknown-setting glitch bump is inside the settings loop: checked by the next frame's check
        if field == "glitch_count" and fn == "handle_settings_frame":
            continue
        # look ahead for the check before any `return`, closing of the fn, or a reset of the counter
        ok = False
        for j in range(i + 1, min(i + 40, len(lines))):
            l2 = lines[j].strip()
            if l2.startswith("//") or l2.startswith("debug_assert") or l2 == "":
                continue
            if "check_flood_or_return!(self)" in l2:
                ok = True
                break
            if re.match(r"return\b", l2) or "reset_continuation" in l2 or re.search(r"flood_detector\.%s\s*=\s*0" % field, l2):
                break
        if not ok:
            fails.append("h2.rs:%d: %s is bumped in %s but check_flood does not follow the bump" % (i + 1, field, fn))
        # what decides whether the frame is counted: the conditions of the blocks enclosing the bump, back to
        # the start of the function.  Model (`qualifying`): type, flags, stream id -- never the payload length,
        # except for the empty-DATA counter, which is about exactly that.
        guards = _enclosing_guards(lines, fn_at, i)
        want = FLOOD_GUARDS.get(field)
        if want is not None and fn in (f for (c, f) in FLOOD_SITES if c == field):
            sized = [g for g in guards if re.search(r"payload_len|\.len\(\)|is_empty\(\)|payload\b", g)]
            if field != "empty_data_count" and sized:
                fails.append("h2.rs:%d: %s is only bumped when %s: the count depends on the payload size (model: every such frame counts)" % (i + 1, field, " / ".join(sized)))
            norm = [re.sub(r"\s+", " ", g) for g in guards]
            if sorted(norm) != sorted(want):
                fails.append("h2.rs:%d: %s is bumped under the conditions %r, the model's `qualifying` says %r" % (i + 1, field, norm, want))
        seen[(field, fn)] = seen.get((field, fn), 0) + 1
    for k, n in FLOOD_SITES.items():
        if seen.get(k, 0) < n:
            fails.append("h2.rs: %s is no longer bumped in %s (flood accounting site removed)" % k)
    return fails


# ---------------------------------------------------------------------------
# case generation

MAXES = [16384, 16384, 16384, 16385, 20000, 65536, 100, 9, 0, 16777215]
TYPES = list(range(0, 10)) + [0x10]


def u24(n):
    return (n & 0xFFFFFF).to_bytes(3, "big")


def u32(n):
    return (n & 0xFFFFFFFF).to_bytes(4, "big")


def hdr(plen, t, flags, sid):
    return u24(plen) + bytes([t & 255, flags & 255]) + u32(sid)


def rbytes(rng, n):
    return bytes(rng.getrandbits(8) for _ in range(n))


SIDS = [0, 1, 2, 3, 5, 0x7FFFFFFF, 0x80000000, 0x80000001, 0xFFFFFFFF]
FLAGSETS = [0, 1, 4, 5, 8, 9, 0x20, 0x28, 0x2D, 0xFF, 0x0C, 0x24]


def good_sid(rng, t):
    if t in (4, 6, 7, 0x10):
        return rng.choice([0, 0, 0, 0x80000000])
    if t == 8:
        return rng.choice([0, 1, 3, 0x7FFFFFFF])
    return rng.choice([1, 3, 5, 7, 0x7FFFFFFF, 0x80000001])


def structured_frame(rng, mx):
    """one frame, mostly valid, lengths at the boundaries of its type's rule"""
    t = rng.choice(TYPES + [rng.choice([0x0A, 0x0B, 0x11, 0xFF, 0x7F])])
    flags = rng.choice(FLAGSETS) if rng.random() < 0.7 else rng.getrandbits(8)
    sid = good_sid(rng, t) if rng.random() < 0.85 else rng.choice(SIDS)
    fixed = {2: 5, 3: 4, 6: 8, 8: 4}
    if t in fixed:
        L = fixed[t] if rng.random() < 0.6 else rng.choice([0, fixed[t] - 1, fixed[t] + 1, 2 * fixed[t], rng.randint(0, 20)])
    elif t == 4:
        if flags & 1 and rng.random() < 0.6:
            L = 0
        else:
            L = rng.choice([0, 6, 12, 36, 48, 384, 390, 378, 5, 7, 11, 13, 1, 389, 396, 6 * rng.randint(0, 70), rng.randint(0, 50)])
    elif t == 7:
        L = rng.choice([8, 8, 9, 7, 0, 4, 20, rng.randint(0, 40)])
    elif t == 0x10:
        L = rng.choice([4, 4, 3, 0, 5, 10, 1028, 1029, 1027, rng.randint(0, 40)])
    else:
        L = rng.choice([0, 1, 2, 4, 5, 6, 7, 10, 16, 33, rng.randint(0, 64), rng.randint(0, 300)])
        if rng.random() < 0.08:
            L = rng.choice([mx, mx + 1, mx - 1, 16384, 16385])
    L = max(0, min(L, 70000))
    body = bytearray(rbytes(rng, L))
    if L and t in (0, 1) and flags & 8:
        # pad length around the remaining size
        rem = L - 1 - (5 if (t == 1 and flags & 0x20) else 0)
        body[0] = max(0, min(255, rng.choice([0, 1, rem, rem + 1, rem - 1, L - 1, L, L - 2, 255, rng.randint(0, 255)])))
    return hdr(L, t, flags, sid) + bytes(body)


def mutate(rng, b):
    b = bytearray(b)
    k = rng.random()
    if k < 0.3 and b:
        i = rng.randrange(min(len(b), 12))
        b[i] ^= 1 << rng.randrange(8)
    elif k < 0.5 and b:
        del b[rng.randrange(len(b)):]
    elif k < 0.7:
        b += rbytes(rng, rng.randint(1, 12))
    elif k < 0.85 and len(b) >= 3:
        n = int.from_bytes(b[0:3], "big") + rng.choice([-1, 1, 6, -6, 256])
        b[0:3] = u24(max(0, n))
    elif b:
        i = rng.randrange(len(b))
        b[i] = rng.getrandbits(8)
    return bytes(b)


def decode_case(rng, cid, kind):
    mx = rng.choice(MAXES)
    ops = []
    for _ in range(rng.randint(1, 6)):
        if kind == "raw":
            n = rng.choice([0, 1, 2, 3, 4, 8, 9, 10, 13, 17, rng.randint(0, 64)])
            data = rbytes(rng, n)
            if n >= 3 and rng.random() < 0.7:
                data = u24(rng.choice([0, 1, 4, 5, 8, n - 9 if n >= 9 else 0, mx, mx + 1])) + data[3:]
            if n >= 4 and rng.random() < 0.6:
                data = data[:3] + bytes([rng.choice(TYPES)]) + data[4:]
        else:
            data = structured_frame(rng, mx)
            if kind == "mut":
                data = mutate(rng, data)
            if rng.random() < 0.3:
                data += structured_frame(rng, mx) if rng.random() < 0.5 else rbytes(rng, rng.randint(1, 9))
        ops.append(["dec", mx, data])
        if rng.random() < 0.15:
            # the preface path: settings_frame is called directly by h2.rs with payload_len = len
            n = rng.choice([0, 6, 12, 7, 5, 384, 390, 389, 36])
            ops.append(["sdec", rbytes(rng, n), rng.choice([0, 1])])
    return Case(cid, ops, dict(kind=kind))


def enc_case(rng, cid):
    ops = []
    for _ in range(rng.randint(1, 6)):
        k = rng.randrange(7)
        cap = rng.choice([0, 8, 9, 12, 13, 16, 17, 18, 44, 45, 64, 100])
        v32 = lambda: rng.choice([0, 1, 2, 0x7FFFFFFF, 0x80000000, 0xFFFFFFFF, 65535, 16384, rng.getrandbits(32)])
        if k == 0:
            tc = rng.randrange(12)
            ops.append(["ehdr", cap, rng.choice([0, 1, 5, 16384, 0xFFFFFF, 0x1000000, 0x1000005, rng.getrandbits(26)]),
                        tc, rng.choice([0x0B, 0xFF, 0x11, 0x0A]) if tc == 11 else 0, rng.getrandbits(8), v32()])
        elif k == 1:
            ops.append(["erst", cap, v32(), rng.randrange(0, 14)])
        elif k == 2:
            ops.append(["ewu", cap, v32(), v32()])
        elif k == 3:
            ops.append(["egoaway", cap, v32(), rng.randrange(0, 14)])
        elif k == 4:
            ops.append(["eping", cap, rbytes(rng, rng.choice([8, 8, 8, 0, 7, 9, 16]))])
        elif k == 5:
            ops.append(["esettings", cap, v32(), rng.choice([0, 1]), v32(), v32(), v32(), v32(), rng.choice([0, 1]), rng.choice([0, 1])])
        else:
            ops.append(["eack", cap])
    return Case(cid, ops, dict(kind="enc"))


def flood_case(rng, cid):
    small = lambda: rng.choice([1, 1, 2, 3, 5, 0])
    cfg = [small(), small(), small(), small(), small(), small(), small(),
           rng.choice([1, 2, 4, 7, 0]), rng.choice([1, 2, 3]), rng.choice([1, 2, 3]), rng.choice([1, 10, 100, 65536])]
    ops = [["fnew"] + cfg]
    for _ in range(rng.randint(3, 40)):
        r = rng.random()
        if r < 0.5:
            idx = rng.choice([0, 4, 6, 8, 9, 10, 12, 4, 6, 0])
            ops.append(["fbump", idx])
        elif r < 0.6:
            ops.append(["fadd", 11, rng.choice([1, 5, 50, 100, 65535, 0xFFFFFFFF])])
        elif r < 0.7:
            ops.append(["frst", rng.choice([0, 1])])
        elif r < 0.75:
            ops.append(["femit"])
        elif r < 0.85:
            ops.append(["ftick", rng.choice([250, 500, 750, 1000, 1250, 3000])])
        elif r < 0.9:
            ops.append(["freset"])
        elif r < 0.95:
            ops.append(["fset", rng.choice([5, 7]), rng.choice([9999, 10000, 10001, 0xFFFFFFFF])])
        else:
            ops.append(["fset", rng.choice([0, 4, 6, 8, 9, 10, 11, 12]), rng.choice([0, 1, 2, 3, 0xFFFFFFFE, 0xFFFFFFFF])])
        ops.append(["fcheck"])
    return Case(cid, ops, dict(kind="flood"))


def slot_case(rng, cid):
    ratio = rng.choice([2, 2, 3, 4])
    ops = [["snew", ratio]]
    nxt = 1
    live = []
    for _ in range(rng.randint(3, 40)):
        r = rng.random()
        if r < 0.5 or not live:
            ops.append(["screate", nxt])
            live.append(nxt)
            nxt += 2
        elif r < 0.9:
            sid = rng.choice(live)
            live.remove(sid)
            ops.append(["skill", sid])
        elif r < 0.95:
            ops.append(["sshrink"])
        else:
            ops.append(["skill", rng.choice([nxt + 10, 2, 0])])
    return Case(cid, ops, dict(kind="slot"))


def gen_cases(rng, tier):
    n = {"quick": 4000, "thorough": 80000, "search": 30000}.get(tier, 4000)
    out = []
    for i in range(n):
        r = i % 20
        if r < 8:
            out.append(decode_case(rng, "s%d" % i, "structured"))
        elif r < 12:
            out.append(decode_case(rng, "m%d" % i, "mut"))
        elif r < 14:
            out.append(decode_case(rng, "r%d" % i, "raw"))
        elif r < 16:
            out.append(enc_case(rng, "e%d" % i))
        elif r < 18:
            out.append(flood_case(rng, "f%d" % i))
        else:
            out.append(slot_case(rng, "t%d" % i))
    return out


def corpus_cases():
    d = os.path.join(vlib.ROOT, "corpus", ID)
    out = []
    if os.path.isdir(d):
        for f in sorted(os.listdir(d)):
            if f.endswith(".case"):
                for c in vlib.parse_cases(open(os.path.join(d, f)).read()):
                    c.id = "k" + c.id
                    out.append(c)
    return out


def nontrivial(case, o):
    """a case counts when it reached both an accepted frame and a rejection (decoder), a trip (flood),
    a slot reuse (slot table) or an encoder success and refusal"""
    toks = [t for ob in o["obs"] for t in ob]
    kinds = set(op[0] for op in case.ops)
    if "dec" in kinds:
        return "ok" in toks and ("fail" in toks or "short" in toks)
    if "fnew" in kinds:
        return "trip" in toks and "none" in toks
    if "snew" in kinds:
        return "reuse" in toks
    return "ok" in toks and "small" in toks


RULE = ("cases: decoder cases (1-6 `dec` ops: one structured frame of every type x flag set x length at the "
        "boundaries of that type's size rule, optionally mutated or followed by more bytes; raw random prefixes; "
        "`sdec` = the preface path calling settings_frame directly), encoder cases (every serializer function x "
        "buffer capacities around the frame size), flood-detector cases (small thresholds, bump/tick/check "
        "sequences), slot-table cases (create/kill/shrink). Non-trivial and distinct: a decoder case with both an "
        "accepted frame and a rejection/short read, a flood case that trips after a non-tripping check, a slot case "
        "that reuses a recycled slot, an encoder case with a success and a too-small buffer; distinct by op text.")
ASSUMPTIONS = [
    "bytes are < 256 (list N models &[u8]); nom 7 `complete` combinators: a short input is Err::Error(Eof), which h2.rs maps to PROTOCOL_ERROR",
    "h2.rs feeds frame_header exactly 9 bytes and frame_body exactly payload_len bytes (expect_read); the model decodes from a longer buffer the same way",
    "flood detector: Instant is modelled as a millisecond counter supplied by the driver (window age set through the hook right before check_flood)",
    "slot table: Context::create_stream/shrink_trailing_recycle and ConnectionH2's streams map are modelled as lists; the pairing 'state = Recycle is followed by remove_dead_stream' is checked by a source census, the rest of ConnectionH2 is exercised only by the black-box tier",
]
TRUSTED = ["translator props/c15.py:translate regenerates the constants, the frame-type byte maps and the stream-id validity table (Gen.v) and checks the order of check_flood and that every flood-counter bump in h2.rs is followed by check_flood"]
LEVEL_TEXT = ("Machine-checked proof (Coq 8.16) over an executable model of the H2 frame decoder (parser.rs), the control-frame "
              "encoders (serializer.rs), the flood detector and the stream slot table: exact consumption for every byte list, "
              "decode/encode round trip, error classes, flood trips and monotone decay, slot-index validity; tied to /repo on "
              "every run by a table/constant translator and a differential correspondence run of the real parser, serializer "
              "and H2FloodDetector against the extracted model, with an independent RFC 9113 oracle in the driver.")
LEVEL_NOTE = ("Whole-connection robustness (handle_*_frame state machine, GOAWAY emission, worker liveness) is only tied by the "
              "source census of flood-accounting sites and the black-box tier; HPACK (loona-hpack) and kawa are outside the model.")
TECHNIQUE = "Rocq/Coq proof over an executable Gallina model + source translators + differential correspondence (extracted OCaml vs real crate)"

HARNESS_BINS = ["c15", "c15bb"]


def extra_stage(tier, rng, work):
    """Black-box connection tier: a real worker (HTTPS listener, ALPN h2, flood thresholds of 8 per window),
    one scripted raw H2 client over TLS per scenario (77 in quick, more in thorough; HTTP/1 and h2c backends) in every connection state
    (before the SETTINGS exchange, ready, stream open, half-closed, closed, after the client's GOAWAY), all in parallel, then a graceful-shutdown phase (SoftStop: proxy-initiated GOAWAY with an idle connection and an upload in flight);
    oracle: the prescribed GOAWAY / RST_STREAM code (or handled: PING still acknowledged), release of the
    connection after a connection error, worker thread alive, a concurrent well-behaved probe still served."""
    res = dict(failures=[], viols=[], coverage={})
    rc, o, e, dt = vlib.sh([vlib.harness_path("c15bb"), "thorough" if tier == "thorough" else "quick"], timeout=180, cwd=work)
    if rc != 0:
        res["failures"].append("c15bb: exit %d %s" % (rc, (o + e)[-300:]))
        return res
    lines = o.splitlines()
    done = [l for l in lines if l.startswith("obs done")]
    if not done:
        res["failures"].append("c15bb did not finish: %s" % o[-300:])
    n = 0
    for l in lines:
        if l.startswith("obs ") and not l.startswith("obs done"):
            n += 1
        if l.startswith("viol "):
            p = l.split(" ", 2)
            name = (p[2].split(":")[0] if len(p) > 2 else "bb").strip().replace(" ", "_")
            name = name if re.fullmatch(r"[A-Za-z_][A-Za-z0-9_]*", name) else "scenario"
            c = Case("bb_" + name, [["blackbox", name]], dict(kind="blackbox"))
            res["viols"].append((c, p[1], p[2] if len(p) > 2 else ""))
    res["coverage"] = dict(blackbox_scenarios=n, blackbox_seconds=round(dt, 1), blackbox_summary=(done[0] if done else ""),
                           blackbox_rule="harness/src/bin/c15bb.rs: scripted raw H2 client over TLS vs a real worker; per scenario the prescribed error code / handled, connection released, worker alive, probe served")
    return res
