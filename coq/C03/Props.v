(** C03 — property theorems (statements; proofs in C03/Proofs.v).

    [h2_to_h1_unambiguous] is the full statement of DESIGN section 6, C03.1: for
    EVERY HTTP/2 header list that [accept_h2] (the model of
    pkawa::handle_header) accepts, the strict RFC 9112 reader reads in the bytes
    of [serialize_h1] (the model of kawa's H1 block converter) exactly ONE
    request head — the method, target and authority sozu understood, the field
    list sozu wrote (Host line, every accepted field, the Cookie line rebuilt
    from the crumbs, the framing field) — and delimits the body by the framing
    sozu chose (Content-Length n / chunked; nothing at all when END_STREAM was
    set), whatever follows on the connection.  The content: accepted names are
    non-empty tokens, accepted values contain no CR / LF / NUL / control byte,
    accepted pseudo-header values contain no SP / control byte, Host and
    Transfer-Encoding never come from the client list, Content-Length is one
    1*DIGIT field whose value is the length sozu recorded. *)
From Coq Require Import List NArith Bool String.
From SV Require Import C13.Model C03.Model C03.Proofs.
Import ListNotations.
Open Scope N_scope.

(** No byte of a CR/LF-free string can terminate the line it is written on. *)
Theorem value_cannot_end_its_line : forall v rest,
  forallb line_byte v = true -> take_line (v ++ crlf ++ rest) = Some (v, rest).
Proof. exact take_line_app. Qed.

(** Every header block pushed for an ACCEPTED HTTP/2 list is a well-formed
    HTTP/1.1 field: non-empty token name, value without CR/LF/NUL/CTL — for all
    header lists. *)
Theorem h2_accepted_fields_well_formed : forall hs es a,
  accept_h2 hs es = Accept a -> forallb field_ok (headers_of (a_items a)) = true.
Proof. exact accepted_items_ok. Qed.

(** … and the request line is made of a token, and a target / authority without
    SP or control bytes (so [METHOD SP target SP version] splits in exactly three). *)
Theorem h2_accepted_request_line_well_formed : forall hs es a,
  accept_h2 hs es = Accept a ->
  a_method a <> [] /\ forallb is_tchar (a_method a) = true /\
  a_path a <> [] /\ forallb is_target_byte (a_path a) = true /\
  forallb (fun b => (33 <=? b) && negb (b =? 127)) (a_authority a) = true.
Proof.
  intros hs es a H. destruct (accepted_line_ok hs es a H) as (Hm & Hmt & Hp & Ha).
  repeat split.
  - intros E. rewrite E in Hm. discriminate.
  - exact Hmt.
  - intros E. rewrite E in Hp. discriminate.
  - apply pseudo_ok_no_sp. exact Hp.
  - apply pseudo_ok_no_sp. exact Ha.
Qed.

(** The whole request written for an accepted list, followed by anything. *)
Theorem h2_to_h1_unambiguous : forall hs es a fuel rest,
  accept_h2 hs es = Accept a ->
  (List.length (written_fields a) < fuel)%nat ->
  exists fr,
    (es = true -> fr = FLen 0) /\
    read_request fuel (serialize_h1 a ++ rest) =
    match fr with
    | FLen n =>
      match (if N.of_nat (List.length rest) <? n then None else take_n (N.to_nat n) rest) with
      | Some (b, r2) => Some (mkreq (a_method a) (a_path a) (a_authority a) (map trimv (written_fields a)) b [], r2)
      | None => None
      end
    | FChunked =>
      match read_chunks fuel rest with
      | Some (b, ts, r2) => Some (mkreq (a_method a) (a_path a) (a_authority a) (map trimv (written_fields a)) b ts, r2)
      | None => None
      end
    end.
Proof. exact h2_to_h1_read_request. Qed.

(** its parts: the request line splits in exactly three, every field line is read
    back, exactly one Host (the authority), framing = what sozu recorded *)
Theorem h2_to_h1_head : forall hs es a fuel rest,
  accept_h2 hs es = Accept a ->
  (List.length (written_fields a) < fuel)%nat ->
  let fr := match h_len (fold_left step hs h_init) with
            | Some n => FLen n
            | None => if es then FLen 0 else FChunked end in
  take_line (serialize_h1 a ++ rest) =
    Some (a_method a ++ [32] ++ a_path a ++ B " HTTP/1.1",
          flat_map line_of (written_fields a) ++ crlf ++ rest) /\
  split_sp (a_method a ++ [32] ++ a_path a ++ B " HTTP/1.1") = [a_method a; a_path a; B "HTTP/1.1"] /\
  read_headers fuel (flat_map line_of (written_fields a) ++ crlf ++ rest) =
    Some (map trimv (written_fields a), rest) /\
  values_of n_host (map trimv (written_fields a)) = [a_authority a] /\
  framing_of (map trimv (written_fields a)) = Some fr /\
  (es = true -> fr = FLen 0).
Proof. exact h2_head_read. Qed.

(** H1 frontend, sozu's OWN acceptance (the callback that sees every parsed
    request before it is forwarded): whatever header list kawa hands over, if
    sozu forwards it then the method and every field name are non-empty tokens,
    Transfer-Encoding occurs at most once and is exactly [chunked], and every
    Content-Length is 1*DIGIT.  (Was an assumption about kawa; now a theorem
    about [h1_guard], which mirrors [editor.rs::h1_framing_violation].) *)
Theorem h1_acceptance_well_formed : forall m hs,
  h1_guard m hs = true ->
  m <> [] /\ forallb is_tchar m = true /\ forallb name_ok hs = true /\
  forallb (fun v => eq_nc v (B "chunked")) (values_of (B "transfer-encoding") hs) = true /\
  (List.length (values_of (B "transfer-encoding") hs) <= 1)%nat /\
  forallb (fun v => negb (is_nil v) && forallb is_digit v) (values_of (B "content-length") hs) = true.
Proof.
  intros m hs H. unfold h1_guard in H. apply andb_prop in H. destruct H as [H Hg].
  apply andb_prop in H. destruct H as [Hm1 Hm2].
  destruct (guard_fields_te false hs Hg) as [Ht1 Ht2].
  repeat split; try assumption.
  - intros E. rewrite E in Hm1. discriminate.
  - exact (guard_fields_names false hs Hg).
  - exact (guard_fields_cl false hs Hg).
Qed.

(** … hence what sozu forwards on the H1 path is read back field by field as
    the list it understood.  The only remaining assumption on kawa is its value
    alphabet (its [achar] table: HTAB, SP..~), checked differentially. *)
Theorem h1_forwarded_is_what_was_read : forall m fields rest,
  h1_guard m fields = true ->
  forallb (fun h => forallb is_vbyte (snd h)) fields = true ->
  read_headers (S (List.length fields)) (flat_map line_of fields ++ crlf ++ rest) =
  Some (map (fun h => (fst h, trim_ows (snd h))) fields, rest).
Proof.
  intros m fields rest H Hv. apply header_block_roundtrip. apply name_value_field_ok; [|exact Hv].
  unfold h1_guard in H. apply andb_prop in H. destruct H as [_ Hg]. exact (guard_fields_names false fields Hg).
Qed.

(** Content-Length vs DATA: a stream is never completed with a DATA total that
    differs from its declared length, and the running total never exceeds it. *)
Theorem cl_data_agree : forall n r evs t,
  data_agree (Some n) r evs = Complete t -> t = n.
Proof. intros n r evs t H. exact (data_agree_complete (Some n) r evs t n H eq_refl). Qed.

Theorem cl_data_never_exceeds : forall n r evs, r <= n ->
  match data_agree (Some n) r evs with Open t | Complete t => t <= n | Reset => True end.
Proof. intros n r evs H. exact (data_agree_never_exceeds (Some n) r evs n eq_refl H). Qed.

(** An upload the client CANCELS (RST_STREAM) before its END_STREAM is never
    complete, whatever was declared and whatever DATA came before or comes
    after: the backend is never shown the end of a request the client did not
    finish (HTTP/1.1: no last chunk / declared length never reached and the
    connection is not reused, [parked_connection_has_no_unfinished_request];
    HTTP/2: RST_STREAM, [h2_backend_stream_never_left_half_open]). *)
Theorem cancelled_upload_is_never_complete : forall declared r pre post,
  forallb (fun e => match e with Data _ false => true | _ => false end) pre = true ->
  data_agree declared r (pre ++ Cancel :: post) = Reset.
Proof. exact data_agree_cancelled. Qed.

(** [ConnectionH2::end_stream], client side: when no RST_STREAM is queued for a
    stream that ends on an HTTP/2 backend connection, that stream is closed in
    both directions or was reset before. *)
Theorem h2_backend_stream_never_left_half_open : forall re qe ar,
  h2_rst_on_end re qe ar = false -> (re = true /\ qe = true) \/ ar = true.
Proof.
  intros re qe ar H. unfold h2_rst_on_end in H. destruct re, qe, ar; cbn in H; try discriminate; auto.
Qed.

(* ------------------------------------------------------------------ *)
(** Request trailers ([pkawa::handle_trailer]).  A trailer NAME is an HPACK
    literal: any byte string.  Whatever it is, a name that starts with ':' — a
    registered pseudo-header or not — refuses the whole block … *)
Theorem h2_pseudo_trailer_refused : forall lf ts k v,
  In (k, v) ts -> starts_colon k = true -> accept_trailers lf ts = None.
Proof.
  intros lf ts k v Hin Hc. unfold accept_trailers.
  assert (existsb trailer_refused ts = true) as E.
  { apply existsb_exists. exists (k, v). split; [exact Hin|]. unfold trailer_refused. cbn [fst]. rewrite Hc. reflexivity. }
  rewrite E. reflexivity.
Qed.

Lemma trailers_all_ok ts : existsb trailer_refused ts = false -> forallb field_ok ts = true.
Proof.
  induction ts as [|[k v] t IH]; intros H; [reflexivity|].
  cbn [existsb] in H. apply orb_false_elim in H. destruct H as [Hh Ht].
  unfold trailer_refused in Hh. cbn [fst snd] in Hh. apply orb_false_elim in Hh. destruct Hh as [Hc Hi].
  cbn [forallb]. rewrite (valid_regular_field_ok k v Hi Hc). exact (IH Ht).
Qed.

Lemma forallb_filter {A} (p q : A -> bool) l : forallb p l = true -> forallb p (filter q l) = true.
Proof.
  induction l as [|a l IH]; intros H; [reflexivity|]. cbn [forallb] in H. apply andb_prop in H. destruct H as [Ha Hl].
  cbn [filter]. destruct (q a); [cbn [forallb]; rewrite Ha; exact (IH Hl)|exact (IH Hl)].
Qed.

(** … and every field of an ACCEPTED block is a well-formed HTTP/1.1 field
    (non-empty token name, value without CR / LF / NUL / control byte) … *)
Theorem h2_accepted_trailers_well_formed : forall lf ts out,
  accept_trailers lf ts = Some out -> forallb field_ok out = true.
Proof.
  intros lf ts out H. unfold accept_trailers in H.
  destruct (existsb trailer_refused ts) eqn:E; [discriminate H|]. injection H as <-.
  destruct lf; [reflexivity|]. unfold trailers_h2. apply forallb_filter. exact (trailers_all_ok ts E).
Qed.

(** … so that the strict reader reads, in what is written after the last chunk,
    exactly those fields and stops exactly at the end of the section: nothing a
    client puts in a trailer name or value moves the end of the request. *)
Theorem h2_trailers_end_the_request : forall lf ts out rest,
  accept_trailers lf ts = Some out ->
  read_headers (S (List.length out)) (serialize_trailers out ++ rest) = Some (map trimv out, rest).
Proof.
  intros lf ts out rest H. unfold serialize_trailers. rewrite app_assoc_reverse.
  exact (header_block_roundtrip out rest (h2_accepted_trailers_well_formed lf ts out H)).
Qed.

(** Keeping an HTTP/1.1 backend connection for the next request
    ([ConnectionH1::end_stream]): a parked connection never has an unfinished
    request on it — the backend is not waiting for body bytes that the next
    request's head would supply. *)
Theorem parked_connection_has_no_unfinished_request : forall x,
  park x = true -> request_unfinished x = false.
Proof.
  intros x H. unfold park in H. apply andb_prop in H. destruct H as [_ H].
  unfold request_unfinished. rewrite H. reflexivity.
Qed.

(* ------------------------------------------------------------------ *)
(** Non-vacuity *)
Definition ex_hs : list header :=
  [ (B ":method", B "POST"); (B ":scheme", B "https"); (B ":path", B "/a?b=c"); (B ":authority", B "example.com");
    (B "accept", B "*/*"); (B "x-a", B "v w"); (B "content-length", B "3") ].

Example accept_nonvacuous :
  match accept_h2 ex_hs false with
  | Accept a => serialize_h1 a =
      B "POST /a?b=c HTTP/1.1" ++ crlf ++ B "Host: example.com" ++ crlf ++ B "accept: */*" ++ crlf ++
      B "x-a: v w" ++ crlf ++ B "content-length: 3" ++ crlf ++ crlf /\
      option_map (@List.length request) (strict_h1 (serialize_h1 a ++ B "abc")) = Some 1%nat /\
      option_map (fun x => (rq_body (fst x), snd x)) (read_request 50 (serialize_h1 a ++ B "abcGET /next")) =
        Some (B "abc", B "GET /next")
  | Reject => False
  end.
Proof. vm_compute. repeat split; reflexivity. Qed.

Example smuggling_rejected :
  accept_h2 (ex_hs ++ [(B "x", [97; 13; 10; 69; 58; 32; 49])]) true = Reject /\
  accept_h2 (ex_hs ++ [(B "transfer-encoding", B "chunked")]) false = Reject /\
  accept_h2 (ex_hs ++ [(B "content-length", B "4")]) false = Reject /\
  accept_h2 [ (B ":method", B "GET"); (B ":scheme", B "https"); (B ":path", B "/a b"); (B ":authority", B "x") ] true = Reject.
Proof. vm_compute. repeat split; reflexivity. Qed.

Example strict_reader_nonvacuous :
  option_map (@List.length request)
    (strict_h1 (B "GET / HTTP/1.1" ++ crlf ++ B "Host: x" ++ crlf ++ crlf ++
                B "POST /2 HTTP/1.1" ++ crlf ++ B "Host: x" ++ crlf ++ B "Transfer-Encoding: chunked" ++ crlf ++ crlf ++
                B "3" ++ crlf ++ B "abc" ++ crlf ++ B "0" ++ crlf ++ crlf)) = Some 2%nat /\
  strict_h1 (B "GET / HTTP/1.1" ++ crlf ++ B "Host: x" ++ crlf ++ B "Content-Length: 3" ++ crlf ++
             B "Transfer-Encoding: chunked" ++ crlf ++ crlf ++ B "0" ++ crlf ++ crlf) = None.
Proof. vm_compute. split; reflexivity. Qed.

Example h1_guard_nonvacuous :
  h1_guard (B "POST") [(B "Accept", B "*/*"); (B "Transfer-Encoding", B "Chunked")] = true /\
  h1_guard (B "POST") [(B "Transfer-Encoding", B "xchunked")] = false /\
  h1_guard (B "POST") [(B "Transfer-Encoding", B "chunked"); (B "transfer-encoding", B "chunked")] = false /\
  h1_guard (B "POST") [(B "Content-Length", B "+3")] = false /\ h1_guard (B "GET") [([], B "foo")] = false.
Proof. vm_compute. repeat split; reflexivity. Qed.

Example data_agree_nonvacuous :
  data_agree (Some 5) 0 [Data 2 false; Data 3 true] = Complete 5 /\
  data_agree (Some 5) 0 [Data 2 false; Data 2 true] = Reset /\
  data_agree (Some 5) 0 [Data 6 false] = Reset /\ data_agree (Some 5) 0 [Data 4 false; Trailers] = Reset.
Proof. vm_compute. repeat split; reflexivity. Qed.

(** trailers: an ordinary block is written and read back; a ':'-name carrying a
    whole request is refused (the reviewer's mutation narrowed that test to the
    five registered names); what it would have written is not a message a strict
    reader accepts (one that skips the line ":x" reads a second request). *)
Definition smuggling_name : list N :=
  B ":x" ++ crlf ++ crlf ++ B "GET /smuggled HTTP/1.1" ++ crlf ++ B "host: localhost" ++ crlf ++ B "x-tail".

Example trailers_nonvacuous :
  accept_trailers false [(B "grpc-status", B "0"); (B "x-forwarded-for", B "6.6.6.6"); (B "x-t", B "a b")] =
    Some [(B "grpc-status", B "0"); (B "x-t", B "a b")] /\
  accept_trailers true [(B "grpc-status", B "0")] = Some [] /\
  accept_trailers false [(B "x-t", B "1"); (smuggling_name, B "1")] = None /\
  accept_trailers false [(B ":path", B "/")] = None /\
  accept_trailers false [(B "X-T", B "1")] = None /\
  strict_h1 (B "POST / HTTP/1.1" ++ crlf ++ B "Host: x" ++ crlf ++ B "Transfer-Encoding: chunked" ++ crlf ++ crlf ++
             B "0" ++ crlf ++ serialize_trailers [(B "x-t", B "1"); (smuggling_name, B "1")]) = None /\
  option_map (@List.length request)
    (strict_h1 (B "POST / HTTP/1.1" ++ crlf ++ B "Host: x" ++ crlf ++ B "Transfer-Encoding: chunked" ++ crlf ++ crlf ++
                B "0" ++ crlf ++ serialize_trailers [(B "x-t", B "1"); (B "grpc-status", B "0")])) = Some 1%nat.
Proof. vm_compute. repeat split; reflexivity. Qed.

Example cancel_nonvacuous :
  data_agree (Some 400) 0 [Data 100 false; Cancel] = Reset /\
  data_agree None 0 [Data 100 false; Cancel; Data 0 true] = Reset /\
  data_agree None 0 [Data 100 false; Data 0 true] = Complete 100 /\
  h2_rst_on_end true false false = true /\ h2_rst_on_end true true false = false /\ h2_rst_on_end false false true = false.
Proof. vm_compute. repeat split; reflexivity. Qed.

(** the park rule: the defect fixed in /repo (the request side was not consulted)
    and what it let happen on the connection: the next request read as a body *)
Example park_nonvacuous :
  park (mkx true true false true true) = true /\
  park (mkx true true false false true) = false /\
  park (mkx true true false true false) = false /\
  park (mkx true true true true true) = false /\
  option_map (fun x => (rq_target (fst x), rq_body (fst x), snd x))
    (read_request 50 (B "POST /first HTTP/1.1" ++ crlf ++ B "Host: x" ++ crlf ++ B "Content-Length: 29" ++ crlf ++ crlf ++
                      B "GET /second HTTP/1.1" ++ crlf ++ B "Host: x" ++ crlf ++ crlf)) =
    Some (B "/first", B "GET /second HTTP/1.1" ++ crlf ++ B "Host: x", crlf ++ crlf).
Proof. vm_compute. repeat split; reflexivity. Qed.
