(** C04 — token interface of the model for the correspondence check.

    ops:
      rx <src> <valid> <s>...          oracle row: regex source, compiles?, the strings it matches
      idna <host> <ascii> <ok>         oracle row: idna::domain_to_ascii of a hostname on which it is not the identity
      add|del <pos> <host> <kind> <pathval> <hasm> <m> <hasc> <c> <redirect|-1> <auth|-1>
      probe <host> <path> <method>
      hashost <host>                    Router::has_hostname (idna row of the host applied to the tree part)
      permcheck                         (implementation-only oracle; no observation)
      tins <key> <n> | trem <key> | tget <key> <aw> | tmut <key> <aw>     (the trie API itself)
    obs: ok | err <Name> | panic | skipped | route <hasc> <c> <redirect> <auth> | notfound *)
From Coq Require Import List Arith ZArith NArith String Bool.
From SV Require Import Common.Tok Common.Trie C04.Model.
Import ListNotations.
Open Scope string_scope.
Open Scope list_scope.

Definition table := list (bytes * (bool * list bytes)).

Definition tab_ok (tb : table) (src : bytes) : bool :=
  match aget src tb with Some (v, _) => v | None => false end.
Definition tab_match (tb : table) (src s : bytes) : bool :=
  match aget src tb with Some (_, l) => existsb (beq s) l | None => false end.

Record rstate := mkr { r_tab : table; r_rt : router; r_dead : bool; r_trie : trie Z;
                       r_idna : list (bytes * (bytes * bool)) }.

Definition bytes_of (ts : list tok) : list bytes :=
  flat_map (fun t => match t with TB b => [b] | _ => [] end) ts.

Definition parse_front (args : list tok) : option frontend :=
  match args with
  | [TN pos; TB host; TN kind; TB pval; TN hasm; TB m; TN hasc; TB c; TN red; TN auth] =>
    Some (mkfront (if (pos =? 0)%Z then Pre else if (pos =? 1)%Z then Post else Tree)
                  host kind pval
                  (if (hasm =? 1)%Z then Some m else None)
                  (if (hasc =? 1)%Z then Some c else None)
                  (if (red <? 0)%Z then None else Some red)
                  (if (auth <? 0)%Z then None else Some (auth =? 1)%Z))
  | _ => None
  end.

Definition opres_toks (r : opres) : list tok :=
  match r with
  | OOk => [TS "ok"]
  | OErrPath => [TS "err"; TS "InvalidPathRule"]
  | OErrDomain => [TS "err"; TS "InvalidDomain"]
  | OErrAdd => [TS "err"; TS "AddRoute"]
  | OErrRemove => [TS "err"; TS "RemoveRoute"]
  end.

Definition is_panic (r : opres) : bool := false.

Definition route_toks (o : option route) : list tok :=
  match o with
  | None => [TS "notfound"]
  | Some r =>
    [TS "route";
     tn_bool (match r_cluster r with Some _ => true | None => false end);
     TB (match r_cluster r with Some c => c | None => [] end);
     TN (r_redirect r); tn_bool (r_auth r)]
  end.

(** [idna::domain_to_ascii] is an oracle (rows of the case, answers of the real
    crate).  It is applied to the hostname ahead of the model: the code applies
    it inside [DomainRule::from_str] (exact / wild-card arms) and in
    [add/remove_tree_rule]; for hostnames without '/', on which it preserves
    '*' and is idempotent (both checked by the driver), that is the same.  A
    failing conversion is [InvalidDomain] (after the path rule was parsed), or
    [RemoveRoute] for the removal of a tree frontend.
    [inr true] = idna failed, [inr false] = the path rule does not parse. *)
Definition with_idna (st : rstate) (ofr : option frontend) : option (frontend + bool) :=
  match ofr with
  | None => None
  | Some fr =>
    match aget (f_host fr) (r_idna st) with
    | None => Some (inl fr)
    | Some (a, true) =>
      Some (inl (mkfront (f_pos fr) a (f_pkind fr) (f_pval fr) (f_method fr) (f_cluster fr) (f_redirect fr) (f_auth fr)))
    | Some (_, false) =>
      match parse_path (tab_ok (r_tab st)) (f_pkind fr) (f_pval fr) with
      | Some _ => Some (inr true)
      | None => Some (inr false)
      end
    end
  end.

Definition step (st : rstate) (op : list tok) : rstate * list tok :=
  let bad := (st, [TS "badop"]) in
  match op with
  | TS name :: args =>
    if name =? "rx" then
      match args with
      | TB src :: TN v :: ms => (mkr (r_tab st ++ [(src, ((v =? 1)%Z, bytes_of ms))]) (r_rt st) (r_dead st) (r_trie st) (r_idna st), [])
      | _ => bad
      end
    else if name =? "idna" then
      match args with
      | [TB h; TB a; TN ok] => (mkr (r_tab st) (r_rt st) (r_dead st) (r_trie st) (r_idna st ++ [(h, (a, (ok =? 1)%Z))]), [])
      | _ => bad
      end
    else if name =? "permcheck" then (st, [])
    else if r_dead st then (st, [TS "skipped"])
    else if name =? "add" then
      match with_idna st (parse_front args) with
      | Some (inr e) => (st, opres_toks (if e then OErrDomain else OErrPath))
      | Some (inl fr) =>
        let '(rt, r) := add_front (tab_ok (r_tab st)) (tab_match (r_tab st)) (r_rt st) fr in
        (mkr (r_tab st) rt (is_panic r) (r_trie st) (r_idna st), opres_toks r)
      | None => bad
      end
    else if name =? "del" then
      match with_idna st (parse_front args) with
      | Some (inr e) =>
        (st, opres_toks (if e then (match parse_front args with
                                    | Some f0 => match f_pos f0 with Tree => OErrRemove | _ => OErrDomain end
                                    | None => OErrDomain end)
                         else OErrPath))
      | Some (inl fr) =>
        let '(rt, r) := remove_front (tab_ok (r_tab st)) (tab_match (r_tab st)) (r_rt st) fr in
        (mkr (r_tab st) rt (is_panic r) (r_trie st) (r_idna st), opres_toks r)
      | None => bad
      end
    else if name =? "tins" then
      match args with
      | [TB k; TN v] =>
        let '(t, r) := insert (tab_ok (r_tab st)) (r_trie st) k v in
        (mkr (r_tab st) (r_rt st) (r_dead st) t (r_idna st),
         [TS (match r with IOk => "ok" | IExisting => "existing" | IFailed => "failed" end)])
      | _ => bad
      end
    else if name =? "trem" then
      match args with
      | [TB k] =>
        let '(t, b) := remove (r_trie st) k in
        (mkr (r_tab st) (r_rt st) (r_dead st) t (r_idna st), [TS (if b then "ok" else "notfound")])
      | _ => bad
      end
    else if name =? "tget" then
      match args with
      | [TB k; TN aw] =>
        (st, match lookup (tab_match (r_tab st)) (r_trie st) k (aw =? 1)%Z with
             | Some (k', v) => [TS "some"; TB k'; TN v]
             | None => [TS "none"]
             end)
      | _ => bad
      end
    else if name =? "tmut" then
      match args with
      | [TB k; TN aw] =>
        (mkr (r_tab st) (r_rt st) (r_dead st)
             (modify_mut (tab_match (r_tab st)) (r_trie st) k (aw =? 1)%Z (fun v => (v + 1)%Z)) (r_idna st),
         match lookup_mut (tab_match (r_tab st)) (r_trie st) k (aw =? 1)%Z with
         | Some (k', v) => [TS "some"; TB k'; TN v]
         | None => [TS "none"]
         end)
      | _ => bad
      end
    else if name =? "hashost" then
      match args with
      | [TB h] =>
        let a := match aget h (r_idna st) with
                 | None => Some h | Some (a, true) => Some a | Some (_, false) => None end in
        (st, [tn_bool (has_hostname_at (tab_match (r_tab st)) (r_rt st) h a)])
      | _ => bad
      end
    else if name =? "probe" then
      match args with
      | [TB h; TB p; TB m] => (st, route_toks (route_lookup (tab_match (r_tab st)) (r_rt st) h p m))
      | _ => bad
      end
    else bad
  | _ => bad
  end.

Fixpoint run_from (st : rstate) (ops : list (list tok)) : list (list tok) :=
  match ops with
  | [] => []
  | op :: ops' => let '(st', o) := step st op in o :: run_from st' ops'
  end.

Definition run_case (ops : list (list tok)) : list (list tok) :=
  run_from (mkr [] empty_router false root []) ops.
