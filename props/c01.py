"""C01 — proxied HTTP bodies arrive complete, unmodified and in order."""
import os, re, sys
import vlib
from vlib import Case

sys.path.insert(0, os.path.join(vlib.ROOT, "tools"))
import rustmini as R

ID = "C01"
COQ_DIRS = ["Common", "C01"]
COQ_TARGETS = ["C01/Props.vo", "C01/Run.vo"]
PROPS_MODULES = ["C01.Props"]
RUN_MODULE = "C01.Run"
RUN_FN = "run_case"
HARNESS_BIN = "c01"
HARNESS_BINS = ["c01", "c01bb"]
SHRINK_KEEP = ("new",)
MUX = os.path.join(vlib.REPO, "lib/src/protocol/mux")
CENSUS_FILES = ["answers.rs", "h1.rs", "h2.rs", "mod.rs"]
ARM_RX = re.compile(r"\barm_writable\s*\(|\bsignal_pending_write\s*\(")
QUEUE_RX = re.compile(r"\.push_block\s*\(|\.storage\s*\.fill\s*\(|\benqueue_rst\s*\(")
# functions that put an answer / end marker into a response buffer on their own and must wake the writer
ENTRY_POINTS = [("answers.rs", "set_default_answer_with_retry_after"), ("answers.rs", "forcefully_terminate_answer"),
                ("h1.rs", "end_stream"), ("h2.rs", "end_stream"), ("h1.rs", "readable")]


def committed_rows():
    """the rows of the committed census coq/C01/Census.v: [(file, fn, arms, queues)]"""
    try:
        t = open(os.path.join(vlib.COQ, "C01", "Census.v")).read()
    except OSError:
        return []
    t = t[t.index("committed_census"):t.index("entry_points")] if "entry_points" in t else t
    return [(f, n, a == "true", q == "true") for f, n, a, q in re.findall(r'\("([\w.]+)", "(\w+)", (true|false), (true|false)\)', t)]


def census(notes=None):
    """Per function of the census files: does it arm WRITABLE, does it queue output.
    Read by meaning, against the committed census: code moved into a NEW private helper of the same file
    counts for the functions that call it (the helper gets no row of its own), and a function of the
    committed census that disappeared while exactly one new function of the same file has its flags is taken
    as renamed (row kept under the committed name, reported in `notes`).  Everything else — a function that
    starts or stops arming / queueing, a new function nobody with a row calls — shows up as a changed row."""
    notes = [] if notes is None else notes
    known = committed_rows()
    rows = []
    for fname in CENSUS_FILES:
        src = R.strip(open(os.path.join(MUX, fname)).read())
        # cut test modules
        m = re.search(r"#\[cfg\(test\)\]\s*mod\s+\w+\s*\{", src)
        if m:
            src = src[:m.start()]
        # verification hooks (cfg(sozu_verif) modules, add-only, no production caller) are not part of the census
        while True:
            hm = re.search(r"#\[cfg\(sozu_verif\)\]\s*pub(?:\([^)]*\))?\s+mod\s+\w+\s*\{", src)
            if not hm:
                break
            src = src[:hm.start()] + src[R.match_brace(src, hm.end() - 1) + 1:]
        fns = [(m.start(), m.group(1)) for m in re.finditer(r"\bfn\s+(\w+)\s*[<(]", src)]
        order, direct, bodies = [], {}, {}
        for idx, (pos, name) in enumerate(fns):
            try:
                body, _ = R.fn_body(src, name, pos)
            except R.Unrecognised:
                continue
            a = len(ARM_RX.findall(body))
            q = len(QUEUE_RX.findall(body))
            if name not in direct:
                order.append(name)
                direct[name] = [0, 0]
                bodies[name] = ""
            direct[name][0] += a
            direct[name][1] += q
            bodies[name] += body
        kn = {n: (a, q) for f, n, a, q in known if f == fname}
        names = set(direct)
        callees = {n: set(re.findall(r"\b(\w+)\s*\(", bodies[n])) & names - {n} for n in names}
        # renamed: committed name gone, exactly one new function with a row-worthy, identical pair of flags
        gone = [n for n in kn if n not in names]
        fresh = [n for n in order if n not in kn and (direct[n][0] or direct[n][1])]
        alias = {}
        for g in gone:
            cands = [n for n in fresh if (bool(direct[n][0]), bool(direct[n][1])) == kn[g] and n not in alias.values()]
            if len(cands) == 1 and len([x for x in gone if kn[x] == kn[g]]) == 1:
                alias[g] = cands[0]
                notes.append("census: %s fn %s is no longer there; fn %s (same arms/queues flags) is taken as its new name" % (fname, g, cands[0]))
        renamed = set(alias.values())
        new = {n for n in names if n not in kn and n not in renamed} if kn else set()

        def eff(n, seen=()):
            a, q = direct[n]
            for h in callees[n] & new:
                if h not in seen:
                    ha, hq = eff(h, seen + (n,))
                    a, q = a + ha, q + hq
            return a, q
        called_by_old = set()
        for n in names - new:
            stack = list(callees[n] & new)
            while stack:
                h = stack.pop()
                if h not in called_by_old:
                    called_by_old.add(h)
                    stack += list(callees[h] & new)
        back = {v: k for k, v in alias.items()}
        for n in order:
            if n in new and n in called_by_old:
                if direct[n][0] or direct[n][1]:
                    notes.append("census: %s new helper fn %s is counted for its callers" % (fname, n))
                continue
            a, q = eff(n) if n not in new else direct[n]
            if a or q:
                rows.append((fname, back.get(n, n), a, q))
    return rows


def census_coq(name, rows):
    body = ";\n   ".join('("%s", "%s", %s, %s)' % (r[0], r[1], "true" if r[2] else "false", "true" if r[3] else "false") for r in rows)
    return "Definition %s : list census_row :=\n  [%s].\n" % (name, body)


def freeze():
    """(re)write the committed census from the current source — run by hand, then commit"""
    text = ("(* Committed census of WRITABLE-arming and output-queueing sites in lib/src/protocol/mux\n"
            "   (file, function, arms WRITABLE?, queues output?).  Regenerate with\n"
            "   python3 -c \"import sys; sys.path[:0]=['tools','.']; import props.c01 as p; p.freeze()\" and review the diff. *)\n"
            "From Coq Require Import String List.\nFrom SV Require Import C01.Model.\nImport ListNotations.\nOpen Scope string_scope.\n\n"
            + census_coq("committed_census", census())
            + "\nDefinition entry_points : list (string * string) :=\n  [%s].\n" % "; ".join('("%s", "%s")' % e for e in ENTRY_POINTS))
    vlib.write_if_changed(os.path.join(vlib.COQ, "C01", "Census.v"), text)


def _norm(x):
    return "".join(x.split())


def translate():
    fails, notes = [], []
    rows = census(notes)
    # function order inside a file is not a fact of the census: committed order first, anything else after
    korder = {(f, n): i for i, (f, n, _, _) in enumerate(committed_rows())}
    rows = sorted(rows, key=lambda r: (korder.get((r[0], r[1]), len(korder)), ))
    text = ("(* GENERATED by props/c01.py:translate from /repo — do not edit. *)\n"
            "From Coq Require Import String List.\nFrom SV Require Import C01.Model.\nImport ListNotations.\nOpen Scope string_scope.\n\n"
            + census_coq("gen_census", rows))
    vlib.write_if_changed(os.path.join(vlib.COQ, "C01", "Gen.v"), text)
    # (a private function renamed with unchanged flags, code moved into a new private helper: read as the same census,
    #  see census(); nothing is reported)
    total = sum(r[2] for r in rows)
    if total == 0:
        fails.append("census: no arm_writable/signal_pending_write call site found (source layout changed)")

    def soft(what, why):
        fails.append("unreadable: %s: %s" % (what, why))

    # the write paths the model mirrors: the real functions are executed by the driver on every run (ops write /
    # bigwrite / writev / bigwritev), so a shape that is no longer recognised is left to the correspondence run
    sk = R.strip(open(os.path.join(vlib.REPO, "lib/src/socket.rs")).read())
    try:
        w, _ = R.fn_body(sk, "tcp_socket_write")
        v, _ = R.fn_body(sk, "tcp_socket_write_vectored")
    except R.Unrecognised as ex:
        w = v = ""
        soft("socket.rs write paths", str(ex))
    cm = re.search(r"if\s+(\w+)\s*==\s*(\w+)\.len\(\)\s*\{\s*return\s*\(\1,\s*SocketResult::Continue\)", w)
    if w and not cm:
        soft("socket.rs tcp_socket_write", "no longer visibly returns Continue once the cursor reaches the end of the buffer (the model's loop does)")
    elif w:
        C, Bf = re.escape(cm.group(1)), re.escape(cm.group(2))       # the cursor and the buffer, whatever their names
        for rx, what in ((r"\w+\.write\(&%s\[%s\.\.\]\)" % (Bf, C), "writes the unsent suffix buf[cursor..]"),
                         (r"Ok\(0\)\s*=>\s*return\s*\(%s,\s*SocketResult::Continue\)" % C, "Ok(0) returns (cursor, Continue)"),
                         (r"Ok\((\w+)\)\s*=>\s*\{[^}]*\b%s\s*\+=\s*\1\s*;" % C, "advances the cursor by the written count"),
                         (r"ErrorKind::WouldBlock\s*=>\s*return\s*\(%s,\s*SocketResult::WouldBlock\)" % C, "WouldBlock returns the count so far")):
            if not re.search(rx, w, re.S):
                soft("socket.rs tcp_socket_write", "no longer visibly %s (the model's loop does)" % what)
    for rx, what in ((r"\w+\.write_vectored\(\w+\)", "is a single write_vectored"),
                     (r"\((\w+),\s*SocketResult::Continue\)", "returns (sz, Continue)"),
                     (r"ErrorKind::WouldBlock\s*=>\s*\(0,\s*SocketResult::WouldBlock\)", "maps WouldBlock to (0, WouldBlock)")):
        if v and not re.search(rx, v):
            soft("socket.rs tcp_socket_write_vectored", "no longer visibly %s (the model's single-shot write does)" % what)

    # H2 -> H1 upload: the blocks handle_data_frame pushes (mirrored by the driver's h2toh1 op).  Local names are
    # free; a `let` that names the chunked test or the payload length stands for its definition.
    h2 = R.strip(open(os.path.join(MUX, "h2.rs")).read())
    hd, _ = R.fn_body(h2, "handle_data_frame")
    hb = R.let_bindings(hd)
    hd = R.expand(hd, {k: x for k, x in hb.items() if re.fullmatch(r"\w+\.body_size\s*==\s*kawa::BodySize::Chunked", x)})
    CH = r"\(?\s*\w+\.body_size\s*==\s*kawa::BodySize::Chunked\s*\)?"
    m = re.search(r"if\s+" + CH + r"\s*&&\s*(\w+)\s*>\s*0\s*\{", hd) or re.search(r"if\s+(\w+)\s*>\s*0\s*&&\s*" + CH + r"\s*\{", hd)
    if not m:
        fails.append("h2.rs handle_data_frame: the test `chunked && <payload length> > 0` was not found")
    else:
        L = re.escape(m.group(1))
        G = r"if\s+(?:" + CH + r"\s*&&\s*" + L + r"\s*>\s*0|" + L + r"\s*>\s*0\s*&&\s*" + CH + r")\s*\{"
        FL = lambda eb, ec, eh, es: (r"\w+\.push_block\(kawa::Block::Flags\(kawa::Flags\s*\{" + "".join(r"(?=[^}]*\b%s:\s*%s\s*[,}])" % kv for kv in (("end_body", eb), ("end_chunk", ec), ("end_header", eh), ("end_stream", es))))
        for rx, what in ((G + r"[^}]*?write!\(\w+,\s*\"\"[^;]*;[^}]*?\}\s*;?\s*\w+\.push_block\(kawa::Block::ChunkHeader", "writes a hex chunk header for a non-empty DATA frame of a chunked message"),
                         (r"\w+\.push_block\(kawa::Block::Chunk\(kawa::Chunk\s*\{\s*data:\s*kawa::Store::Slice\(\w+\)", "pushes the payload as one Chunk block"),
                         (G + r"\s*" + FL("false", "true", "false", "false"), "ends every non-empty chunk with end_chunk flags"),
                         (FL("true", CH, "false", "true"), "ends the message with {end_body, end_chunk = chunked, end_stream} whatever the size of the last DATA frame"),
                         (r"if\s+" + L + r"\s*>\s*0\s*\{", "guards the payload blocks by <payload length> > 0")):
            if not re.search(rx, hd, re.S):
                fails.append("h2.rs handle_data_frame no longer %s" % what)
        # the chunk-size line is the hex of the payload length, not of another quantity (strings are stripped: the
        # format arguments are read from the unstripped source)
        raw = open(os.path.join(MUX, "h2.rs")).read()
        fm = re.search(r"fn\s+handle_data_frame\b", raw)
        rawfn = raw[fm.start():fm.start() + len(hd) + 20000] if fm else ""
        wm = re.search(r"write!\(\s*\w+\s*,\s*\"\{(\w*):x\}\"\s*(?:,\s*(\w+)\s*)?\)", rawfn)
        if not wm or (wm.group(1) or wm.group(2)) != m.group(1):
            fails.append("h2.rs handle_data_frame: the chunk-size line is no longer `{:x}` of the payload length %s" % m.group(1))
    # a stream attached to a backend (or any) H2 connection starts with exactly that peer's announced initial
    # window, whatever the slot's previous exchange left in it (r2 m1: `min(current, initial)` truncates the
    # next upload of a keep-alive client at what the previous one left)
    st, _ = R.fn_body(h2, "start_stream")
    sb = R.let_bindings(st)
    am = re.search(r"\*\s*(\w+)\.split\(&self\.position\)\.window\s*=(?!=)\s*([^;]+);", st)
    want = "i32::try_from(self.peer_settings.settings_initial_window_size).unwrap_or(i32::MAX)"
    got = _norm(R.expand(am.group(2), sb)) if am else ""
    while got.startswith("(") and R.match_brace(got, 0, "(", ")") == len(got) - 1:
        got = got[1:-1]
    if not am or got != want or not re.search(r"if\s+let\s+Some\(%s\)\s*=\s*context\.streams\.get_mut\(\w+\)" % (am.group(1) if am else "x"), st):
        fails.append("h2.rs start_stream no longer RESETS the new stream's send window to this peer's SETTINGS_INITIAL_WINDOW_SIZE "
                     "(plain assignment `*s.split(&self.position).window = i32::try_from(self.peer_settings.settings_initial_window_size).unwrap_or(i32::MAX)`; read: %r)" % got)
    # write path: no control frame may be serialised while `expect_write` names a partially written
    # frame (m2): every stage of flush_pending_control_frames that serialises into the zero buffer is
    # guarded by `self.expect_write.is_none()`, and a partial flush parks on H2StreamId::Zero
    fc, _ = R.fn_body(h2, "flush_pending_control_frames")
    fb = R.let_bindings(fc)
    stages = []
    for im in re.finditer(r"\bif\b", fc):
        ob = fc.find("{", im.end())
        cb = R._cond_before(fc, ob) if ob >= 0 else None
        if not cb or cb[1] != im.start():
            continue
        conj = [_norm(c) for c in R.split_top(R.expand(cb[0], fb), "&&")]
        conj = [c[1:-1] if c.startswith("(") and c.endswith(")") else c for c in conj]
        pend = [c for c in conj if re.fullmatch(r"!self\.(?:\w+\.)*pending_\w+\.is_empty\(\)", c)]
        if pend:
            stages.append((pend[0], conj))
    if len(stages) < 2:
        fails.append("h2.rs flush_pending_control_frames: the control-frame stages (WINDOW_UPDATE, RST_STREAM) were not recognised")
    for name, conj in stages:
        if not any(re.fullmatch(r"self\.expect_write\.is_none\(\)|matches!\(self\.expect_write,None\)|self\.expect_write==None", c) for c in conj):
            fails.append("h2.rs flush_pending_control_frames: the %s stage no longer requires self.expect_write.is_none() "
                         "(a control frame could be written inside a half-written frame)" % name)
    if not re.search(r"if\s+let\s+Some\(H2StreamId::Zero\)\s*=\s*self\.expect_write\s*\{\s*if\s+self\.flush_zero_to_socket\(\)", fc) \
            and not re.search(r"if\s+(?:matches!\(self\.expect_write,\s*Some\(H2StreamId::Zero\)\)|self\.expect_write\s*==\s*Some\(H2StreamId::Zero\))\s*(?:&&\s*self\.flush_zero_to_socket\(\)\s*\{|\{\s*if\s+self\.flush_zero_to_socket\(\))", fc):
        fails.append("h2.rs flush_pending_control_frames no longer finishes a parked control frame (expect_write = Zero) before anything else")
    if len(re.findall(r"if\s+self\.flush_zero_to_socket\(\)\s*\{\s*self\.expect_write\s*=\s*Some\(H2StreamId::Zero\)", fc)) < 2:
        fails.append("h2.rs flush_pending_control_frames: a partially flushed control frame is no longer parked on expect_write = Zero")
    lib = R.strip(open(os.path.join(vlib.REPO, "lib/src/lib.rs")).read())
    aw, _ = R.fn_body(lib, "arm_writable")
    if not (re.search(r"self\.interest\.insert\(Ready::WRITABLE\)", aw) and re.search(r"self\.signal_pending_write\(\)|self\.event\.insert\(Ready::WRITABLE\)", aw)):
        fails.append("lib.rs arm_writable no longer sets WRITABLE in interest and signals the event")
    sp, _ = R.fn_body(lib, "signal_pending_write")
    if not re.search(r"self\.event\.insert\(Ready::WRITABLE\)", sp):
        fails.append("lib.rs signal_pending_write no longer inserts WRITABLE into event")
    return fails


TRANSLATE_FALLBACK = ("the only facts that may be reported unreadable are the shapes of socket.rs tcp_socket_write / "
                      "tcp_socket_write_vectored: the real functions are executed by the driver on every case of the correspondence run "
                      "(ops write / bigwrite / writev / bigwritev: the count and SocketResult they return are compared with the model's "
                      "loop, the peer reads back exactly that many bytes and compares them with the prefix offered), so a change of the "
                      "loop is a disagreement whatever its spelling (harmless/C01_write_unreadable_* show both directions). Every other "
                      "fact that cannot be read, or reads differently, is a hard failure")


RULE = ("in-process: the real SocketHandler::socket_write / socket_write_vectored of mio TcpStream over a loopback pair; "
        "small writes (sizes around 0, 1, 4095..4097, 16383..16393) that the kernel takes whole, and writes far above "
        "the socket buffers (32 MiB) that it takes partly; the peer reads back exactly the reported count and the driver "
        "checks it is the prefix of what was offered. Framings on real bytes: (r*) kawa's HTTP/1 parser and H1 converter "
        "fed a generated response in segments through a small buffer, compared with the model's strict decoder; (h*) the real "
        "H2BlockConverter over body chunks and flow-control windows (hook verif_c01::convert_body); (u*) an HTTP/2 upload "
        "without content-length as the HTTP/1.1 bytes kawa's H1 converter writes for the blocks handle_data_frame pushes "
        "(block shape tied by the translator); (ut*) the same upload ended by a trailer block, whose bytes come from the real "
        "pkawa::handle_trailer (hook verif_c01::trailers_as_h1): exact tail `0 CRLF`, the trailer lines, `CRLF`, nothing after; "
        "nothing at all after a content-length framed body; (t*) FrontRustls write loops over loopback. Non-trivial and "
        "distinct: the case has a partial write followed by a further write, a vectored write of >= 3 slices, a body crossing "
        "several reads, a window-limited conversion, or a chunked upload ended by at least one trailer field; distinct by op text.")
ASSUMPTIONS = [
    "the kernel accepts a prefix of what a write offers and delivers bytes in order (TCP); a 32 MiB non-blocking write to a peer that is not reading is accepted only partly",
    "the session glue between the tied pieces (which blocks ConnectionH2::handle_data_frame pushes, when Mux::ready calls the read and write paths) is tied by source shape and by the black-box tier, not executed in-process: ConnectionH2 / Mux need a live socket and are private",
    "rustls' own buffering is exercised through FrontRustls over loopback, not modelled beyond the accept/flush limits; epoll edge delivery is modelled, not verified",
]
TRUSTED = ["translator props/c01.py:translate regenerates the census of arming/queueing sites (coq/C01/Gen.v) and checks the shape of tcp_socket_write / tcp_socket_write_vectored / arm_writable / signal_pending_write, of the blocks handle_data_frame pushes, of the expect_write guards in flush_pending_control_frames, and of the send-window reset in start_stream",
           "verif hooks (cfg(sozu_verif), add-only) mux::verif_c01::{convert_body, trailers_as_h1}",
           "committed census coq/C01/Census.v"]
SIZES = [0, 1, 2, 9, 100, 4095, 4096, 4097, 16383, 16384, 16385, 16393, 16394, 30000]
BIG = 32 * 1024 * 1024


H2_SIZES = [0, 1, 9, 100, 16383, 16384, 16385, 16393, 16394, 20000, 32768, 40000]
H2_WINDOWS = [-70000, -1, 0, 1, 9, 100, 16383, 16384, 16385, 16393, 32768, 65535, 65536, 100000, 2147483647]
H2_MAX = [16384, 16384, 16384, 16393, 20000, 65536, 100, 1]


def h2conv_op(rng):
    nch = rng.randint(0, 4)
    sizes = [rng.choice(H2_SIZES) if rng.random() < 0.8 else rng.randint(0, 45000) for _ in range(nch)]
    nw = rng.randint(1, 6)
    ws = [rng.choice(H2_WINDOWS) if rng.random() < 0.8 else rng.randint(-5, 70000) for _ in range(nw)]
    mx = rng.choice(H2_MAX)
    if mx <= 100:   # many tiny frames: keep the body small
        sizes = [min(s, 700 if mx == 100 else 40) for s in sizes]
    return ["h2conv", mx, rng.randrange(2), rng.randrange(1 << 30), "W"] + ws + ["C"] + sizes


H1_SIZES = [0, 1, 2, 9, 15, 16, 17, 255, 256, 1000, 4095, 4096, 4097]
H1_BIG = [16383, 16384, 16385, 16393, 20000]


def h1rt_message(rng, kind, sizes, ext=False, trailer=False):
    """-> (message bytes, head length, content-length); chunk sizes are written in lower/upper case, with leading zeros"""
    chunks = [bytes(rng.getrandbits(8) for _ in range(n)) for n in sizes]
    body = b"".join(chunks)
    if kind == 0:
        head = b"HTTP/1.1 200 OK\r\nContent-Length: %d\r\nX-K: v\r\n\r\n" % len(body)
        return head + body, len(head), len(body)
    if kind == 1:
        head = b"HTTP/1.1 200 OK\r\nTransfer-Encoding: chunked\r\nTrailer: X-T\r\n\r\n"
        m = head
        for i, c in enumerate(chunks):
            if not c:
                continue
            hx = "%x" % len(c)
            hx = rng.choice([hx, hx.upper(), "0" + hx, "000" + hx])
            m += hx.encode() + (b";name=value" if ext and i % 2 == 1 else b"") + b"\r\n" + c + b"\r\n"
        m += b"0\r\n" + (b"X-T: done\r\n" if trailer else b"") + b"\r\n"
        return m, len(head), 0
    head = b"HTTP/1.1 200 OK\r\nConnection: close\r\n\r\n"
    return head + body, len(head), 0


def h1rt_op(rng, big=False):
    kind = rng.randrange(3)
    pool = H1_BIG if big else H1_SIZES
    sizes = [rng.choice(pool) if rng.random() < 0.8 else rng.randint(0, 3000) for _ in range(1 if big else rng.randint(1, 4))]
    msg, hl, n = h1rt_message(rng, kind, sizes, trailer=rng.random() < 0.4)
    whole = rng.random() < 0.55
    if not whole:
        cut = rng.randint(0, len(msg) - 1) if rng.random() < 0.7 else max(0, len(msg) - rng.randint(1, 8))
        msg = msg[:cut]
    segs = [rng.choice([1, 2, 7, 100, 1000, 4096, 16384, 16393, 100000]) for _ in range(rng.randint(1, 6))]
    if len(msg) > 6000:
        segs = [x for x in segs if x >= 100] or [4096]
    return ["h1rt", kind, 1 if whole else 0, hl, n, msg, "S"] + segs


def h2toh1_op(rng):
    k = rng.randint(0, 4)
    frames = [bytes(rng.getrandbits(8) for _ in range(rng.choice([0, 1, 9, 15, 16, 17, 255, 256, 300, 4096]))) for _ in range(k)]
    ended = rng.randrange(2)
    if ended and rng.random() < 0.5:
        frames.append(b"")          # END_STREAM on a separate empty DATA frame
    return ["h2toh1", ended, 1] + frames


TRAILER_NAMES = [b"grpc-status", b"grpc-message", b"x-checksum", b"server-timing", b"x-t", b"etag-like", b"a"]


def h2toh1t_op(rng):
    """an upload ended by a trailer block (HEADERS + END_STREAM after the DATA frames): chunked (no
    content-length) or content-length framed; the trailer block goes through the real handle_trailer"""
    k = rng.randint(0, 4)
    frames = [bytes(rng.getrandbits(8) for _ in range(rng.choice([0, 1, 9, 15, 16, 17, 255, 256, 300, 4096]))) for _ in range(k)]
    nf = rng.choice([0, 1, 1, 2, 3])
    names = rng.sample(TRAILER_NAMES, nf)
    alphabet = b"abcdefghijklmnopqrstuvwxyzABCDEFGHIJKLMNOPQRSTUVWXYZ0123456789-_.=/+;,:"
    fields = []
    for nme in names:
        v = bytes(rng.choice(alphabet) for _ in range(rng.choice([0, 1, 2, 8, 40])))
        if len(v) > 4 and rng.random() < 0.3:
            v = v[:2] + b" " + v[3:]
        fields += [nme, v]
    chunked = 0 if rng.random() < 0.25 else 1
    return ["h2toh1t", chunked, nf] + fields + frames


def h2convt_op(rng):
    """a chunked HTTP/1.1 response with 0..3 trailer fields through kawa's parser and the real H2 converter"""
    mx = rng.choice(H2_MAX)
    nf = rng.choice([0, 1, 1, 2, 3])
    cs = [rng.choice([s_ for s_ in H2_SIZES if s_ > 0]) for _ in range(rng.randint(1, 3))]
    if mx <= 100:   # many tiny frames: keep the body small
        cs = [min(s_, 700 if mx == 100 else 40) for s_ in cs]
    total = sum(cs)
    ws = [rng.choice(H2_WINDOWS + [total, total - 1, total + 1, max(total - cs[-1], 0)]) for _ in range(rng.randint(1, 5))]
    return ["h2convt", mx, rng.randrange(1, 10 ** 6), nf, "W"] + ws + ["C"] + cs


def gen_cases(rng, tier):
    n = {"quick": 60, "thorough": 600, "search": 150}.get(tier, 60)
    out = []
    for i in range({"quick": 100, "thorough": 2000, "search": 300}.get(tier, 100)):
        out.append(Case("u%d" % i, [["new"]] + [h2toh1_op(rng) for _ in range(rng.randint(1, 4))], {}))
    for i in range({"quick": 60, "thorough": 1000, "search": 200}.get(tier, 60)):
        out.append(Case("ut%d" % i, [["new"]] + [h2toh1t_op(rng) for _ in range(rng.randint(1, 4))], {}))
    for i in range({"quick": 300, "thorough": 5000, "search": 800}.get(tier, 300)):
        out.append(Case("r%d" % i, [["new"]] + [h1rt_op(rng, big=(i % 15 == 0)) for _ in range(rng.randint(1, 3))], {}))
    for i in range({"quick": 400, "thorough": 6000, "search": 1000}.get(tier, 400)):
        out.append(Case("h%d" % i, [["new"]] + [h2conv_op(rng) for _ in range(rng.randint(1, 3))], {}))
    for i in range({"quick": 120, "thorough": 2000, "search": 400}.get(tier, 120)):
        out.append(Case("ht%d" % i, [["new"]] + [h2convt_op(rng) for _ in range(rng.randint(1, 3))], {}))
    # the same response arriving in two reads, the cut inside the trailer section (fix 159a5ae: a header group is
    # only started when the Flags block that closes it is queued); at least two windows
    for i in range({"quick": 80, "thorough": 1500, "search": 300}.get(tier, 80)):
        ops = []
        for _ in range(rng.randint(1, 3)):
            op = h2convt_op(rng)
            while len(op) - op.index("C") - 1 < 1 or op.index("C") - op.index("W") - 1 < 2:
                op = h2convt_op(rng)
            op[0] = "h2convt2"
            if op[3] == 0:
                op[3] = 2
            ops.append(op)
        out.append(Case("hs%d" % i, [["new"]] + ops, {}))
    # the real FrontRustls over loopback with a rustls client that keeps reading; limits and
    # sizes are multiples of 256 (the model scales by 256), totals on both sides of the limit
    for i in range({"quick": 12, "thorough": 120, "search": 30}.get(tier, 12)):
        lim = rng.choice([4096, 16384, 65536])
        ops = [["tlsnew", lim]]
        for _ in range(rng.randint(2, 5)):
            seed = rng.randrange(1 << 30)
            if rng.random() < 0.4:
                ops.append(["tlswrite", 256 * rng.choice([1, 15, 16, 17, 63, 64, 65, 255, 257, 600]), seed])
            else:
                k = rng.randint(1, 4)
                sizes = [256 * rng.choice([0, 1, 8, 16, 33, 64, 100, 300]) for _ in range(k)]
                if sum(sizes) == 0:
                    sizes[0] = 256
                ops.append(["tlswritev", lim, seed] + sizes)
        out.append(Case("t%d" % i, ops, {}))
    for i in range(n):
        ops = [["new"]]
        for _ in range(rng.randint(2, 8)):
            r = rng.random()
            seed = rng.randrange(1 << 30)
            if r < 0.45:
                ops.append(["write", rng.choice(SIZES), seed])
            elif r < 0.85:
                ops.append(["writev", seed] + [rng.choice(SIZES[:10]) for _ in range(rng.randint(0, 5))])
            elif r < 0.93:
                ops.append(["bigwrite", BIG, seed])
            else:
                ops.append(["bigwritev", seed, BIG // 2, BIG // 2])
        out.append(Case("w%d" % i, ops, {}))
    return out


def corpus_cases():
    d = os.path.join(vlib.ROOT, "corpus", ID)
    out = []
    if os.path.isdir(d):
        for f in sorted(os.listdir(d)):
            if f.endswith(".case"):
                for c in vlib.parse_cases(open(os.path.join(d, f)).read()):
                    c.id = "k" + c.id
                    out.append(c)
    return out


def nontrivial(case, o):
    names = [op[0] for op in case.ops]
    if "h2convt2" in names:
        return any(op[0] == "h2convt2" and ob and "T" in ob for op, ob in zip(case.ops, o["obs"]))
    if "h2convt" in names:
        # the trailers went out after a body that needed more than one round
        return any(op[0] == "h2convt" and op[3] >= 1 and ob and "T" in ob and ob.count("R") >= 2 for op, ob in zip(case.ops, o["obs"]))
    if "h2toh1t" in names:
        return any(op[0] == "h2toh1t" and op[1] == 1 and op[2] >= 1 and len(op) > 3 + 2 * op[2] for op in case.ops)
    if "h2toh1" in names:
        return any(op[0] == "h2toh1" and op[1] == 1 and len(op) > 4 and op[-1] == b"" for op in case.ops)
    if "h1rt" in names:
        # a body that crosses several reads, or a cut inside the body
        return any(op[0] == "h1rt" and ob and isinstance(ob[0], (bytes, bytearray)) and len(ob[0]) > 0 and (op[2] == 0 or len(op) > 9)
                   for op, ob in zip(case.ops, o["obs"]))
    if "tlswritev" in names:
        return any(op[0] == "tlswritev" and ob and ob[0] == "partial" for op, ob in zip(case.ops, o["obs"]))
    if "h2conv" in names:
        # a chunk split across frames or rounds, or a stall followed by progress
        for op, ob in zip(case.ops, o["obs"]):
            if op[0] == "h2conv" and ob.count("R") >= 2 and sum(1 for t in ob if isinstance(t, int)) >= 4:
                return True
        return False
    part = any(n.startswith("big") and i + 1 < len(names) for i, n in enumerate(names))
    vec = any(op[0] == "writev" and len(op) >= 5 for op in case.ops)
    return part or vec


LEVEL_TEXT = ("Machine-checked proof (Coq 8.16): framing round trips (Content-Length, chunked with arbitrary cuts, H2 DATA with padding "
              "and any max frame size), relay prefix invariant and completeness for every ingest/convert/flush schedule and capacity, "
              "equality of the looping socket_write with the loop around the single-shot vectored write for every kernel schedule, and "
              "no lost wake-up in the readiness model provided every queueing transition arms WRITABLE; that hypothesis and the write "
              "paths are tied to the source on every run by a census translator; the real TCP write paths are run in-process over a "
              "loopback pair against the extracted model with a byte-exact prefix oracle.")
LEVEL_NOTE = ("RE-FREEZE: the census tie compares, per function of mux/{answers,h1,h2,mod}.rs, the pair (arms WRITABLE?, queues output?) with "
              "coq/C01/Census.v; edits inside a function that keep both booleans do not affect it. When a function legitimately starts/stops "
              "arming or queueing, or such a function is added/removed/renamed, review it against LIFECYCLE invariant 15 and run "
              "python3 -c \"import sys; sys.path[:0]=['tools','.']; import props.c01 as p; p.freeze()\" then commit coq/C01/Census.v. "
              "PARTIAL: the logic is proved on models. The H2 block converter's DATA path and both FrontRustls write loops are mirrored and run in-process against the real code "
              "(the two rustls loops are NOT symmetric in the source: the vectored one offers the data to rustls once and returns a partial count "
              "with Continue; callers retry — refuted symmetry is a theorem, conservation is proved). Not covered by proof or by an in-process tie: "
              "epoll delivery; the H2 write path's frame atomicity (no control frame inside a half-written frame) is tied by a translator shape on "
              "the guards of flush_pending_control_frames only (no model/theorem yet). The census tie is syntactic "
              "(weakest tie of the design). The end-to-end body transfer through a worker is exercised by C02's black-box tier "
              "(relayed body length checks) only for small bodies.")
TECHNIQUE = "Rocq/Coq proof over executable Gallina models + source translator (census, write-path shape) + differential correspondence on the real TCP write paths"
CLAIMED = True


# ---------------------------------------------------------------------------
# end-to-end black-box tier (harness/src/bin/c01bb.rs, props/c01_blackbox.py)
from props import c01_blackbox as _bb
extra_stage = _bb.extra_stage


def bin_for_case(case):
    """replayed black-box scenarios go to the black-box driver"""
    return "c01bb" if case.ops and case.ops[0][0] == "blackbox" else HARNESS_BIN
