(** C11 — token interface of the model for the correspondence check.
    One function: [run_case : list (list tok) -> list (list tok)]. *)
From Coq Require Import List Arith ZArith NArith String Bool.
From SV Require Import Common.Tok Common.Buf C11.Model.
Import ListNotations.
Open Scope string_scope.
Open Scope list_scope.

Definition err_name (e : err) : string :=
  match e with
  | ENothingRead => "NothingRead" | EBufferFull => "BufferFull"
  | ETooLarge => "MessageTooLarge" | EUnderDelim => "MessageLengthUnderDelimiter"
  | EInvalidProto => "InvalidProtobufMessage" | EConnection => "Connection"
  | ENoByteToRead => "NoByteToRead" | ENoByteWritten => "NoByteWritten"
  | EWrite => "Write" | ETimeout => "TimeoutReached"
  end.

Definition st_toks (c : chan) : list tok :=
  [ tn_nat (cap (front c)); tn_nat (avail_data (front c)); tn_nat (avail_space (front c));
    tn_nat (cap (back c)); tn_nat (avail_data (back c)); tn_nat (avail_space (back c));
    tn_bool (int_r c); tn_bool (int_w c); tn_bool (rdy_r c); tn_bool (rdy_w c); tn_bool (rdy_hup c) ].

Record rstate := mkr { rc : chan; rs : sock; rbad : list (list N) }.

Definition decodable_of (bad : list (list N)) (p : list N) : bool :=
  negb (existsb (bytes_eqb p) bad).

Definition res_nat_toks (r : res nat) : list tok :=
  match r with Ok n => [TS "ok"; tn_nat n] | Err e => [TS "err"; TS (err_name e)] end.
Definition res_msg_toks (r : res (list N)) : list tok :=
  match r with Ok m => [TS "ok"; TB m] | Err e => [TS "err"; TS (err_name e)] end.
Definition res_unit_toks (r : res unit) : list tok :=
  match r with Ok _ => [TS "ok"] | Err e => [TS "err"; TS (err_name e)] end.

Definition bytes_of (ts : list tok) : list (list N) :=
  flat_map (fun t => match t with TB b => [b] | _ => [] end) ts.

Definition step (st : rstate) (op : list tok) : rstate * list tok :=
  let c := rc st in let s := rs st in
  let bad := (st, [TS "badop"]) in
  match op with
  | TS name :: args =>
    if name =? "new" then
      match args with
      | [TN i; TN m] =>
        (mkr (new_chan (Z.to_nat i) (Z.to_nat m)) (mksock [] false [] []) (rbad st), [])
      | _ => bad end
    else if name =? "expect" then (st, [])
    else if name =? "bad" then (mkr c s (rbad st ++ bytes_of args), [])
    else if name =? "arrive" then
      match args with
      | [TB bs] => (mkr c (mksock (inq s ++ bs) (ineof s) (wsched s) (outq s)) (rbad st), [])
      | _ => bad end
    else if name =? "peer_close" then
      (mkr c (mksock (inq s) true (wsched s) (outq s)) (rbad st), [])
    else if name =? "ev" then
      match args with
      | [TN r; TN w] =>
        let c' := handle_events c (Z.eqb r 1) (Z.eqb w 1) in
        (mkr c' s (rbad st), st_toks c')
      | _ => bad end
    else if name =? "readable" then
      let '(c', s', r) := readable c s in
      (mkr c' s' (rbad st), res_nat_toks r ++ st_toks c')
    else if name =? "read" then
      let '(c', r) := read_message (decodable_of (rbad st)) c in
      (mkr c' s (rbad st), res_msg_toks r ++ st_toks c')
    else if name =? "write" then
      match args with
      | [TB p] =>
        let '(c', r) := write_message c p in
        (mkr c' s (rbad st), res_unit_toks r ++ st_toks c')
      | _ => bad end
    else if name =? "writable" then
      (* the peer's receive queue is drained by the harness after every call,
         so a single write takes everything: schedule = one sufficient write *)
      let s0 := mksock (inq s) (ineof s) [avail_data (back c)] [] in
      let '(c', s', r) := writable c s0 in
      (mkr c' (mksock (inq s') (ineof s') [] []) (rbad st),
       res_nat_toks r ++ [TB (outq s')] ++ st_toks c')
    else if name =? "turn" then
      let '(c', s', ms) := owner_turn (decodable_of (rbad st)) 1000 c s in
      (mkr c' s' (rbad st), flat_map res_msg_toks ms ++ [TS "st"] ++ st_toks c')
    else if name =? "drain_check" then
      let '(c2, s2, ms) := drain_rounds (decodable_of (rbad st)) 64 c s [] in
      (mkr c2 s2 (rbad st), flat_map res_msg_toks ms ++ [TS "st"] ++ st_toks c2)
    else if name =? "bb_worker" then
      (* black-box run of a real worker: the specification is "all n responses,
         in order"; nothing of the model is involved *)
      match args with
      | [TN _; TN _; TN n; TN _] => (st, [TN n; TS "inorder"])
      | _ => bad end
    else if name =? "bb_oversize" then
      (* black-box: an answer above the ceiling is turned into an error answer and the
         worker goes on answering; nothing of the model is involved *)
      (st, [TS "failure"; TS "later_answered"])
    else if name =? "bb_oversize_prefix" then
      (* black-box, open finding oversize-worker-loop: the worker's own read loop does not
         give the channel up after a declared length above the ceiling; the observation is
         whatever the implementation shows (answered / closed / silent), the oracle is the
         driver's *)
      (st, match args with [_; _] => [] | _ => [TS "badop"] end)
    else if name =? "retype" then
      (* Channel::into moves every field: buffers, interest and readiness are unchanged *)
      (mkr (retype c) s (rbad st), st_toks (retype c))
    else if name =? "sndbuf" then (st, [])
    else if name =? "writable_p" then
      (* back-pressure variant: the peer does not read; the number of bytes the
         kernel accepted is an input (taken from the implementation's run by
         props/c11.py:model_ops), everything else is predicted *)
      match args with
      | [TN n] =>
        let k := Z.to_nat n in
        let sched := if Nat.eqb k (avail_data (back c)) then [k] else [k; O] in
        let '(c', s', r) := writable c (mksock (inq s) (ineof s) sched (outq s)) in
        (mkr c' (mksock (inq s') (ineof s') [] (outq s')) (rbad st), res_nat_toks r ++ st_toks c')
      | _ =>
        let '(c', s', r) := writable c (mksock (inq s) (ineof s) [] (outq s)) in
        (mkr c' (mksock (inq s') (ineof s') [] (outq s')) (rbad st), res_nat_toks r ++ st_toks c')
      end
    else if name =? "peer_read" then
      match args with
      | [TN n] =>
        let k := Z.to_nat n in
        (mkr c (mksock (inq s) (ineof s) (wsched s) (skipn k (outq s))) (rbad st), [TB (firstn k (outq s))])
      | _ => bad end
    else if name =? "flush_check" then (st, [])
    else if name =? "read_b" then
      let '(c', s', r) := read_blocking (decodable_of (rbad st)) c s in
      (mkr c' s' (rbad st), res_msg_toks r ++ st_toks c')
    else if name =? "write_b" then
      match args with
      | [TB p] =>
        let '(c', s', r) := write_blocking c (mksock (inq s) (ineof s) [] []) p in
        (mkr c' (mksock (inq s') (ineof s') [] []) (rbad st),
         res_unit_toks r ++ [TB (outq s')] ++ st_toks c')
      | _ => bad end
    else if name =? "extract" then
      let '(c', s', ms) := extract_loop (decodable_of (rbad st)) 1000 c s [] in
      (mkr c' s' (rbad st), map (fun m => TB m) ms ++ [TS "st"] ++ st_toks c')
    else if name =? "drain_check_x" then
      let '(c', s', ms) := extract_rounds (decodable_of (rbad st)) 64 c s [] in
      (mkr c' s' (rbad st), map (fun m => TB m) ms ++ [TS "st"] ++ st_toks c')
    else bad
  | _ => bad
  end.

Fixpoint run_from (st : rstate) (ops : list (list tok)) : list (list tok) :=
  match ops with
  | [] => []
  | op :: ops' => let '(st', o) := step st op in o :: run_from st' ops'
  end.

Definition run_case (ops : list (list tok)) : list (list tok) :=
  run_from (mkr (new_chan 1 1) (mksock [] false [] []) []) ops.
