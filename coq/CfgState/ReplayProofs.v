(** CfgState — lemmas about replaying [generate_requests] (C05). *)
From stdpp Require Import gmap strings.
From Coq Require Import NArith Lia.
From SV Require Import CfgState.Model CfgState.Spec.
Open Scope N_scope.

(** the part of the reachable-state invariant replay needs *)
Definition Inv5 (hc_valid : N -> bool) (s : state) : Prop :=
  (forall i c v, clusters s !! i = Some c -> c_hc c = Some v -> hc_valid v = true)
  /\ (forall tls k f, get_f tls s !! k = Some f -> k = front_key f /\ (f_pos f <? 3) = true).

(** the sections whose buckets need the prefix argument (not covered by the theorem below) *)
Definition no_buckets (s : state) : Prop :=
  backends s = ∅ /\ tcp_f s = ∅ /\ udp_f s = ∅ /\ certs s = ∅.

Lemma union_insert_swap `{Countable K} {V} (m acc : gmap K V) i x :
  m !! i = None -> m ∪ <[i := x]> acc = <[i := x]> m ∪ acc.
Proof. intros Hn. rewrite <- insert_union_l. rewrite insert_union_r by exact Hn. reflexivity. Qed.

Lemma set_l_get_l_id k s : set_l k s (get_l k s) = s.
Proof. destruct k, s; reflexivity. Qed.

Section replay.
  Variable fingerprint : N -> option N.
  Variable inames : N -> option (list N).
  Variable hc_valid : N -> bool.
  Variable steps : lkind -> list step.
  Notation dispatch := (dispatch fingerprint inames hc_valid steps).
  Notation replay := (replay fingerprint inames hc_valid steps).

  Lemma replay_app l1 l2 s :
    replay (l1 ++ l2) s =
    let '(s1, n1) := replay l1 s in let '(s2, n2) := replay l2 s1 in (s2, (n1 + n2)%nat).
  Proof.
    revert s. induction l1 as [|r l1 IH]; intros s; cbn [app Model.replay].
    - destruct (replay l2 s). reflexivity.
    - destruct (dispatch s r) as [s1 x]. rewrite IH.
      destruct (replay l1 s1) as [s2 n1]. destruct (replay l2 s2) as [s3 n2].
      destruct x; reflexivity.
  Qed.

  (** clusters *)
  Lemma replay_clusters l acc s :
    NoDup (l.*1) ->
    (forall i c v, In (i, c) l -> c_hc c = Some v -> hc_valid v = true) ->
    replay (map (fun ic : N * cluster => RAddCluster (fst ic) (snd ic)) l) (set_clusters s acc)
    = (set_clusters s (list_to_map l ∪ acc), 0%nat).
  Proof.
    revert acc. induction l as [|[i c] l IH]; intros acc Hnd Hv.
    - cbn. rewrite (left_id_L ∅ (∪)). reflexivity.
    - cbn [map Model.replay fst snd Model.dispatch]. unfold add_cluster.
      assert (Hok : match c_hc c with Some v => hc_valid v = true | None => True end).
      { destruct (c_hc c) eqn:E; [eapply Hv; [left; reflexivity|exact E]|exact I]. }
      inversion Hnd as [|? ? Hni Hnd']; subst.
      assert (Hstep : (match c_hc c with
                       | Some v => if hc_valid v then (set_clusters (set_clusters s acc) (<[i:=c]> (clusters (set_clusters s acc))), Ok)
                                   else (set_clusters s acc, Err EInvalidValue)
                       | None => (set_clusters (set_clusters s acc) (<[i:=c]> (clusters (set_clusters s acc))), Ok)
                       end) = (set_clusters s (<[i:=c]> acc), Ok)).
      { destruct (c_hc c); [rewrite Hok|]; reflexivity. }
      rewrite Hstep. rewrite IH; [|exact Hnd'|intros; eapply Hv; [right; eauto|eauto]].
      cbn [list_to_map foldr fst snd]. f_equal. f_equal.
      apply union_insert_swap. apply not_elem_of_list_to_map_1. exact Hni.
  Qed.

  (** listeners of one kind: Add, then Activate when the stored listener is active *)
  Lemma replay_listeners k l acc s :
    NoDup (l.*1) ->
    (forall a, a ∈ l.*1 -> acc !! a = None) ->
    replay (flat_map (fun al : N * listener =>
                        RAddListener k (fst al) (snd al) true
                        :: (if l_active (snd al) then [RActivate (proxy_of k) (fst al)] else [])) l)
           (set_l k s acc)
    = (set_l k s (list_to_map l ∪ acc), 0%nat).
  Proof.
    revert acc. induction l as [|[a li] l IH]; intros acc Hnd Hacc.
    - cbn. rewrite (left_id_L ∅ (∪)). reflexivity.
    - inversion Hnd as [|? ? Hni Hnd']; subst.
      assert (Ha : acc !! a = None) by (apply Hacc; left).
      assert (Hget : forall m, get_l k (set_l k s m) = m) by (intros; destruct k; reflexivity).
      assert (Hset : forall m m', set_l k (set_l k s m) m' = set_l k s m') by (intros; destruct k; reflexivity).
      assert (Hkind : kind_of (proxy_of k) = Some k) by (destruct k; reflexivity).
      cbn [flat_map fst snd]. destruct (l_active li) eqn:Hact.
      + cbn [app Model.replay Model.dispatch]. unfold add_listener. rewrite andb_false_r, Hget, Ha, Hset.
        unfold set_active. rewrite Hkind, Hget, lookup_insert, Hset.
        rewrite insert_insert.
        assert (Eli : Listener true (l_fields li) (l_rest li) = li) by (destruct li; cbn in *; subst; reflexivity).
        rewrite Eli.
        rewrite IH; [|exact Hnd'|].
        * cbn [list_to_map foldr fst snd]. f_equal. f_equal.
          apply union_insert_swap. apply not_elem_of_list_to_map_1. exact Hni.
        * intros b Hb. rewrite lookup_insert_ne; [apply Hacc; right; exact Hb|].
          intros ->. apply Hni. exact Hb.
      + cbn [app Model.replay Model.dispatch]. unfold add_listener. rewrite andb_false_r, Hget, Ha, Hset.
        rewrite IH; [|exact Hnd'|].
        * cbn [list_to_map foldr fst snd]. f_equal. f_equal.
          apply union_insert_swap. apply not_elem_of_list_to_map_1. exact Hni.
        * intros b Hb. rewrite lookup_insert_ne; [apply Hacc; right; exact Hb|].
          intros ->. apply Hni. exact Hb.
  Qed.

  (** http / https frontends *)
  Lemma replay_fronts tls (l : list (fkey * front)) acc s :
    NoDup (l.*1) ->
    (forall k, k ∈ l.*1 -> acc !! k = None) ->
    (forall k f, In (k, f) l -> k = front_key f /\ (f_pos f <? 3) = true) ->
    replay (map (fun kf : fkey * front => RAddFront tls (snd kf)) l) (set_f tls s acc)
    = (set_f tls s (list_to_map l ∪ acc), 0%nat).
  Proof.
    revert acc. induction l as [|[k f] l IH]; intros acc Hnd Hacc Hk.
    - cbn. rewrite (left_id_L ∅ (∪)). reflexivity.
    - inversion Hnd as [|? ? Hni Hnd']; subst.
      destruct (Hk k f (or_introl eq_refl)) as [-> Hpos].
      assert (Ha : acc !! front_key f = None) by (apply Hacc; left).
      assert (Hget : forall m, get_f tls (set_f tls s m) = m) by (intros; destruct tls; reflexivity).
      assert (Hset : forall m m', set_f tls (set_f tls s m) m' = set_f tls s m') by (intros; destruct tls; reflexivity).
      cbn [map Model.replay Model.dispatch fst snd]. unfold add_front. rewrite Hget, Ha, Hpos, Hset.
      rewrite IH; [|exact Hnd'| |intros; apply Hk; right; assumption].
      + cbn [list_to_map foldr fst snd]. f_equal. f_equal.
        apply union_insert_swap. apply not_elem_of_list_to_map_1. exact Hni.
      + intros b Hb. rewrite lookup_insert_ne; [apply Hacc; right; exact Hb|].
        intros E. apply Hni. rewrite E. exact Hb.
  Qed.
End replay.

Lemma perm_map `{Countable K} {V} (m : gmap K V) (l : list (K * V)) :
  l ≡ₚ map_to_list m -> NoDup (l.*1) /\ list_to_map l = m.
Proof.
  intros Hp. assert (Hnd : NoDup (l.*1)).
  { rewrite Hp. apply NoDup_fst_map_to_list. }
  split; [exact Hnd|]. rewrite (list_to_map_proper l (map_to_list m) Hnd Hp).
  apply list_to_map_to_list.
Qed.

Section replay_generate.
  Variable fingerprint : N -> option N.
  Variable inames : N -> option (list N).
  Variable hc_valid : N -> bool.
  Variable steps : lkind -> list step.
  Notation replay := (replay fingerprint inames hc_valid steps).

  (** each hash/tree-map backed section can be replayed in ANY order *)
  Theorem section_order_free s :
    (forall k m l, get_l k s = ∅ -> l ≡ₚ map_to_list m ->
       replay (flat_map (fun al : N * listener =>
                           RAddListener k (fst al) (snd al) true
                           :: (if l_active (snd al) then [RActivate (proxy_of k) (fst al)] else [])) l) s
       = (set_l k s m, 0%nat))
    /\ (forall m l, clusters s = ∅ -> l ≡ₚ map_to_list m ->
          (forall i c v, m !! i = Some c -> c_hc c = Some v -> hc_valid v = true) ->
          replay (map (fun ic : N * cluster => RAddCluster (fst ic) (snd ic)) l) s = (set_clusters s m, 0%nat))
    /\ (forall tls m l, get_f tls s = ∅ -> l ≡ₚ map_to_list m ->
          (forall k f, m !! k = Some f -> k = front_key f /\ (f_pos f <? 3) = true) ->
          replay (map (fun kf : fkey * front => RAddFront tls (snd kf)) l) s = (set_f tls s m, 0%nat)).
  Proof.
    split; [|split].
    - intros k m l He Hp. destruct (perm_map m l Hp) as [Hnd Hm].
      rewrite <- (set_l_get_l_id k s) at 1. rewrite He.
      rewrite (replay_listeners fingerprint inames hc_valid steps k l ∅ s Hnd); [|intros; apply lookup_empty].
      rewrite Hm, (right_id_L ∅ (∪)). reflexivity.
    - intros m l He Hp Hv. destruct (perm_map m l Hp) as [Hnd Hm].
      assert (Es : s = set_clusters s ∅) by (destruct s; cbn in *; subst; reflexivity).
      rewrite Es at 1.
      rewrite (replay_clusters fingerprint inames hc_valid steps l ∅ s Hnd).
      + rewrite Hm, (right_id_L ∅ (∪)). reflexivity.
      + intros i c v Hin. apply (Hv i c v). rewrite <- Hm.
        apply elem_of_list_to_map_1; [exact Hnd|apply elem_of_list_In; exact Hin].
    - intros tls m l He Hp Hk. destruct (perm_map m l Hp) as [Hnd Hm].
      assert (Es : s = set_f tls s ∅) by (destruct tls, s; cbn in *; subst; reflexivity).
      rewrite Es at 1.
      rewrite (replay_fronts fingerprint inames hc_valid steps tls l ∅ s Hnd); [| |].
      + rewrite Hm, (right_id_L ∅ (∪)). reflexivity.
      + intros; apply lookup_empty.
      + intros k f Hin. apply Hk. rewrite <- Hm.
        apply elem_of_list_to_map_1; [exact Hnd|apply elem_of_list_In; exact Hin].
  Qed.

  (** replaying generate_requests on an empty instance: every request accepted,
      same configuration — for states without bucket sections *)
  Theorem replay_generate_partial s :
    Inv5 hc_valid s -> no_buckets s ->
    replay (generate_requests s) empty_state = (s, 0%nat).
  Proof.
    intros [Hhc Hfk] (Hb & Ht & Hu & Hc).
    unfold generate_requests, gen_listeners, gen_tfronts. rewrite Hb, Ht, Hu, Hc.
    rewrite !map_to_list_empty. cbn [flat_map app]. rewrite ?app_nil_r.
    destruct (section_order_free empty_state) as (HL & _ & _).
    rewrite replay_app, (HL LHttp (http_l s) _ eq_refl (reflexivity _)).
    set (s1 := set_l LHttp empty_state (http_l s)).
    destruct (section_order_free s1) as (HL1 & _ & _).
    rewrite replay_app, (HL1 LHttps (https_l s) _ eq_refl (reflexivity _)).
    set (s2 := set_l LHttps s1 (https_l s)).
    destruct (section_order_free s2) as (HL2 & _ & _).
    rewrite replay_app, (HL2 LTcp (tcp_l s) _ eq_refl (reflexivity _)).
    set (s3 := set_l LTcp s2 (tcp_l s)).
    destruct (section_order_free s3) as (HL3 & _ & _).
    rewrite replay_app, (HL3 LUdp (udp_l s) _ eq_refl (reflexivity _)).
    set (s4 := set_l LUdp s3 (udp_l s)).
    destruct (section_order_free s4) as (_ & HC & _).
    rewrite replay_app, (HC (clusters s) _ eq_refl (reflexivity _) (Hhc)).
    set (s5 := set_clusters s4 (clusters s)).
    destruct (section_order_free s5) as (_ & _ & HF).
    rewrite replay_app, (HF false (http_f s) _ eq_refl (reflexivity _) (Hfk false)).
    set (s6 := set_f false s5 (http_f s)).
    destruct (section_order_free s6) as (_ & _ & HF6).
    rewrite (HF6 true (https_f s) _ eq_refl (reflexivity _) (Hfk true)).
    cbn. destruct s; cbn in *; subst. reflexivity.
  Qed.
End replay_generate.
