From Coq Require Import List Arith NArith Lia Bool.
From SV Require Import C10.Gen C10.Model.
Import ListNotations.
Theorem count_nil : count (mkl (@nil nat) [] [] []) = 0.
Proof. reflexivity. Qed.
