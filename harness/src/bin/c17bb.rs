//! C17 black-box tier: a real worker with an HTTPS listener; certificates are
//! added / removed / replaced through the worker's command channel and every
//! `sni` op is a real TLS handshake (rustls client, any certificate accepted)
//! whose presented leaf certificate is identified by its SHA-256 fingerprint.
//!
//! Oracle: the certificate presented must be the one an in-process
//! `CertificateResolver` fed with the same operations resolves for that name
//! (and that one is held to the property by the c17 driver and the theorems);
//! when the resolver has none, the presented certificate must not be one of
//! the loaded ones (default certificate).
//!
//! Same case format as c17 (ops add / addbad / del / rep / repbad / sni).
#[path = "../h2bb.rs"]
mod h2bb;

use std::{
    net::{SocketAddr, TcpStream},
    sync::Arc,
    time::{Duration, Instant},
};

use rustls::{pki_types::ServerName, ClientConfig};
use sha2::{Digest, Sha256};
use sozu_command_lib::{
    certificate::Fingerprint,
    proto::command::{
        request::RequestType, ActivateListener, AddCertificate, CertificateAndKey, ListenerType, RemoveCertificate,
        ReplaceCertificate, ResponseStatus, SocketAddress,
    },
};
use sozu_lib::tls::CertificateResolver;
use verif_harness::*;

const POOL: usize = 10;

fn pool_dir() -> String {
    std::env::var("VERIF_CERTS").unwrap_or_else(|_| format!("{}/../corpus/certs/c17", env!("CARGO_MANIFEST_DIR")))
}
/// A port for this case's listener.  Sōzu binds its listeners with SO_REUSEPORT, so a port handed out by the kernel
/// (`bind(0)`, then closed) can be bound a second time by another worker of a concurrent black-box run, and the
/// kernel would then spread our connections over both.  Ports are therefore taken below the ephemeral range (no
/// `bind(0)` of anybody lands there), from a per-process sequence, and only when a plain bind succeeds (it fails
/// while any socket, SO_REUSEPORT or not, holds the port).
fn own_port() -> u16 {
    use std::sync::atomic::{AtomicU32, Ordering};
    static NEXT: AtomicU32 = AtomicU32::new(0);
    let pid = std::process::id();
    for _ in 0..2000 {
        let k = NEXT.fetch_add(1, Ordering::SeqCst);
        let port = 10000 + ((pid.wrapping_mul(131) + k.wrapping_mul(7)) % 20000) as u16;
        if let Ok(l) = std::net::TcpListener::bind(("127.0.0.1", port)) {
            drop(l);
            return port;
        }
    }
    h2bb::free_port()
}

fn s(b: &[u8]) -> String {
    String::from_utf8(b.to_vec()).expect("case strings are UTF-8")
}
fn hex(b: &[u8]) -> String {
    b.iter().map(|c| format!("{c:02x}")).collect()
}

fn cert_and_key(pool: &[(String, String)], idx: i128, ovn: bool, names: &[Vec<u8>]) -> CertificateAndKey {
    let (pem, key) = if idx >= 0 {
        pool[idx as usize].clone()
    } else {
        ("-----BEGIN CERTIFICATE-----\nnot base64 at all\n-----END CERTIFICATE-----\n".to_string(), pool[0].1.clone())
    };
    CertificateAndKey { certificate: pem, certificate_chain: vec![], key, versions: vec![], names: if ovn { names.iter().map(|n| s(n)).collect() } else { vec![] } }
}

/// send one request and wait for its final answer; true = Ok
fn roundtrip(w: &mut h2bb::WorkerHandle, r: RequestType) -> Option<bool> {
    w.send(r);
    let t0 = Instant::now();
    while t0.elapsed() < Duration::from_secs(10) {
        match w.channel.read_message() {
            Ok(resp) => {
                if resp.status == ResponseStatus::Processing as i32 {
                    continue;
                }
                return Some(resp.status == ResponseStatus::Ok as i32);
            }
            Err(_) => return None,
        }
    }
    None
}

/// SHA-256 of the leaf certificate the server presents for `name`
fn handshake(addr: SocketAddr, name: &str) -> Result<Vec<u8>, String> {
    let _ = rustls::crypto::ring::default_provider().install_default();
    let config = ClientConfig::builder().dangerous().with_custom_certificate_verifier(Arc::new(h2bb::Verifier)).with_no_client_auth();
    let sn = ServerName::try_from(name.to_owned()).map_err(|e| format!("server name: {e}"))?;
    let mut conn = rustls::ClientConnection::new(Arc::new(config), sn).map_err(|e| e.to_string())?;
    let mut tcp = TcpStream::connect(addr).map_err(|e| e.to_string())?;
    tcp.set_read_timeout(Some(Duration::from_secs(5))).ok();
    tcp.set_write_timeout(Some(Duration::from_secs(5))).ok();
    while conn.is_handshaking() {
        conn.complete_io(&mut tcp).map_err(|e| format!("handshake: {e}"))?;
    }
    let certs = conn.peer_certificates().ok_or("no peer certificate")?;
    Ok(Sha256::digest(certs[0].as_ref()).to_vec())
}

fn run_with(pool: &[(String, String)], case: &Case, out: &mut Out) {
    let mut w = h2bb::start_worker();
    let front: SocketAddr = format!("127.0.0.1:{}", own_port()).parse().unwrap();
    let fa: SocketAddress = front.into();
    if roundtrip(&mut w, RequestType::AddHttpsListener(h2bb::https_listener_config(front))) != Some(true)
        || roundtrip(&mut w, RequestType::ActivateListener(ActivateListener { address: fa.clone(), proxy: ListenerType::Https.into(), from_scm: false })) != Some(true)
    {
        out.note("invalid-case: the worker did not activate the HTTPS listener");
        return;
    }
    let mut shadow = CertificateResolver::default();
    let mut loaded: Vec<Vec<u8>> = vec![];
    for op in &case.ops {
        let a = &op.args;
        match op.name.as_str() {
            "idna" => out.obs(&[]),
            "add" | "addbad" => {
                let (idx, ovn, ove, exp, names): (i128, bool, bool, i128, Vec<Vec<u8>>) =
                    if op.name == "add" { (a[0].n(), a[1].n() == 1, a[2].n() == 1, a[4].n(), a[5..].iter().map(|t| t.b().to_vec()).collect()) } else { (-1, false, false, 0, vec![]) };
                let add = AddCertificate { address: fa.clone(), certificate: cert_and_key(pool, idx, ovn, &names), expired_at: if ove { Some(exp as i64) } else { None } };
                let exp_ok = shadow.add_certificate(&add).map(|f| {
                    if !loaded.contains(&f.0) {
                        loaded.push(f.0.clone())
                    }
                });
                let got = roundtrip(&mut w, RequestType::AddCertificate(add));
                out.obs(&[ts(if got == Some(true) { "ok" } else { "err" })]);
                if got != Some(exp_ok.is_ok()) {
                    out.viol("worker-answer", &format!("AddCertificate: worker answered {got:?}, the resolver {}", exp_ok.is_ok()));
                }
            }
            "del" => {
                let fp = a[0].b().to_vec();
                let _ = shadow.remove_certificate(&Fingerprint(fp.clone()));
                loaded.retain(|x| x != &fp);
                let got = roundtrip(&mut w, RequestType::RemoveCertificate(RemoveCertificate { address: fa.clone(), fingerprint: hex(&fp) }));
                out.obs(&[ts(if got == Some(true) { "ok" } else { "err" })]);
            }
            "rep" | "repbad" => {
                let bad = op.name == "repbad";
                let (idx, ovn, ove, exp, oldk, old, names): (i128, bool, bool, i128, bool, Vec<u8>, Vec<Vec<u8>>) = if bad {
                    (-1, false, false, 0, a[0].n() == 1, a[1].b().to_vec(), vec![])
                } else {
                    (a[0].n(), a[1].n() == 1, a[2].n() == 1, a[4].n(), a[5].n() == 1, a[6].b().to_vec(), a[7..].iter().map(|t| t.b().to_vec()).collect())
                };
                let rep = ReplaceCertificate {
                    address: fa.clone(),
                    new_certificate: cert_and_key(pool, idx, ovn, &names),
                    old_fingerprint: if oldk { hex(&old) } else { "not-a-fingerprint".to_string() },
                    new_expired_at: if ove { Some(exp as i64) } else { None },
                };
                let exp_ok = shadow.replace_certificate(&rep).map(|f| {
                    if !loaded.contains(&f.0) {
                        loaded.push(f.0.clone())
                    }
                });
                if exp_ok.is_ok() && oldk && shadow.get_certificate(&Fingerprint(old.clone())).is_none() {
                    loaded.retain(|x| x != &old);
                }
                let got = roundtrip(&mut w, RequestType::ReplaceCertificate(rep));
                out.obs(&[ts(if got == Some(true) { "ok" } else { "err" })]);
                if got != Some(exp_ok.is_ok()) {
                    out.viol("worker-answer", &format!("ReplaceCertificate: worker answered {got:?}, the resolver {}", exp_ok.is_ok()));
                }
            }
            "sni" => {
                let n = a[0].b();
                let name = s(n);
                if ServerName::try_from(name.clone()).is_err() || n.contains(&b'*') || name.parse::<std::net::IpAddr>().is_ok() {
                    out.obs(&[ts("skipped")]);
                    continue;
                }
                let expected = shadow.domain_lookup(n, true).map(|(_, f)| f.0.clone());
                match handshake(front, &name) {
                    Ok(fp) => {
                        out.obs(&[ts("fp"), tb(&fp)]);
                        match expected {
                            Some(e) if e != fp => out.viol(
                                "handshake-differs",
                                &format!("sni {name}: the handshake presented {} but the resolver holds {} for that name", &hex(&fp)[..8], &hex(&e)[..8]),
                            ),
                            None if loaded.contains(&fp) => out.viol(
                                "handshake-differs",
                                &format!("sni {name}: no loaded certificate covers the name, yet the handshake presented the loaded certificate {}", &hex(&fp)[..8]),
                            ),
                            _ => {}
                        }
                    }
                    Err(e) => {
                        out.obs(&[ts("nohandshake")]);
                        if expected.is_some() {
                            out.viol("handshake-failed", &format!("sni {name}: {e}"));
                        }
                    }
                }
            }
            other => panic!("unknown op {other}"),
        }
    }
    w.send(RequestType::HardStop(sozu_command_lib::proto::command::HardStop {}));
    let t0 = Instant::now();
    while w.alive() && t0.elapsed() < Duration::from_secs(5) {
        std::thread::sleep(Duration::from_millis(10));
    }
}

fn main() {
    let d = pool_dir();
    let pool: Vec<(String, String)> = (0..POOL)
        .map(|i| (std::fs::read_to_string(format!("{d}/c{i}.pem")).expect("pool cert"), std::fs::read_to_string(format!("{d}/k{i}.pem")).expect("pool key")))
        .collect();
    drive(move |c, o| run_with(&pool, c, o));
}
