"""C19 — UDP flows are sticky, isolated, bounded and torn down once."""
import os, re, sys
import vlib
from vlib import Case

ID = "C19"
COQ_DIRS = ["Common", "C19"]
COQ_TARGETS = ["C19/Props.vo", "C19/ShellProps.vo", "C19/Run.vo", "C19/ShellRun.vo"]
PROPS_MODULES = ["C19.Props", "C19.ShellProps"]
RUN_MODULE = "C19.Run"
RUN_FN = "run_case"
HARNESS_BIN = "c19"
HARNESS_BINS = ["c19", "c19e"]
SHRINK_KEEP = ("new",)
RULE = ("cases: random histories of the sans-io UdpManager over the simulator's alphabet (client datagram, backend "
        "datagram, resolution incl. stale/duplicate ids, SetCluster flipping the affinity mode and the per-flow knobs, "
        "SetMaxFlows incl. below the live count, SetMaxRx, Drain, clock advance + timeout, the shell's one-shot timer firing "
        "at or up to 50 ms before the armed deadline (op fire), abort, close_all) from small "
        "colliding pools: 4 client IPs (one V6) x 3 ports (incl. port 0, which collides with the 2-tuple key), 4 "
        "backends, payload sizes 0, 1, max_rx-1, max_rx, max_rx+1. Non-trivial and distinct: >=2 flows admitted, >=1 "
        "datagram forwarded to a backend, >=1 reply returned to a client and >=1 flow torn down; distinct by op text.")
ASSUMPTIONS = [
    "DefaultHasher (affinity hash) is an oracle: the theorems quantify over it; the driver recomputes hash(seed, affinity key) and the correspondence compares the equality pattern of the keys",
    "Instant + Duration does not overflow (time is an unbounded N in the model); V6 flowinfo/scope_id are 0",
    "the output queue is drained after every call (the queue is FIFO and append-only, so per-call drains concatenate to the same stream the shell sees)",
    "shell model (coq/C19/Shell.v): upstream_sockets / upstream_to_flow / flow_to_upstream / flow_started / upstream_write_queues are one list of socket records (they are written together by on_open_upstream and erased together by on_close_flow); registering a socket with mio succeeds; metrics and logs are not represented",
]
TRUSTED = ["black-box correspondence of the shell model: props/c19.py:shell_model_ops copies the backend index the implementation's load balancer picked into each send op; harness/src/bin/c19e.rs; coq/C19/ShellRun.v",
           "translator props/c19.py:translate compares the admission order, the cap comparison, the two-key close_flow lookup, reschedule's emit-on-change and the slab free-list discipline with lib/src/protocol/udp/manager.rs and slab's lib.rs"]


def _src(path):
    return open(os.path.join(vlib.REPO, path)).read()


def _strip_comments(src):
    """Rust source without // and /* */ comments (string literals in the files read contain no comment marks)"""
    src = re.sub(r"/\*.*?\*/", "", src, flags=re.S)
    src = re.sub(r"//[^\n]*", "", src)
    # debug assertions restate (often negated) the very comparisons that are read: drop the macro calls
    out, i = [], 0
    for mm in re.finditer(r"\b(?:debug_assert(?:_eq|_ne)?|assert(?:_eq|_ne)?)!\s*\(", src):
        if mm.start() < i:
            continue
        depth, j = 1, mm.end()
        while j < len(src) and depth:
            depth += {"(": 1, ")": -1}.get(src[j], 0)
            j += 1
        out.append(src[i:mm.start()])
        i = j
    out.append(src[i:])
    return "".join(out)


def _fn_body(src, name):
    """text of `fn <name>(...) ... { body }` (brace matched), or None"""
    m = re.search(r"\bfn\s+%s\s*(<[^>]*>)?\s*\(" % re.escape(name), src)
    if not m:
        return None
    i = src.find("{", m.end())
    if i < 0:
        return None
    depth, j = 0, i
    while j < len(src):
        if src[j] == "{":
            depth += 1
        elif src[j] == "}":
            depth -= 1
            if depth == 0:
                return src[i + 1:j]
        j += 1
    return None


def _with_helpers(src, body, depth=2):
    """the body plus the bodies of the private helpers it calls (`self.name(` / `Self::name(` / `name(`), followed
    `depth` levels: a few lines moved into a helper read the same"""
    out, seen, frontier = body or "", set(), [body or ""]
    for _ in range(depth):
        nxt = []
        for b in frontier:
            for name in set(re.findall(r"(?:self\.|Self::|\b)([a-z_][a-z0-9_]*)\s*\(", b)):
                if name in seen:
                    continue
                seen.add(name)
                hb = _fn_body(src, name)
                if hb is not None and len(hb) < 4000:
                    out += "\n" + hb
                    nxt.append(hb)
        frontier = nxt
    return out


def _const(src, name):
    m = re.search(r"\bconst\s+%s\s*:\s*[\w:<>]+\s*=\s*([^;]+);" % re.escape(name), src)
    return m.group(1).strip() if m else None


def _cmp(body, left, right):
    """the comparison operator between something matching `left` and something matching `right`, normalised to
    `left OP right`; also through one `let x = <left>;` binding. None when no such comparison is found."""
    flip = {"<": ">", ">": "<", "<=": ">=", ">=": "<=", "==": "==", "!=": "!="}
    lefts = [left] + [re.escape(v) for v in re.findall(r"let\s+(?:mut\s+)?(\w+)\s*(?::[^=]+)?=\s*(?:%s)\s*;" % left, body)]
    rights = [right] + [re.escape(v) for v in re.findall(r"let\s+(?:mut\s+)?(\w+)\s*(?::[^=]+)?=\s*(?:%s)\s*;" % right, body)]
    neg = {"<": ">=", ">": "<=", "<=": ">", ">=": "<", "==": "!=", "!=": "=="}
    for l in lefts:
        for r in rights:
            m = re.search(r"(!\s*\(\s*)?(?:%s)\s*(<=|>=|==|!=|<|>)\s*(?:%s)" % (l, r), body)
            if m:
                return neg[m.group(2)] if m.group(1) else m.group(2)
            m = re.search(r"(!\s*\(\s*)?(?:%s)\s*(<=|>=|==|!=|<|>)\s*(?:%s)" % (r, l), body)
            if m:
                return neg[flip[m.group(2)]] if m.group(1) else flip[m.group(2)]
    return None


def translate():
    """The shapes the model hard-codes must still be the source's.  Every fact is READ (operator, operand, order of
    the checks), tolerant of renamed locals, `let` bindings, private helpers, flipped comparisons and named
    constants; a recognised construct with another value is a hard failure, a construct that is no longer
    recognised is `unreadable:` (see TRANSLATE_FALLBACK)."""
    fails = []
    un = lambda msg: fails.append("unreadable: " + msg)
    m = _strip_comments(_src("lib/src/protocol/udp/manager.rs"))
    f = _strip_comments(_src("lib/src/protocol/udp/flow.rs"))
    md = _strip_comments(_src("lib/src/protocol/udp/mod.rs"))
    FIELD = r"(?:self\.)?[\w.]*"
    # 1. on_client_datagram: order of the admission checks and of what an admission pushes
    raw = _fn_body(m, "on_client_datagram") or ""
    body = _with_helpers(m, raw)
    steps = [("oversize check", r"max_rx\w*"), ("no-cluster check", r"cluster\w*(?:\.\w+)*\.is_empty\(\)|NoBackend"),
             ("key extraction", r"flow_key\s*\("), ("table lookup", r"table\w*\.get\("),
             ("drain check", r"\bdraining\b"), ("cap check", r"max_flows"),
             ("flow construction", r"UdpFlow::new\s*\("), ("slab insert", r"flows\w*\.insert\("),
             ("table insert", r"table\w*\.insert\("), ("FlowCreated", r"FlowCreated"), ("SelectBackend", r"SelectBackend")]
    pos = []
    for (what, pat) in steps:
        mm = re.search(pat, raw)
        if mm:
            pos.append((mm.start(), what))      # steps still written in the function itself: their order is read
        elif not re.search(pat, body):
            un("manager.rs on_client_datagram: the %s was not found (model: oversize, no cluster, invalid, tracked flow, "
               "draining, cap, admit: FlowCreated then SelectBackend)" % what)
            break
    if [p_ for p_, _ in pos] != sorted(p_ for p_, _ in pos):
        bad = [pos[i][1] for i in range(1, len(pos)) if pos[i][0] < pos[i - 1][0]]
        fails.append("manager.rs on_client_datagram: the admission steps are no longer in the model's order (%s moved up)" % ", ".join(bad))
    op = _cmp(body, r"%s\.len\(\)" % r"(?:self\.)?flows\w*", r"(?:self\.)?max_flows\w*")
    if op is None:
        un("manager.rs on_client_datagram: the comparison of the live count with max_flows was not found (model: shed when live >= max_flows)")
    elif op != ">=":
        fails.append("manager.rs on_client_datagram: sheds when flows.len() %s max_flows (model: >=)" % op)
    op = _cmp(body, r"\w+\.len\(\)", r"(?:self\.)?max_rx\w*")
    if op is None:
        un("manager.rs on_client_datagram: the oversize test was not found (model: drop when payload.len() > max_rx_datagram_size)")
    elif op != ">":
        fails.append("manager.rs on_client_datagram: drops when payload.len() %s max_rx_datagram_size (model: >)" % op)
    # 2. reschedule: emit ArmTimer only when the minimum changed and is Some.  The armed deadline is the manager's
    #    one `Option<Instant>` field, whatever it is called.
    st = re.search(r"pub struct UdpManager[^{]*\{(.*?)\n\}", m, flags=re.S)
    am = st and re.search(r"(\w+)\s*:\s*Option<\s*Instant\s*>", st.group(1))
    armed = re.escape(am.group(1)) if am else "armed_deadline"
    body = _with_helpers(m, _fn_body(m, "reschedule"))
    if not (body and "ArmTimer" in body and re.search(armed, body)
            and (_cmp(body, r"\w+", r"(?:self\.)?%s" % armed) in ("!=", "==") or re.search(r"%s\s*(?:!=|==)" % armed, body))):
        un("manager.rs reschedule: 'compare the new minimum with the armed deadline, store it, push ArmTimer when it is Some' was not recognised")
    # 3. handle_timeout: due when idle_deadline <= now; forget the armed deadline before the final reschedule
    raw = _fn_body(m, "handle_timeout")
    body = _with_helpers(m, raw)
    op = _cmp(body, r"\w+\.idle_deadline", r"\bnow\b")
    if op is None:
        un("manager.rs handle_timeout: the due test was not found (model: a flow is due when idle_deadline <= now)")
    elif op != "<=":
        fails.append("manager.rs handle_timeout: a flow is due when idle_deadline %s now (model: <=)" % op)
    forget = raw and re.search(r"%s\s*=\s*(?:Option::)?None|%s\.take\(\)" % (armed, armed), body)
    if not forget:
        un("manager.rs handle_timeout: the armed deadline is no longer visibly forgotten before the final reschedule "
           "(model: every firing re-emits ArmTimer while a flow remains)")
    elif not re.search(r"reschedule\w*\s*\(", body[forget.end():]):
        fails.append("manager.rs handle_timeout: nothing reschedules after the armed deadline is forgotten")
    # 4. the extractor rejects an empty datagram
    body = _with_helpers(m, _fn_body(m, "flow_key"))
    if not (body and re.search(r"is_empty\(\)|\.len\(\)\s*==\s*0|\[\s*\]", body)):
        un("manager.rs SourceTupleExtractor::flow_key: the empty-payload rejection was not found")
    # 5. FlowKey::from_src: 2-tuple key = source with port 0
    body = _with_helpers(md, _fn_body(md, "from_src"))
    mm = body and (re.search(r"set_port\(\s*(\w+)\s*\)", body) or re.search(r"SocketAddr::new\([^,]+,\s*(\w+)\s*\)", body))
    if not mm:
        un("mod.rs FlowKey::from_src: the port normalisation was not found (model: port 0 when keying on the source IP)")
    else:
        v = mm.group(1)
        v = _const(md, v) if not v.isdigit() and _const(md, v) else v
        if v.isdigit() and v != "0":
            fails.append("mod.rs FlowKey::from_src: the 2-tuple key sets the port to %s (model: 0)" % v)
        elif not v.isdigit():
            un("mod.rs FlowKey::from_src: the normalised port %r is not a literal or a constant of the file" % v)
    # 6. the two caps: (knob != 0) && (seen >= knob)
    for (fn, seen, knob) in (("requests_exhausted", "requests_seen", "requests"), ("responses_exhausted", "responses_seen", "responses")):
        body = _with_helpers(f, _fn_body(f, fn))
        op = body and _cmp(body, r"(?:self\.)?%s" % seen, r"(?:self\.)?(?:config\.)?%s\b" % knob)
        zero = body and (_cmp(body, r"(?:self\.)?(?:config\.)?%s\b" % knob, r"0") or ("unlimited" in body and "!"))
        if not body or op is None or not zero:
            un("flow.rs %s: '%s != 0 && %s >= %s' was not recognised" % (fn, knob, seen, knob))
        elif op != ">=" or not (zero in ("!=", ">", "!") or (zero == "==" and re.search(r"==\s*0\s*\{\s*return\s+false", body))):
            fails.append("flow.rs %s: exhausted when %s %s %s and knob %s 0 (model: >= and != 0)" % (fn, seen, op, knob, zero))
    # 7. UdpFlow::new arms the front timeout
    body = _with_helpers(f, _fn_body(f, "new"))
    mm = body and re.search(r"now\s*\+\s*[\w.]*?(front|back)_timeout|[\w.]*?(front|back)_timeout\s*\+\s*now", body)
    if not mm:
        un("flow.rs UdpFlow::new: the initial idle deadline was not found (model: now + front_timeout)")
    elif (mm.group(1) or mm.group(2)) != "front":
        fails.append("flow.rs UdpFlow::new: the initial idle deadline uses the back timeout (model: now + front_timeout)")
    # ---- the shell side of the contracts the shell theorems rely on (lib/src/udp.rs)
    sh = _strip_comments(_src("lib/src/udp.rs"))
    body = _with_helpers(sh, _fn_body(sh, "timeout"), depth=1)
    a, b2 = (re.search(r"handle_timeout\s*\(", body or ""), re.search(r"drain_outputs\s*\(", body or ""))
    if not a or not b2:
        un("udp.rs timeout(): handle_timeout(..) followed by drain_outputs(..) was not recognised (the re-emitted ArmTimer must reach arm_timer)")
    elif b2.start() < a.start() and not re.search(r"drain_outputs\s*\(", body[a.end():]):
        fails.append("udp.rs timeout(): the outputs are drained before handle_timeout and not after it")
    body = _with_helpers(sh, _fn_body(sh, "arm_timer"), depth=1)
    if not (body and re.search(r"set_timeout\s*\(", body)):
        un("udp.rs arm_timer: setting the one-shot timer (set_timeout) was not recognised (observed by the idle_reaper scenario)")
    elif not re.search(r"cancel_timeout\s*\(", body):
        fails.append("udp.rs arm_timer: the previous one-shot timer is no longer cancelled before a new one is set (nothing observes the leaked timer entries)")
    # the shadow flow table is `name: HashMap<SocketAddr, FlowId>`; on_close_flow must try both affinity keys (fix d875ae5).
    # NOT observable on a release build (only the debug assertion / a leaked entry): stays a hard fact, read by meaning.
    shadow = re.search(r"(\w+)\s*:\s*HashMap<\s*SocketAddr\s*,\s*FlowId\s*>", sh)
    body = _with_helpers(sh, _fn_body(sh, "on_close_flow"), depth=2)
    if not shadow or not body:
        fails.append("udp.rs: the shadow flow table (HashMap<SocketAddr, FlowId>) or on_close_flow was not found: cannot see that "
                     "a closing flow's entry is dropped under both affinity modes (fix d875ae5)")
    else:
        name = re.escape(shadow.group(1))
        removes = len(re.findall(r"%s\s*\.\s*remove\s*\(" % name, body))
        if not (removes >= 2 or re.search(r"%s\s*\.\s*retain\s*\(" % name, body)
                or (removes >= 1 and re.search(r"\bfor\b[^{]*\[[^\]]*\]|\bfor\b[^{]*\bin\b", body))):
            fails.append("udp.rs on_close_flow: the shadow flow-table entry is no longer dropped under both affinity modes (fix d875ae5)")
    # recv_buf is one byte larger than max_rx at BOTH sites that size it (constructor and resize_recv_buf): a site that
    # is found but does not add the byte is a hard failure; `unreadable:` only when a site cannot be located at all
    plus1 = r"saturating_add\(\s*1\s*\)|\w+\s*\+\s*1\b|\b1\s*\+\s*\w+|checked_add\(\s*1\s*\)"
    ctor = "\n".join(re.findall(r"recv_buf\s*:[^\n]*", sh))
    for (site, text) in (("UdpListenerSession::new (recv_buf: ...)", ctor), ("resize_recv_buf", _fn_body(sh, "resize_recv_buf"))):
        if not text or not text.strip():
            un("udp.rs: %s was not found (model/oracle: the receive buffer is max_rx + 1 bytes so an oversized datagram stays recognisable)" % site)
        elif not re.search(plus1, _with_helpers(sh, text, depth=1)):
            fails.append("udp.rs: %s sizes the receive buffer without the extra byte (max_rx + 1): an oversized datagram would be "
                         "forwarded cut to max_rx bytes instead of dropped" % site)
    # ---- slab free-list discipline (third-party crate, pinned by Cargo.lock)
    import glob
    cands = sorted(glob.glob(os.path.expanduser("~/.cargo/registry/src/*/slab-0.4.*/src/lib.rs")))
    lock = _src("Cargo.lock")
    mv = re.search(r'name = "slab"\nversion = "([^"]+)"', lock)
    if not mv or not mv.group(1).startswith("0.4."):
        fails.append("Cargo.lock: slab is no longer 0.4.x (Common/Slab.v models 0.4.12)")
    else:
        p = [c for c in cands if "slab-%s/" % mv.group(1) in c]
        if p:
            s = open(p[0]).read()
            if not re.search(r"let key = self\.next;\s*self\.insert_at\(key, val\);", s) or \
               not re.search(r"core::mem::replace\(entry, Entry::Vacant\(self\.next\)\)", s) or \
               not re.search(r"self\.next = key;", s):
                un("slab: insert/try_remove were not recognised as the free-list discipline of Common/Slab.v")
    return fails


TRANSLATE_FALLBACK = ("every fact read from manager.rs / flow.rs / mod.rs (order of the admission checks, >= at the cap, > at "
                      "max_rx, <= at the idle deadline, re-arm after a firing, empty-payload rejection, port 0 in the 2-tuple "
                      "key, the two cap predicates, the initial front deadline, the slab free list) determines the output "
                      "stream, FlowIds and flow dumps of the real UdpManager, which the driver prints after EVERY call and "
                      "the correspondence check compares with the model on histories drawn at exactly those boundaries "
                      "(payload sizes max_rx-1/max_rx/max_rx+1, caps 0..6 with shrinks below the live count, clock steps "
                      "at deadline-1/deadline/deadline+1, op fire, empty payloads, both affinity modes with port 0); the "
                      "shell facts (timeout -> handle_timeout -> drain_outputs, arm_timer, recv_buf = max_rx+1) determine "
                      "what the black-box corpus observes on every run (idle_reaper, oversize_boundary, resize_then_oversize); "
                      "facts nothing observes on a release build (both-keys removal in on_close_flow, cancelling the "
                      "previous timer, a located receive-buffer site without the extra byte) are never soft")


# ---------------------------------------------------------------------------

IPS = [bytes([10, 0, 0, 1]), bytes([10, 0, 0, 2]), bytes([10, 0, 0, 3]), bytes([0x20, 0x01, 0x0d, 0xb8] + [0] * 11 + [1])]
PORTS = [9000, 9001, 0]
BACKENDS = [(b"b0", bytes([127, 0, 0, 1]), 5300), (b"b1", bytes([127, 0, 0, 1]), 5301),
            (b"b2", bytes([127, 0, 0, 2]), 5300), (b"b6", bytes([0] * 15 + [1]), 5306)]
CLUSTERS = [b"c0", b"c1"]


def rcfg(rng, allow_empty=True, wp=None):
    cl = b"" if (allow_empty and rng.random() < 0.06) else rng.choice(CLUSTERS)
    to = lambda: rng.choice([0, 1, 50, 100, 100, 300, 1000, 3000, rng.randint(1, 4000)])
    return [cl, int(rng.random() < 0.5) if wp is None else wp,
            0 if rng.random() < 0.6 else rng.randint(1, 3),
            0 if rng.random() < 0.6 else rng.randint(1, 5),
            to(), to(), int(rng.random() < 0.35), int(rng.random() < 0.5)]


def payload(rng, max_rx):
    r = rng.random()
    if r < 0.05:
        n = 0
    elif r < 0.15:
        n = 1
    elif r < 0.45:
        n = rng.choice([max_rx - 1, max_rx, max_rx])
    elif r < 0.55:
        n = rng.choice([max_rx + 1, max_rx + 2, 2 * max_rx + 1])
    else:
        n = rng.randint(1, max(1, min(max_rx, 24)))
    n = max(0, min(n, 1600))
    # distinct, recognisable contents: a counter prefix keeps datagrams distinguishable
    return bytes(rng.randrange(256) for _ in range(n))


def history_case(rng, cid, nops):
    max_rx = rng.choice([4, 8, 16, 64, 1500])
    max_flows = rng.choice([0, 1, 2, 2, 2, 3, 3, 3, 4, 4, 6])
    ops = [["new"] + rcfg(rng, allow_empty=False) + [max_flows, max_rx, rng.getrandbits(63)]]
    ips = rng.sample(IPS, rng.choice([2, 3, 4]))
    ports = rng.sample(PORTS, rng.choice([1, 2, 3]))
    cap = [max_flows]
    ids = lambda: rng.randrange(0, max(1, cap[0])) if rng.random() < 0.8 else rng.choice([0, 1, 2, 3, 4, 5, 6, 7, 40])
    for step in range(nops):
        r = rng.random() * 100
        if r >= 96 and step < nops // 2:
            r = rng.random() * 96          # drain / close_all / dump only in the second half
        if r < 34:
            ops.append(["cd", rng.choice(ips), rng.choice(ports), payload(rng, max_rx)])
            rr = rng.random()
            if rr < 0.45:
                b = rng.choice(BACKENDS)
                ops.append(["resnew", b[0], b[1], b[2]])       # what the shell does: resolve at once
            elif rr < 0.6:
                b = rng.choice(BACKENDS)
                ops.append(["res", ids(), b[0], b[1], b[2]])
        elif r < 46:
            b = rng.choice(BACKENDS)
            ops.append(["res", ids(), b[0], b[1], b[2]])
        elif r < 49:
            for i in range(rng.randint(2, 5)):       # resolve everything that may be waiting; mostly stale/duplicate
                b = rng.choice(BACKENDS)
                ops.append(["res", i, b[0], b[1], b[2]])
        elif r < 64:
            ops.append(["bd", ids(), payload(rng, max_rx)])
        elif r < 76:
            ops.append(["tick", rng.choice([0, 1, 49, 50, 51, 99, 100, 101, 300, 1000, 3000, rng.randint(1, 5000)])])
            ops.append(["timeout"])
        elif r < 77:
            ops.append(["timeout"])
        elif r < 79:
            ops.append(["fire", rng.choice([0, 0, 1, 49, 50])])
        elif r < 85:
            ops.append(["setc"] + rcfg(rng))
        elif r < 90:
            n = rng.choice([0, 1, 1, 2, 3, 4, 8])
            cap[0] = max(cap[0], n)
            ops.append(["setmax", n])
        elif r < 94:
            ops.append(["abort", ids()])
        elif r < 96:
            max_rx = rng.choice([4, 8, 16, 64])
            ops.append(["setrx", max_rx])
        elif r < 97.5:
            ops.append(["drain"])
        elif r < 98.5:
            ops.append(["closeall"])
        else:
            ops.append(["dump"])
    ops.append(["dump"])
    if rng.random() < 0.5:
        ops += [["tick", 10000], ["timeout"], ["closeall"], ["dump"]]
    return Case(cid, ops)


def steady_case(rng, cid):
    """long-lived flows, unlimited knobs: forwarding in both directions, cap pressure, affinity flips"""
    max_rx = rng.choice([8, 64])
    wp = rng.randint(0, 1)
    cfg = [rng.choice(CLUSTERS), wp, 0, 0, 5000, 5000, int(rng.random() < 0.4), int(rng.random() < 0.5)]
    cap = rng.choice([2, 3, 4])
    ops = [["new"] + cfg + [cap, max_rx, rng.getrandbits(63)]]
    nxt = 0
    for _ in range(rng.randint(20, 60)):
        r = rng.random()
        if r < 0.5:
            ops.append(["cd", rng.choice(IPS), rng.choice(PORTS[:2]), payload(rng, max_rx)])
            b = rng.choice(BACKENDS)
            if rng.random() < 0.7:
                ops.append(["resnew", b[0], b[1], b[2]])
            else:
                ops.append(["res", nxt % (cap + 1), b[0], b[1], b[2]])
            nxt += 1
        elif r < 0.8:
            ops.append(["bd", rng.randint(0, cap), payload(rng, max_rx)])
        elif r < 0.86:
            ops.append(["setmax", rng.choice([0, 1, cap, cap + 2])])
        elif r < 0.92:
            c2 = list(cfg)
            c2[1] = 1 - c2[1] if rng.random() < 0.7 else c2[1]
            c2[6] = int(rng.random() < 0.4)
            cfg = c2
            ops.append(["setc"] + c2)
        elif r < 0.94:
            ops += [["tick", rng.choice([100, 2500, 4999, 5000, 5001])], ["timeout"]]
        elif r < 0.96:
            ops.append(["fire", rng.choice([0, 1, 50])])
        else:
            ops.append(["abort", rng.randint(0, cap)])
    ops.append(["dump"])
    return Case(cid, ops)


def wq_case(rng, cid):
    """the shell's WriteQueue (lib/src/udp.rs) through the cfg(sozu_verif) hook: pushes up to and beyond the
    cap, drains under scripted send outcomes (0 sent, 1 would block, 2 hard error)"""
    cap = rng.choice([0, 1, 2, 3, 4, 64])
    ops = [["wq_new", cap]]
    n = 0
    for _ in range(rng.randint(4, 30)):
        if rng.random() < 0.6:
            n += 1
            ops.append(["wq_push", rng.choice(IPS), rng.choice(PORTS), bytes([n % 256]) + bytes(rng.randrange(256) for _ in range(rng.randint(0, 3)))])
        else:
            ops.append(["wq_drain", bytes(rng.choice([0, 0, 0, 1, 2]) for _ in range(rng.randint(0, 6)))])
    ops.append(["wq_drain", b""])
    return Case(cid, ops)


def gen_cases(rng, tier):
    n = {"quick": 3000, "thorough": 60000, "search": 20000}.get(tier, 3000)
    out = []
    for i in range(n):
        if i % 20 == 19:
            out.append(wq_case(rng, "w%d" % i))
        elif i % 4 == 3:
            out.append(steady_case(rng, "s%d" % i))
        else:
            out.append(history_case(rng, "h%d" % i, rng.choice([10, 25, 40, 80])))
    return out


def corpus_cases():
    d = os.path.join(vlib.ROOT, "corpus", ID)
    out = []
    if os.path.isdir(d):
        for f in sorted(os.listdir(d)):
            if f.endswith(".case"):
                for c in vlib.parse_cases(open(os.path.join(d, f)).read()):
                    c.id = "k" + c.id
                    out.append(c)
    return out


def nontrivial(case, o):
    flat = [t for ob in o["obs"] for t in ob]
    cnt = lambda w: sum(1 for t in flat if t == w)
    return cnt("mcreated") >= 2 and cnt("tob") >= 1 and cnt("toc") >= 1 and cnt("close") >= 1


def e2e_case(rng, cid):
    """one black-box scenario for harness/src/bin/c19e.rs: a real worker thread, loopback sockets"""
    wp = rng.randint(0, 1)
    responses = rng.choice([0, 0, 0, 1, 2])
    requests = rng.choice([0, 0, 0, 1, 3])
    pp = rng.randint(0, 1)
    max_flows = rng.choice([0, 1, 2, 3])
    nb = rng.choice([1, 2, 3])
    ops = [["setup", wp, responses, requests, pp, max_flows, nb, 30, rng.randint(0, 1), int(rng.random() < 0.2)]]
    count = {}
    flips = rng.random() < 0.3
    removed_backend = None
    has_front = True
    for _ in range(rng.randint(5, 14)):
        if rng.random() < 0.03:
            ops.append(["bounce"])            # DeactivateListener + ActivateListener under live flows
        if rng.random() < 0.04:
            ops.append(["updlistener", rng.choice([8, 64, 100, 1500])])   # resized receive buffer: oversized stays dropped
        if rng.random() < 0.05:               # UpdateUdpListener: the cap (0 = auto) and / or an rx size above buffer_size
            ops.append(["updlistener", rng.choice([-1, -1, 64, 1500, 20000]), -1, -1, rng.choice([-1, 0, 1, 2, 3, 4])])
        if rng.random() < 0.07:               # RemoveUdpFrontend / AddUdpFrontend under live flows
            ops.append(["rmfront" if has_front else "addfront"])
            has_front = not has_front
        if rng.random() < 0.04 and not (responses or requests or pp):
            ops.append(["rmcluster"])         # RemoveCluster: unrouted until an AddCluster / AddUdpFrontend / listener patch
            wp = 0
        if rng.random() < 0.04 and not (responses or requests or pp):
            ops.append(["recluster_noudp"])   # AddCluster without a udp block: back to SOURCE_IP, no caps
            wp = 0
        if rng.random() < 0.05:
            ops.append(["addbackend"])        # the backend set changes under live flows: they must stay where they are
            nb += 1
        elif rng.random() < 0.04 and nb > 1 and removed_backend is None:
            removed_backend = rng.randrange(nb)
            ops.append(["rmbackend", removed_backend])
        if flips and rng.random() < 0.2:
            wp = 1 - wp
            ops.append(["recluster", wp])     # cluster update flipping the affinity key under live flows
        ci = rng.randrange(0, 6)
        count[ci] = count.get(ci, 0) + 1
        tag = ("c%d-%d" % (ci, count[ci])).encode()
        total = rng.choice([len(tag), len(tag) + 1, len(tag) + 8, 100, 100, 1500, 1501, 1600])
        ops.append(["send", ci, tag + bytes(rng.randrange(256) for _ in range(total - len(tag)))])
    if rng.random() < 0.12:       # RemoveListener under live flows: nothing is forwarded afterwards
        ops.append(["remove"])
        for _ in range(rng.randint(1, 2)):
            ci = rng.randrange(0, 6)
            ops.append(["send", ci, ("r%d" % ci).encode()])
    return Case(cid, ops)


def shell_model_ops(c, o):
    """ops for the shell model: the scenario, plus the backend the implementation's load balancer picked"""
    ops = []
    for op, ob in zip(c.ops, o["obs"]):
        if op[0] == "send":
            bi = ob[3] if len(ob) >= 4 and isinstance(ob[3], int) and ob[3] >= 0 else 0
            ops.append(["send", op[1], op[2], bi])
        else:
            ops.append(op)
    return ops


def e2e_corpus():
    d = os.path.join(vlib.ROOT, "corpus", ID, "e2e")
    out = []
    if os.path.isdir(d):
        for f in sorted(os.listdir(d)):
            if f.endswith(".case"):
                out += vlib.parse_cases(open(os.path.join(d, f)).read())
    return out


def extra_stage(tier, rng, work):
    """The socket shell (lib/src/udp.rs) end to end: a real worker thread, loopback sockets. A small batch in
    the quick tier, a larger one in the thorough tier, where the hand-written scenarios (idle reaper: hung about
    every other run before fix 8526f1a; affinity flips under live flows: aborted debug builds before fix d875ae5)
    also run on the build with debug assertions."""
    replay = sys.argv[sys.argv.index("--replay") + 1] if "--replay" in sys.argv[:-1] else None
    if replay:
        # ./check C19 --replay <file>: black-box scenarios (first op `setup`) are replayed here
        cases = [c for c in vlib.parse_cases(open(replay).read()) if c.ops and c.ops[0][0] == "setup"]
        if not cases:
            return dict(coverage=dict(e2e_cases=0))
    else:
        cases = e2e_corpus() + [e2e_case(rng, "e%d" % i) for i in range(120 if tier == "thorough" else 12)]
    if tier == "thorough" and os.path.exists(vlib.harness_path("c19e", "checked")):
        couts, _ = vlib.run_harness("c19e", e2e_corpus(), os.path.join(work, "e2e_checked"), "checked", timeout=600, shards=3)
    else:
        couts = {}
    outs, problems = vlib.run_harness("c19e", cases, os.path.join(work, "e2e"), "release", timeout=1200, shards=8)
    # real sockets and real time: a scenario that fails is run a second time, alone, and only
    # counts if it fails again (the deterministic twin of the timer scenarios is op `fire` in-process)
    KNOWN_OPEN = ("e2e-reactivated-listener-dead",)    # deterministic, listed in known_findings.json: not worth a retry
    suspects = [c for c in cases if outs.get(c.id) is None or outs[c.id]["panic"] is not None
                or any(v[0] not in KNOWN_OPEN for v in outs[c.id]["viol"])]
    retried = len(suspects)
    os.environ["C19E_RT_MS"] = "20000"      # the second run waits five times longer for every expected delivery
    try:
        for c in suspects:
            o2, p2 = vlib.run_harness("c19e", [c], os.path.join(work, "e2e_retry"), "release", timeout=600, shards=1)
            if c.id in o2 and not o2[c.id]["viol"] and o2[c.id]["panic"] is None:
                outs[c.id] = o2[c.id]
    finally:
        del os.environ["C19E_RT_MS"]
    viols, failures = [], list(problems)
    delivered = 0
    for c in cases:
        o = outs.get(c.id)
        if o is None:
            failures.append("e2e case %s produced no output" % c.id)
            continue
        if o["panic"] is not None:
            viols.append((c, "panic", o["panic"]))
        for (vc, vt) in o["viol"]:
            viols.append((c, vc, vt))
        delivered += sum(1 for ob in o["obs"] if len(ob) >= 4 and ob[0] == "send" and ob[2] == 1)
    for c in e2e_corpus():
        o = couts.get(c.id)
        if o is not None and (any(v[0] not in KNOWN_OPEN for v in o["viol"]) or o["panic"] is not None):
            # debug assertions on: confirm once more before reporting
            o2, _ = vlib.run_harness("c19e", [c], os.path.join(work, "e2e_retry"), "checked", timeout=300, shards=1)
            o2 = o2.get(c.id)
            if o2 is not None and (any(v[0] not in KNOWN_OPEN for v in o2["viol"]) or o2["panic"] is not None):
                for (vc, vt) in [v for v in o2["viol"] if v[0] not in KNOWN_OPEN][:1] or [("panic", o2["panic"] or "")]:
                    viols.append((c, "panic-checked", "debug build: " + vt))
    # the shell MODEL (coq/C19/Shell.v) against the real shell: same scenarios, the load balancer's
    # choice copied from the observation, everything else predicted (ShellRun.v)
    mism = []
    modelled = [c for c in cases if c.id in outs and not outs[c.id]["viol"] and outs[c.id]["panic"] is None]
    if modelled:
        mism, mprob = vlib.correspond(modelled, outs, "C19.ShellRun", "run_shell_case", os.path.join(work, "e2e_model"),
                                      ops_of=shell_model_ops)
        failures += mprob
        if mism:      # real time, real ports: confirm on a second, solitary run
            again = [c for c in modelled if c.id in mism]
            o2, _ = vlib.run_harness("c19e", again, os.path.join(work, "e2e_retry"), "release", timeout=600, shards=1)
            again = [c for c in again if c.id in o2]
            mism, mprob = vlib.correspond(again, o2, "C19.ShellRun", "run_shell_case", os.path.join(work, "e2e_model"),
                                          ops_of=shell_model_ops)
            for cid in mism[:3]:
                failures.append("shell model C19.ShellRun.run_shell_case differs from lib/src/udp.rs on e2e scenario %s: impl obs %s"
                                % (cid, o2[cid]["obs"]))
    return dict(failures=failures, viols=viols, coverage=dict(shell_model_scenarios=len(modelled), shell_model_agree=len(modelled) - len(mism), e2e_cases=len(cases), e2e_datagrams_delivered=delivered, e2e_retried=retried))


LEVEL_TEXT = ("Machine-checked proof (Coq 8.16) over executable models of (1) the sans-io UDP flow core (UdpManager + UdpFlow "
              "+ exact slab free list): the manager's invariants as an inductive invariant over every input history, "
              "stickiness, isolation (replies to the creating client; forwarding exact, in order, never duplicated), the "
              "admission bound, exactly-once teardown and the one-shot-timer contract as theorems over all histories; and "
              "(2) the socket shell around it (lib/src/udp.rs drain_outputs and its handlers, shadow flow table, per-flow "
              "upstream sockets, write queues, timer, close_all_flows) composed with the manager: drain_outputs always "
              "terminates, upstream sockets opened = closed + open under every handler, at rest every socket belongs to a "
              "live established flow of the incarnation it was opened for and is connected to that flow's backend, a routed "
              "source's datagrams can only be written to its own flow's socket, NAT "
              "return reaches only that incarnation's client, close_all_flows leaks no socket, write queues never "
              "duplicate or reorder; and (3) the routing lifecycle of a listener (AddUdpFrontend / RemoveUdpFrontend / "
              "AddCluster / RemoveCluster / UpdateUdpListener, coq/C19/Routing.v): which configuration, cap and rx size "
              "each request commits into the manager, an unrouted listener forwards nothing, cluster and frontend "
              "commute, a listener patch spares live flows. Both models are tied to /repo on every run: source translator, differential run of "
              "the real UdpManager and WriteQueue against the extracted core model, and the black-box scenarios (real "
              "worker thread, loopback sockets) replayed through the extracted shell model; the property's own oracles are "
              "evaluated on the implementation in both tiers.")
LEVEL_NOTE = ("Trusted: Coq kernel; extraction (ExtrOcamlBasic) and ocaml/driver.ml for the correspondence only; the "
              "affinity hash, the load balancer's choice, connect() and per-send outcomes are oracles the theorems quantify "
              "over; time is unbounded; mio registration is assumed to succeed. Socket selection is proved as a state property at rest "
              "(the shadow table maps a routed source to its own flow's socket or to nothing, never to another flow's); that "
              "the entry is present (delivery) and the new-flow path through in_flight_flow are compared with the model on "
              "every e2e scenario, not proved. Not covered: SCM hand-off of a UDP listener with live flows; WouldBlock on "
              "real sockets (the write queue is driven in-process through the cfg(sozu_verif) hook 34a352f and in the "
              "model with scripted send outcomes).")
TECHNIQUE = "Rocq/Coq proof over an executable Gallina model + differential correspondence (extracted OCaml vs real crate)"
CLAIMED = True
