(** C16 — lemmas about the accept queue, eviction and the zombie check. *)
From Coq Require Import List Arith NArith Bool Lia Sorting.Sorted Sorting.Permutation.
From SV Require Import C16.QModel.
Import ListNotations.
Open Scope N_scope.

(* ------------------------------------------------------------------ *)
(** * Sorting by last event *)

Definition older (a b : sess) : Prop := s_last a <= s_last b.

Lemma insert_in x l y : In y (insert_s x l) <-> y = x \/ In y l.
Proof.
  induction l as [|z t IH]; cbn [insert_s In]; [intuition|].
  destruct (s_last x <? s_last z); cbn [In]; [intuition|]. rewrite IH. intuition.
Qed.

Lemma insert_sorted x l : StronglySorted older l -> StronglySorted older (insert_s x l).
Proof.
  induction l as [|z t IH]; intros H; cbn [insert_s].
  - constructor; constructor.
  - inversion H as [|? ? Ht Hz]; subst. destruct (s_last x <? s_last z) eqn:E.
    + apply N.ltb_lt in E. constructor; [exact H|]. constructor; [unfold older; lia|].
      rewrite Forall_forall in *. intros y Hy. specialize (Hz y Hy). unfold older in *. lia.
    + apply N.ltb_ge in E. constructor; [apply IH; exact Ht|].
      rewrite Forall_forall in *. intros y Hy. apply insert_in in Hy. destruct Hy as [->|Hy]; [exact E|apply Hz; exact Hy].
Qed.

Lemma isort_sorted l : StronglySorted older (isort l).
Proof. induction l as [|x t IH]; cbn [isort]; [constructor|apply insert_sorted; exact IH]. Qed.

Lemma insert_perm x l : Permutation (insert_s x l) (x :: l).
Proof.
  induction l as [|z t IH]; cbn [insert_s]; [reflexivity|].
  destruct (s_last x <? s_last z); [reflexivity|].
  rewrite IH. apply perm_swap.
Qed.

Lemma isort_perm l : Permutation (isort l) l.
Proof. induction l as [|x t IH]; cbn [isort]; [reflexivity|]. rewrite insert_perm, IH. reflexivity. Qed.

Lemma skipn_in {A} (l : list A) : forall k x, In x (skipn k l) -> In x l.
Proof.
  induction l as [|y t IH]; intros [|k] x H; cbn [skipn] in H; auto. right. eapply IH; eauto.
Qed.

Lemma sorted_split l : StronglySorted older l -> forall k v w,
  In v (firstn k l) -> In w (skipn k l) -> s_last v <= s_last w.
Proof.
  induction l as [|x t IH]; intros H k v w Hv Hw.
  - destruct k; cbn in Hv; destruct Hv.
  - inversion H as [|? ? Ht Hx]; subst. destruct k as [|k]; [cbn in Hv; destruct Hv|].
    cbn [firstn skipn In] in Hv, Hw. destruct Hv as [<-|Hv].
    + rewrite Forall_forall in Hx. apply Hx. eapply skipn_in; exact Hw.
    + eapply IH; eauto.
Qed.

(* ------------------------------------------------------------------ *)
(** * Eviction *)

Lemma touched_le l : forall c, (touched c l <= length l)%nat.
Proof.
  induction l as [|x t IH]; intros c; cbn [touched length]; [lia|].
  destruct (c =? 0); [lia|]. specialize (IH (c - N.min c (s_entries x))). lia.
Qed.

Lemma touched_pos c l : 1 <= c -> l <> [] -> (1 <= touched c l)%nat.
Proof.
  intros Hc Hl. destruct l as [|x t]; [congruence|]. cbn [touched].
  assert (E : (c =? 0) = false) by (apply N.eqb_neq; lia). rewrite E. lia.
Qed.

Definition sum_entries (l : list sess) : N := fold_right (fun x a => s_entries x + a) 0 l.

Lemma sum_entries_app a b : sum_entries (a ++ b) = sum_entries a + sum_entries b.
Proof. unfold sum_entries. induction a as [|x t IH]; cbn [app fold_right]; [reflexivity|]. rewrite IH. lia. Qed.

Lemma sum_entries_perm a b : Permutation a b -> sum_entries a = sum_entries b.
Proof.
  unfold sum_entries. induction 1; cbn [fold_right]; try lia.
Qed.

Lemma evict_spec s count :
  let sorted := isort (v_sessions s) in
  let k := snd (evict s count) in
  let s' := fst (evict s count) in
  v_sessions s' = skipn k sorted /\
  (forall v w, In v (firstn k sorted) -> In w (v_sessions s') -> s_last v <= s_last w) /\
  Permutation (firstn k sorted ++ v_sessions s') (v_sessions s) /\
  sum_entries (v_sessions s') + sum_entries (firstn k sorted) = sum_entries (v_sessions s) /\
  v_nb s' = v_nb s - N.of_nat k /\ (k <= length (v_sessions s))%nat /\
  (1 <= count -> v_sessions s <> [] -> (1 <= k)%nat) /\
  v_queue s' = v_queue s /\ v_served s' = v_served s /\ v_dropped s' = v_dropped s /\ v_max s' = v_max s.
Proof.
  cbn zeta. unfold evict. cbn [fst snd q_decr set_sessions v_sessions v_nb v_queue v_served v_dropped v_max].
  set (sorted := isort (v_sessions s)). set (k := touched count sorted).
  assert (P : Permutation (firstn k sorted ++ skipn k sorted) (v_sessions s))
    by (rewrite firstn_skipn; apply isort_perm).
  repeat split; auto.
  - intros v w Hv Hw. eapply sorted_split; eauto. apply isort_sorted.
  - rewrite <- (sum_entries_perm _ _ P), sum_entries_app. lia.
  - unfold k. pose proof (touched_le sorted count) as L.
    unfold sorted in L. rewrite (Permutation_length (isort_perm (v_sessions s))) in L. exact L.
  - intros Hc Hn. apply touched_pos; [exact Hc|]. intros E. apply Hn.
    apply Permutation_nil. rewrite <- E. unfold sorted. apply isort_perm.
Qed.

(* ------------------------------------------------------------------ *)
(** * Zombie check *)

Lemma zombie_spec s i x :
  In x (v_sessions (zombie_check s i)) <-> In x (v_sessions s) /\ v_now s - s_last x <= i.
Proof.
  unfold zombie_check. cbn [q_decr set_sessions v_sessions]. rewrite filter_In, negb_true_iff, N.ltb_ge. tauto.
Qed.

(* ------------------------------------------------------------------ *)
(** * Counters *)

Definition counts_ok (s : srv) : Prop :=
  v_nb s = N.of_nat (length (v_sessions s)) /\ v_nb s <= v_max s.

Lemma filter_length_le {A} (f : A -> bool) l : (length (filter f l) <= length l)%nat.
Proof. induction l as [|x t IH]; cbn; [lia|]. destruct (f x); cbn; lia. Qed.

Lemma q_decr_filter_ok s keep :
  counts_ok s -> (length keep <= length (v_sessions s))%nat ->
  counts_ok (q_decr (set_sessions s keep) (N.of_nat (length (v_sessions s) - length keep))).
Proof.
  intros [A B] L. unfold counts_ok, q_decr, set_sessions. cbn [v_nb v_sessions v_max]. split; lia.
Qed.

Lemma evict_counts s count : counts_ok s -> counts_ok (fst (evict s count)).
Proof.
  intros [A B]. destruct (evict_spec s count) as (E1 & _ & _ & _ & E5 & E6 & _ & _ & _ & _ & E11).
  unfold counts_ok. rewrite E5, E1, E11, skipn_length, (Permutation_length (isort_perm (v_sessions s))). split; lia.
Qed.

Lemma create_sessions_counts : forall fuel s, counts_ok s -> counts_ok (create_sessions s fuel).
Proof.
  induction fuel as [|f IH]; intros s H; cbn [create_sessions]; [assumption|].
  destruct (v_queue s) as [|[id t] rest]; [assumption|].
  destruct H as [A B].
  destruct (v_timeout s <? v_now s - t).
  - apply IH. split; assumption.
  - unfold q_check. cbn [v_max v_nb v_accept v_queue v_sessions v_now v_timeout v_evict v_served v_dropped].
    destruct (v_max s <=? v_nb s) eqn:M.
    + cbn [v_evict]. destruct (negb (v_evict s)); [split; assumption|].
      match goal with |- context [evict ?x ?c] =>
        pose proof (evict_counts x c) as EC; destruct (evict x c) as [s2 k] end.
      cbn [fst] in EC. assert (C2 : counts_ok s2) by (apply EC; split; assumption).
      destruct k as [|k]; [exact C2|].
      destruct C2 as [A2 B2]. destruct (v_max s2 <=? v_nb s2) eqn:M2; [split; assumption|].
      apply N.leb_gt in M2. apply IH. unfold counts_ok. cbn [v_nb v_sessions v_max length]. split; lia.
    + apply N.leb_gt in M. apply IH. unfold counts_ok. cbn [v_nb v_sessions v_max length]. split; lia.
Qed.

Lemma q_apply_counts s o : counts_ok s -> counts_ok (q_apply s o).
Proof.
  intros H. destruct o; cbn [q_apply].
  - destruct (v_accept s && _); [|assumption]. exact H.
  - apply create_sessions_counts. exact H.
  - exact H.
  - destruct H as [A B]. unfold on_sess, counts_ok, set_sessions. cbn [v_nb v_sessions v_max]. rewrite map_length. split; assumption.
  - destruct H as [A B]. unfold on_sess, counts_ok, set_sessions. cbn [v_nb v_sessions v_max]. rewrite map_length. split; assumption.
  - apply q_decr_filter_ok; [exact H|apply filter_length_le].
  - unfold zombie_check. apply q_decr_filter_ok; [exact H|apply filter_length_le].
Qed.

(* ------------------------------------------------------------------ *)
(** * Every accepted connection is queued, served or dropped — exactly one of them *)

Lemma create_sessions_ids : forall fuel s, Permutation (all_ids (create_sessions s fuel)) (all_ids s).
Proof.
  induction fuel as [|f IH]; intros s; cbn [create_sessions]; [reflexivity|].
  destruct (v_queue s) as [|[id t] rest] eqn:Q; [reflexivity|].
  assert (Drop : forall x, v_queue x = rest -> v_served x = v_served s -> v_dropped x = id :: v_dropped s ->
                  Permutation (all_ids x) (all_ids s)).
  { intros x E1 E2 E3. unfold all_ids. rewrite E1, E2, E3, Q. cbn [map fst app].
    rewrite !app_assoc. symmetry. apply Permutation_middle. }
  assert (TakeIn : forall x, v_queue x = rest -> v_served x = id :: v_served s -> v_dropped x = v_dropped s ->
                  Permutation (all_ids x) (all_ids s)).
  { intros x E1 E2 E3. unfold all_ids. rewrite E1, E2, E3, Q. cbn [map fst app].
    symmetry. apply Permutation_middle. }
  destruct (v_timeout s <? v_now s - t).
  - rewrite IH. apply Drop; reflexivity.
  - unfold q_check. cbn [v_max v_nb v_accept v_queue v_sessions v_now v_timeout v_evict v_served v_dropped].
    destruct (v_max s <=? v_nb s).
    + cbn [v_evict]. destruct (negb (v_evict s)); [apply Drop; reflexivity|].
      match goal with |- context [evict ?x ?c] =>
        destruct (evict_spec x c) as (_ & _ & _ & _ & _ & _ & _ & E8 & E9 & E10 & _); destruct (evict x c) as [s2 k] end.
      cbn [fst snd v_queue v_served v_dropped] in E8, E9, E10.
      destruct k as [|k]; [apply Drop; cbn; congruence|].
      destruct (v_max s2 <=? v_nb s2); [apply Drop; cbn; congruence|].
      rewrite IH. apply TakeIn; cbn; congruence.
    + rewrite IH. apply TakeIn; reflexivity.
Qed.

Lemma q_apply_ids s o :
  match o with
  | QEnqueue id =>
    all_ids (q_apply s o) = all_ids s \/ (all_ids (q_apply s o) = id :: all_ids s /\ ~ In id (all_ids s))
  | _ => Permutation (all_ids (q_apply s o)) (all_ids s)
  end.
Proof.
  destruct o; cbn [q_apply]; try reflexivity.
  - destruct (v_accept s); cbn [andb]; [|left; reflexivity].
    destruct (existsb (N.eqb id) (all_ids s)) eqn:E; cbn [negb]; [left; reflexivity|].
    right. split; [reflexivity|]. intros Hi.
    assert (existsb (N.eqb id) (all_ids s) = true) by (apply existsb_exists; exists id; split; [exact Hi|apply N.eqb_refl]).
    congruence.
  - apply create_sessions_ids.
Qed.

Lemma q_run_nodup : forall ops s, NoDup (all_ids s) -> NoDup (all_ids (q_run s ops)).
Proof.
  unfold q_run. induction ops as [|o t IH]; intros s H; cbn [fold_left]; [assumption|].
  apply IH. pose proof (q_apply_ids s o) as P. destruct o;
    try (eapply Permutation_NoDup; [symmetry; exact P|exact H]).
  destruct P as [E|[E Hn]]; rewrite E; [exact H|constructor; assumption].
Qed.

Lemma q_run_keeps : forall ops s id, In id (all_ids s) -> In id (all_ids (q_run s ops)).
Proof.
  unfold q_run. induction ops as [|o t IH]; intros s id H; cbn [fold_left]; [assumption|].
  apply IH. pose proof (q_apply_ids s o) as P. destruct o;
    try (eapply Permutation_in; [symmetry; exact P|exact H]).
  destruct P as [E|[E _]]; rewrite E; [exact H|right; exact H].
Qed.

Lemma q_run_counts : forall ops s, counts_ok s -> counts_ok (q_run s ops).
Proof.
  unfold q_run. induction ops as [|o t IH]; intros s H; cbn [fold_left]; [assumption|].
  apply IH. apply q_apply_counts. exact H.
Qed.
