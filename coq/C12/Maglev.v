(** C12 — the Maglev population loop fills every slot (termination within its
    fuel), by coprimality of every [skip] with the prime table size. *)
From Coq Require Import List Arith ZArith NArith Bool Lia Znumtheory.
From SV Require Import C12.Model C12.Proofs.
Import ListNotations.

(* ------------------------------------------------------------------ *)
(** * Every residue is reached *)

Lemma cover_Z (m skip off next c0 : Z) :
  (0 < m)%Z -> rel_prime skip m -> (0 <= c0 < m)%Z ->
  exists j, (0 <= j < m)%Z /\ ((off + (next + j) * skip) mod m = c0)%Z.
Proof.
  intros Hm Hr Hc.
  destruct (rel_prime_bezout _ _ Hr) as [u v E].
  set (t := (c0 - off - next * skip)%Z).
  exists ((t * u) mod m)%Z. split; [apply Z.mod_pos_bound; lia|].
  assert (K : ((off + (next + (t * u) mod m) * skip) mod m = (off + next * skip + t * (u * skip)) mod m)%Z).
  { replace (off + (next + (t * u) mod m) * skip)%Z with ((off + next * skip) + ((t * u) mod m) * skip)%Z by ring.
    rewrite <- Z.add_mod_idemp_r by lia.
    rewrite Z.mul_mod_idemp_l by lia.
    rewrite Z.add_mod_idemp_r by lia. f_equal. ring. }
  rewrite K.
  replace (u * skip)%Z with (1 - v * m)%Z by lia.
  replace (off + next * skip + t * (1 - v * m))%Z with (c0 + (- t * v) * m)%Z by (unfold t; ring).
  rewrite Z_mod_plus_full. apply Z.mod_small. lia.
Qed.

Lemma prime_skip_coprime (m skip : Z) : prime m -> (1 <= skip < m)%Z -> rel_prime skip m.
Proof.
  intros Hp Hs. apply rel_prime_sym. apply prime_rel_prime; [assumption|].
  intros D. apply Z.divide_pos_le in D; lia.
Qed.

Open Scope N_scope.

Definition slot (off skip m j : N) : nat := N.to_nat ((off + j * skip) mod m).

Lemma cover_N (m skip off next : N) (c0 : nat) :
  prime (Z.of_N m) -> 1 <= skip < m -> (c0 < N.to_nat m)%nat ->
  exists d, (d < N.to_nat m)%nat /\ slot off skip m (next + N.of_nat d) = c0.
Proof.
  intros Hp Hs Hc.
  assert (Hm : (0 < Z.of_N m)%Z) by (destruct Hp; lia).
  destruct (cover_Z (Z.of_N m) (Z.of_N skip) (Z.of_N off) (Z.of_N next) (Z.of_nat c0)) as [j [Hj E]].
  - exact Hm.
  - apply prime_skip_coprime; [assumption|lia].
  - lia.
  - exists (Z.to_nat j). split; [lia|].
    unfold slot. apply Nat2Z.inj. rewrite <- E.
    rewrite N_nat_Z, N2Z.inj_mod, N2Z.inj_add, N2Z.inj_mul, N2Z.inj_add.
    rewrite nat_N_Z, Z2Nat.id by lia. reflexivity.
Qed.

(* ------------------------------------------------------------------ *)
(** * The inner search finds a free slot when there is one *)

Lemma find_free_some table off skip m : forall fuel next,
  (exists d, (d < fuel)%nat /\ nth (slot off skip m (next + N.of_nat d)) table None = None) ->
  exists j c, find_free table off skip m next fuel = Some (j, c) /\
              c = slot off skip m j /\ nth c table None = None.
Proof.
  induction fuel as [|f IH]; intros next [d [Hd Hn]]; [lia|].
  cbn [find_free]. fold (slot off skip m next).
  destruct (nth (slot off skip m next) table None) as [x|] eqn:E.
  - destruct d as [|d'].
    + rewrite N.add_0_r in Hn. congruence.
    + apply IH. exists d'. split; [lia|].
      replace (next + 1 + N.of_nat d') with (next + N.of_nat (S d')) by lia. exact Hn.
  - exists next, (slot off skip m next). repeat split. exact E.
Qed.

(* ------------------------------------------------------------------ *)
(** * Counting filled slots *)

Definition is_some {A} (o : option A) : bool := match o with Some _ => true | None => false end.
Definition nsome (t : list (option nat)) : nat := length (filter is_some t).

Lemma nsome_le t : (nsome t <= length t)%nat.
Proof. unfold nsome. induction t as [|x r IH]; cbn; [lia|]. destruct (is_some x); cbn; lia. Qed.

Lemma exists_free t : (nsome t < length t)%nat -> exists c, (c < length t)%nat /\ nth c t None = None.
Proof.
  unfold nsome. induction t as [|x r IH]; cbn [filter length]; [lia|].
  destruct x as [v|]; cbn [is_some length].
  - intros H. destruct IH as [c [Hc Hn]]; [lia|]. exists (S c). split; [lia|exact Hn].
  - intros _. exists 0%nat. split; [lia|reflexivity].
Qed.

Lemma nsome_upd t : forall c b, (c < length t)%nat -> nth c t None = None ->
  nsome (upd t c (Some b)) = S (nsome t).
Proof.
  unfold nsome. induction t as [|x r IH]; intros [|c] b Hc Hn; cbn [length] in Hc; try lia.
  - cbn in Hn. subst. cbn. reflexivity.
  - cbn [nth] in Hn. cbn [upd filter]. assert (Hc' : (c < length r)%nat) by lia.
    destruct (is_some x); cbn [length]; rewrite (IH c b Hc' Hn); reflexivity.
Qed.

Lemma all_some t : nsome t = length t -> Forall (fun e => is_some e = true) t.
Proof.
  unfold nsome. induction t as [|x r IH]; cbn [filter length]; [constructor|].
  destruct x as [v|]; cbn [is_some length].
  - intros H. constructor; [reflexivity|]. apply IH. lia.
  - intros H. pose proof (nsome_le r) as L. unfold nsome in L. lia.
Qed.

(* ------------------------------------------------------------------ *)
(** * Sums *)

Lemma sumN_upd l : forall b v, (b < length l)%nat -> sumN (upd l b v) + nth b l 0 = sumN l + v.
Proof.
  unfold sumN. induction l as [|x r IH]; intros [|b] v Hb; cbn [length] in Hb; try lia.
  - cbn. lia.
  - cbn [upd fold_right nth]. specialize (IH b v). lia.
Qed.

Lemma sum_lt_exists l1 : forall l2, length l1 = length l2 -> sumN l1 < sumN l2 ->
  exists i, (i < length l1)%nat /\ nth i l1 0 < nth i l2 0.
Proof.
  unfold sumN. induction l1 as [|x r IH]; intros [|y s] HL HS; cbn [length] in HL; try discriminate.
  cbn [fold_right] in HS. destruct (N.lt_ge_cases x y) as [Hxy|Hxy].
  - exists 0%nat. cbn [length nth]. split; [lia|exact Hxy].
  - destruct (IH s) as [i [Hi Hn]]; [lia|lia|]. exists (S i). cbn [length nth]. split; [lia|exact Hn].
Qed.

Lemma upd_nth_same {A} (l : list A) : forall i v d, (i < length l)%nat -> nth i (upd l i v) d = v.
Proof. induction l as [|x r IH]; intros [|i] v d H; cbn [length] in H; try lia; cbn; auto. apply IH. lia. Qed.

Lemma upd_nth_other {A} (l : list A) : forall i j v d, i <> j -> nth j (upd l i v) d = nth j l d.
Proof.
  induction l as [|x r IH]; intros [|i] [|j] v d H; cbn; auto; try congruence; try (apply IH; congruence).
Qed.

(** the remainder loop adds exactly its fuel to the sum *)
Lemma distribute_sum n : forall fuel targets i, (0 < n)%nat -> length targets = n ->
  sumN (distribute targets n i fuel) = sumN targets + N.of_nat fuel /\
  length (distribute targets n i fuel) = n.
Proof.
  induction fuel as [|f IH]; intros targets i Hn HL; cbn [distribute].
  - split; [lia|exact HL].
  - assert (Hi : (i mod n < length targets)%nat) by (rewrite HL; apply Nat.mod_upper_bound; lia).
    destruct (IH (upd targets (i mod n) (nth (i mod n) targets 0 + 1)) (S i) Hn) as [S1 S2].
    { rewrite upd_length. exact HL. }
    split; [|exact S2]. rewrite S1.
    pose proof (sumN_upd targets (i mod n) (nth (i mod n) targets 0 + 1) Hi). lia.
Qed.

(** [sum floor(w_i * m / T) <= m] for [T = sum w_i > 0] *)
Lemma floor_sum_le m T : 0 < T -> forall ws,
  T * sumN (map (fun w => w * m / T) ws) <= sumN ws * m.
Proof.
  intros HT. unfold sumN. induction ws as [|w r IH]; cbn [map fold_right]; [lia|].
  pose proof (N.mul_div_le (w * m) T). nia.
Qed.

(* ------------------------------------------------------------------ *)
(** * The population loop *)

Section Pop.
  Variables (offs skips targets : list N) (m : N) (n : nat).
  Hypothesis Hprime : prime (Z.of_N m).
  Hypothesis Hskips : forall b, (b < n)%nat -> 1 <= nth b skips 0 < m.
  Hypothesis Htlen : length targets = n.
  Hypothesis Htsum : sumN targets = m.

  Definition PI (p : pop) : Prop :=
    length (p_table p) = N.to_nat m /\ length (p_filled p) = n /\
    p_count p = N.of_nat (nsome (p_table p)) /\ p_count p = sumN (p_filled p).

  Lemma m_pos : 0 < m.
  Proof. destruct Hprime. lia. Qed.

  Lemma slot_lt off skip j : (slot off skip m j < N.to_nat m)%nat.
  Proof. unfold slot. pose proof m_pos. pose proof (N.mod_lt (off + j * skip) m). lia. Qed.

  Lemma pass_step b p :
    (b < n)%nat -> PI p -> p_count p < m ->
    exists j c,
      find_free (p_table p) (nth b offs 0) (nth b skips 0) m (nth b (p_next p) 0) (S (N.to_nat m)) = Some (j, c) /\
      let p' := mkP (upd (p_table p) c (Some b)) (upd (p_next p) b (j + 1))
                    (upd (p_filled p) b (nth b (p_filled p) 0 + 1)) (p_count p + 1) in
      PI p'.
  Proof.
    intros Hb (L1 & L2 & C1 & C2) Hc.
    destruct (exists_free (p_table p)) as [c0 [Hc0 Hf0]]; [lia|].
    destruct (cover_N m (nth b skips 0) (nth b offs 0) (nth b (p_next p) 0) c0 Hprime (Hskips b Hb)) as [d [Hd Hs]]; [lia|].
    destruct (find_free_some (p_table p) (nth b offs 0) (nth b skips 0) m (S (N.to_nat m)) (nth b (p_next p) 0))
      as (j & c & E & Ec & Hn).
    { exists d. split; [lia|]. rewrite Hs. exact Hf0. }
    exists j, c. split; [exact E|]. cbn zeta.
    assert (Hcl : (c < length (p_table p))%nat) by (rewrite L1, Ec; apply slot_lt).
    unfold PI. cbn [p_table p_filled p_count]. repeat split.
    - rewrite upd_length. exact L1.
    - rewrite upd_length. exact L2.
    - rewrite nsome_upd by assumption. lia.
    - pose proof (sumN_upd (p_filled p) b (nth b (p_filled p) 0 + 1)) as S. rewrite L2 in S. specialize (S Hb). lia.
  Qed.

  Lemma pass_progress : forall bs p,
    (forall b, In b bs -> (b < n)%nat) -> PI p ->
    let p' := pop_pass offs skips targets m bs p in
    PI p' /\ p_count p <= p_count p' /\
    (p_count p < m -> (exists b, In b bs /\ nth b (p_filled p) 0 < nth b targets 0) -> p_count p < p_count p').
  Proof.
    induction bs as [|b rest IH]; intros p Hbs HP; cbn [pop_pass]; cbn zeta.
    - split; [assumption|split; [lia|]]. intros _ [b [[] _]].
    - destruct (m <=? p_count p) eqn:E1.
      + apply N.leb_le in E1. split; [assumption|split; [lia|]]. intros; lia.
      + apply N.leb_gt in E1.
        assert (Hrest : forall b0, In b0 rest -> (b0 < n)%nat) by (intros; apply Hbs; right; assumption).
        destruct (nth b targets 0 <=? nth b (p_filled p) 0) eqn:E2.
        * apply N.leb_le in E2. destruct (IH p Hrest HP) as (I1 & I2 & I3).
          split; [assumption|split; [assumption|]]. intros Hlt [b' [[<-|Hin] Hw]]; [lia|].
          apply I3; auto. exists b'. split; assumption.
        * destruct (pass_step b p (Hbs b (or_introl eq_refl)) HP E1) as (j & c & E & HP').
          rewrite E. cbn zeta in HP'.
          match goal with |- context [pop_pass _ _ _ _ rest ?q] => destruct (IH q Hrest HP') as (I1 & I2 & _) end.
          cbn [p_count] in I2. split; [assumption|split; [lia|]]. intros; lia.
  Qed.

  Lemma loop_fills : forall fuel p,
    PI p -> m <= p_count p + N.of_nat fuel ->
    let p' := pop_loop offs skips targets m (seq 0 n) p fuel in
    PI p' /\ m <= p_count p'.
  Proof.
    induction fuel as [|f IH]; intros p HP Hf; cbn [pop_loop]; cbn zeta.
    - split; [assumption|lia].
    - destruct (m <=? p_count p) eqn:E1; [apply N.leb_le in E1; split; assumption|].
      apply N.leb_gt in E1.
      assert (Hseq : forall b, In b (seq 0 n) -> (b < n)%nat) by (intros b Hb; apply in_seq in Hb; lia).
      destruct (pass_progress (seq 0 n) p Hseq HP) as (I1 & I2 & I3).
      apply IH; [exact I1|].
      assert (p_count p < p_count (pop_pass offs skips targets m (seq 0 n) p)).
      { apply I3; [exact E1|].
        destruct HP as (L1 & L2 & C1 & C2).
        destruct (sum_lt_exists (p_filled p) targets) as [i [Hi Hlt]]; [lia|lia|].
        exists i. split; [apply in_seq; lia|exact Hlt]. }
      lia.
  Qed.
End Pop.

(* ------------------------------------------------------------------ *)
(** * [Maglev::rebuild] is total *)

Lemma nth_map0 {A} (f : A -> N) (l : list A) (d : A) b :
  (b < length l)%nat -> nth b (map f l) 0 = f (nth b l d).
Proof.
  intros H. rewrite (nth_indep (map f l) 0 (f d)) by (rewrite map_length; exact H). apply map_nth.
Qed.

Lemma sumN_pos l : l <> [] -> Forall (fun w => 1 <= w) l -> 0 < sumN l.
Proof.
  unfold sumN. destruct l as [|x r]; [congruence|]. intros _ H. inversion H; subst. cbn [fold_right]. lia.
Qed.

Lemma nsome_repeat_none k : nsome (repeat None k) = 0%nat.
Proof. unfold nsome. induction k as [|k IH]; cbn; auto. Qed.

Lemma sumN_repeat0 k : sumN (repeat 0 k) = 0.
Proof. unfold sumN. induction k as [|k IH]; cbn [repeat fold_right]; [reflexivity|]. rewrite IH. reflexivity. Qed.

Lemma maglev_rebuild_total hashes size aw :
  aw <> [] -> prime (Z.of_N size) -> Forall (fun e => 1 <= snd e) aw ->
  let mg := maglev_rebuild hashes size aw in
  m_size mg = size /\ m_addrs mg = map fst aw /\
  length (m_table mg) = N.to_nat size /\
  Forall (fun e => exists i, e = Some i /\ (i < length aw)%nat) (m_table mg).
Proof.
  intros Hne Hp Hw.
  assert (Hm : 2 <= size) by (destruct Hp; lia).
  unfold maglev_rebuild.
  assert (E : ((length aw =? 0)%nat || (size =? 0)) = false).
  { apply orb_false_iff. split; [apply Nat.eqb_neq; destruct aw; cbn; congruence|apply N.eqb_neq; lia]. }
  rewrite E. cbn zeta. cbn [m_size m_addrs m_table].
  set (n := length aw). set (m := size). assert (Hm' : 2 <= m) by exact Hm.
  set (addrs := map fst aw).
  set (offs := map (fun a => fst (lookup2 a hashes) mod m) addrs).
  set (skips := map (fun a => snd (lookup2 a hashes) mod (m - 1) + 1) addrs).
  set (weights := map snd aw).
  set (targets0 := map (fun w => w * m / sumN weights) weights).
  set (targets := distribute targets0 n 0 (N.to_nat (m - sumN targets0))).
  set (p0 := mkP (repeat None (N.to_nat m)) (repeat 0 n) (repeat 0 n) 0).
  assert (Hn : (0 < n)%nat) by (unfold n; destruct aw; cbn; [congruence|lia]).
  assert (HT : 0 < sumN weights).
  { apply sumN_pos; [unfold weights; destruct aw; cbn; congruence|]. unfold weights. apply Forall_map. exact Hw. }
  assert (HS0 : sumN targets0 <= m).
  { pose proof (floor_sum_le m (sumN weights) HT weights) as F. fold targets0 in F. nia. }
  destruct (distribute_sum n (N.to_nat (m - sumN targets0)) targets0 0 Hn) as [D1 D2].
  { unfold targets0, weights. rewrite !map_length. reflexivity. }
  fold targets in D1, D2.
  assert (Hskips : forall b, (b < n)%nat -> 1 <= nth b skips 0 < m).
  { intros b Hb. unfold skips. rewrite (nth_map0 _ addrs 0) by (unfold addrs; rewrite map_length; exact Hb).
    pose proof (N.mod_lt (snd (lookup2 (nth b addrs 0) hashes)) (m - 1)) as R.
    set (r := snd (lookup2 (nth b addrs 0) hashes) mod (m - 1)) in *. clearbody r. lia. }
  assert (HP0 : PI m n p0).
  { unfold PI, p0. cbn [p_table p_filled p_count]. rewrite !repeat_length. repeat split.
    - rewrite nsome_repeat_none. reflexivity.
    - rewrite sumN_repeat0. reflexivity. }
  assert (Hsum : sumN targets = m) by (rewrite D1; lia).
  destruct (loop_fills offs skips targets m n Hp Hskips D2 Hsum (N.to_nat m) p0 HP0) as [(L1 & L2 & C1 & C2) Hfull].
  { unfold p0. cbn [p_count]. lia. }
  set (p := pop_loop offs skips targets m (seq 0 n) p0 (N.to_nat m)) in *.
  repeat split; auto.
  assert (HN : nsome (p_table p) = length (p_table p)).
  { pose proof (nsome_le (p_table p)). lia. }
  pose proof (all_some _ HN) as AS.
  pose proof (pop_loop_ok offs skips targets m n (N.to_nat m) (seq 0 n) (N.to_nat m) p0) as OK.
  destruct OK as [_ OKf].
  { intros b Hb. apply in_seq in Hb. lia. }
  { split; cbn [p_table]; [apply repeat_length|apply Forall_repeat; exact I]. }
  fold p in OKf.
  rewrite Forall_forall in *. intros e He. specialize (AS e He). specialize (OKf e He).
  destruct e as [i|]; [|discriminate]. exists i. split; [reflexivity|exact OKf].
Qed.

(** the weights the model feeds to [rebuild] are the clamped [backend_weight]s *)
Lemma addr_weights_pos hp l : Forall (fun e => 1 <= snd e) (addr_weights hp l).
Proof.
  unfold addr_weights. apply Forall_map. apply Forall_forall. intros h _. cbn [snd].
  unfold weight_of. destruct (b_weight (hget hp h)) as [w|]; lia.
Qed.

(* ------------------------------------------------------------------ *)
(** * The production table size is prime *)

Definition no_divisor (p : Z) : bool :=
  forallb (fun d => negb (p mod (Z.of_nat d) =? 0)%Z) (seq 2 (Z.to_nat p - 2)).

Lemma prime_by_trial p : (1 < p)%Z -> no_divisor p = true -> prime p.
Proof.
  intros H1 H. apply prime_alt. split; [exact H1|].
  intros k Hk D. unfold no_divisor in H. rewrite forallb_forall in H.
  specialize (H (Z.to_nat k)). rewrite Z2Nat.id in H by lia.
  assert (Hin : In (Z.to_nat k) (seq 2 (Z.to_nat p - 2))) by (apply in_seq; lia).
  specialize (H Hin). apply negb_true_iff, Z.eqb_neq in H. apply H.
  apply Z.mod_divide; [lia|exact D].
Qed.

(** trial division up to the square root *)
Definition no_small_divisor (p : Z) (r : nat) : bool :=
  forallb (fun d => negb (p mod (Z.of_nat d) =? 0)%Z) (seq 2 (r - 1)).

Lemma prime_by_trial_sqrt p r :
  (1 < p)%Z -> (p < (Z.of_nat r + 1) * (Z.of_nat r + 1))%Z -> no_small_divisor p r = true -> prime p.
Proof.
  intros H1 Hr H. apply prime_alt. split; [exact H1|].
  unfold no_small_divisor in H. rewrite forallb_forall in H.
  assert (Small : forall d, (1 < d <= Z.of_nat r)%Z -> ~ (d | p)%Z).
  { intros d Hd D. specialize (H (Z.to_nat d)). rewrite Z2Nat.id in H by lia.
    assert (Hin : In (Z.to_nat d) (seq 2 (r - 1))) by (apply in_seq; lia).
    specialize (H Hin). apply negb_true_iff, Z.eqb_neq in H. apply H.
    apply Z.mod_divide; [lia|exact D]. }
  intros k Hk D. destruct D as [q Hq].
  assert (Hq1 : (1 < q < p)%Z) by nia.
  destruct (Z_le_gt_dec k (Z.of_nat r)) as [Hs|Hb].
  - apply (Small k); [lia|]. exists q. exact Hq.
  - destruct (Z_le_gt_dec q (Z.of_nat r)) as [Hs2|Hb2].
    + apply (Small q); [lia|]. exists k. lia.
    + nia.
Qed.

Lemma prime_65537 : prime 65537.
Proof. apply (prime_by_trial_sqrt 65537 256); [lia|lia|vm_compute; reflexivity]. Qed.
