(** C03 — property theorems. *)
From Coq Require Import List NArith Bool.
From SV Require Import C13.Model C03.Model C03.Proofs.
Import ListNotations.
Theorem placeholder : True.
Proof. exact I. Qed.
