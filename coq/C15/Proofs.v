(** C15 — lemmas. *)
From Coq Require Import List NArith Bool Lia.
From SV Require Import C15.Gen C15.Model.
Import ListNotations.
Open Scope N_scope.
