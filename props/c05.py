"""C05 — a configuration survives every save / replay path unchanged."""
import vlib
from vlib import Case
from props import cfgstate_common as C

ID = "C05"
COQ_DIRS = ["Common", "CfgState", "C05"]
COQ_TARGETS = ["C05/Props.vo", "CfgState/Run.vo"]
PROPS_MODULES = ["C05.Props"]
RUN_MODULE = "CfgState.Run"
RUN_FN = "run_case"
HARNESS_BIN = "c05"
HARNESS_BINS = ["c05"]
SHRINK_KEEP = C.SHRINK_KEEP
RULE = ("cases: command histories (every mutating verb, valid and invalid arguments, duplicates, removals, listener "
        "patches, optional/empty/default-valued payload fields, IPv4/IPv6 addresses, several certificates per address) "
        "followed by `replay`: the real state is turned back into commands and replayed on an empty instance through all "
        "four paths (in-memory requests, JSON state file read back with the master's load_state loop, protobuf "
        "InitialState blob, serde_json of the whole state). Non-trivial and distinct: the replayed state holds objects of "
        ">= 3 different kinds and >= 6 objects; distinct by op text.")
ASSUMPTIONS = C.COMMON_ASSUMPTIONS + [
    "equality of configurations is modulo empty buckets (backends / tcp_fronts / udp_fronts / certificates): an empty bucket emits no request and is equivalent to an absent one; exact equality is reported as an observation",
    "the JSON / protobuf byte encodings are serde / prost (trusted, exercised on every case); the model predicts that the three replay paths give the verdict of the in-memory path and that the JSON round trip is the identity",
]
TRUSTED = C.COMMON_TRUSTED


def translate():
    return C.translate()[0]


def history_case(rng, cid, n):
    ops = C.oracle_ops()
    for op in C.history(rng, n):
        ops.append(op)
        r = rng.random()
        if r < 0.06:
            ops.append(["replay"])
        elif r < 0.10:
            ops.append(["dump"])
    ops += [["dump"], ["replay"]]
    return Case(cid, ops)


def build_case(rng, cid):
    """mostly-accepted growth: many objects of every kind, then replay"""
    F = C.facts()
    ops = C.oracle_ops()
    for a in range(rng.choice([1, 2, 4])):
        for kind in range(4):
            if rng.random() < 0.7:
                ops.append(C.rand_listener(rng, kind, a))
                if rng.random() < 0.5:
                    ops.append(C.update_listener(kind, a, C.rand_patch(rng, kind, 0.1)))
                if rng.random() < 0.4:
                    ops.append(["activate", kind, a])
    for c in range(3):
        ops.append(["add_cluster", c, rng.randrange(144), rng.choice([0, 1, 2, 3, 8])])
        for _ in range(rng.randrange(4)):
            ops.append(["add_backend", c, rng.randrange(3), rng.randrange(4), rng.choice([0, 1, 2]), rng.choice([0, 1, 101]), rng.randrange(3)])
        for _ in range(rng.randrange(3)):
            ops.append(["add_tfront", rng.randrange(2), c, rng.randrange(4), rng.randrange(3)])
    for _ in range(rng.randrange(8)):
        ops.append(["add_front", rng.randrange(2)] + C.rand_front_args(rng)[:-1] + [rng.randrange(324)])
    for _ in range(rng.randrange(6)):
        ops.append(["add_cert", rng.randrange(3), rng.randrange(len(F["cert"])), rng.randrange(8)] + rng.choice([[], [], [10], [10, 11]]))
    for _ in range(rng.randrange(3)):
        ops.append(["replace_cert", rng.randrange(3), rng.randrange(len(F["cert"])), rng.randrange(8), rng.choice([1, 2, 3, 7, 8, 9])] + rng.choice([[], [], [11]]))
    for op in C.history(rng, rng.choice([0, 3, 8])):
        ops.append(op)
    ops += [["dump"], ["replay"]]
    return Case(cid, ops)


def gen_cases(rng, tier):
    n = {"quick": 1600, "thorough": 30000, "search": 8000}.get(tier, 1600)
    out = []
    for i in range(n):
        if i % 3 == 0:
            out.append(build_case(rng, "b%d" % i))
        else:
            out.append(history_case(rng, "h%d" % i, rng.choice([8, 15, 30, 50])))
    return out


def corpus_cases():
    return C.corpus_cases(ID)


def nontrivial(case, o):
    # last dump before the final replay: count entries per section
    dumps = [ob for op, ob in zip(case.ops, o["obs"]) if op[0] == "dump"]
    if not dumps:
        return False
    d = dumps[-1]
    kinds, objs, i = set(), 0, 0
    while i < len(d):
        kl = d[i]
        sec = d[i + 1]
        pl = d[i + 1 + kl]
        if pl > 0:
            kinds.add(sec)
            objs += 1
        i += 2 + kl + pl
    return len(kinds) >= 3 and objs >= 6


CLAIMED = True
LEVEL_TEXT = ("Machine-checked proof (Coq 8.16 + std++) over the executable ConfigState model: for every state satisfying "
              "the reachable-state invariant, replaying generate_requests on an empty instance accepts every request and "
              "rebuilds the same configuration, whatever order the hash-map backed sections are iterated in. Tied to "
              "the code by a differential run: after generated command histories the real ConfigState is replayed "
              "through all four paths (requests, JSON state file with the master's load loop, protobuf blob, serde_json of "
              "the state) and compared with the extracted model's verdict; the property's oracle is evaluated on the "
              "implementation.")
LEVEL_NOTE = ("The request-level theorem (replay_generate) is proved at full strength for every reachable state and all "
              "eleven maps, modulo empty buckets, with the reachable-state invariant proved inductive; order-independence "
              "is proved for the map-backed sections (listeners, clusters, http/https frontends) and holds by the same "
              "lemmas for any order of the buckets. The byte encodings (serde_json, prost, the \\n\\0 framing and the "
              "master's load_state buffer loop) are exercised on every case, not modelled: the three encoded paths are "
              "tied to the theorem by correspondence only (full state equality in the release profile; the JSON round trip "
              "of the whole state is compared exactly). remove_backend / remove_tcp_frontend / remove_udp_frontend / "
              "remove_certificate leave empty buckets that generate_requests does not reproduce: `norm` drops them on both "
              "sides (exact equality is still computed by the driver); the internal debug assertion that tripped on them "
              "was relaxed upstream-style (fix c4e7f59). The process hand-over of the upgrade is C10.")
TECHNIQUE = "Rocq/Coq proof over an executable Gallina model (std++ gmap) + differential correspondence (extracted OCaml vs real crate, four replay paths)"
