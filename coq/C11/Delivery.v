(** C11 — end-to-end delivery: for every message list and every way the byte
    stream is cut into arrivals, the owner's loop delivers exactly the
    messages, once each, in order, with no error. *)
From Coq Require Import List Arith NArith Lia Bool.
From SV Require Import Common.Buf C11.Model C11.Proofs.
Import ListNotations.

Arguments Nat.min : simpl never.
Arguments Nat.max : simpl never.
#[local] Opaque consume shift grow shrink fill_bytes write_all.

Lemma app_prefix_ge {A} (a b c e : list A) :
  a ++ b = c ++ e -> length c <= length a ->
  exists rest, a = c ++ rest /\ rest ++ b = e.
Proof.
  intros H L. exists (skipn (length c) a).
  assert (Ha : a = c ++ skipn (length c) a).
  { rewrite <- (firstn_skipn (length c) a) at 1. f_equal.
    assert (F : firstn (length c) (a ++ b) = firstn (length c) (c ++ e)) by (rewrite H; reflexivity).
    rewrite firstn_app in F. replace (length c - length a) with 0 in F by lia.
    rewrite firstn_O, app_nil_r in F. rewrite F.
    rewrite firstn_app, Nat.sub_diag, firstn_O, app_nil_r, firstn_all. reflexivity. }
  split; [exact Ha|].
  rewrite Ha, <- app_assoc in H. apply app_inv_head in H. exact H.
Qed.

Lemma readable_loop_empty fuel c s k :
  inq s = [] -> ineof s = false -> 0 < avail_space (front c) ->
  readable_loop (S fuel) c s k = (set_rdy_r c false, s, Ok k).
Proof.
  intros Hq He Hs. cbn [readable_loop]. unfold ensure_space.
  destruct (avail_space (front c) =? 0) eqn:E0; [apply Nat.eqb_eq in E0; lia|].
  rewrite Hq, He. reflexivity.
Qed.

Ltac splits := repeat match goal with |- _ /\ _ => split end.

Section Delivery.
  Variable decodable : list N -> bool.

  Definition fits (c : chan) (p : list N) : Prop := delimiter_size + length p <= maxb c.
  Definition good (c : chan) (ps : list (list N)) : Prop :=
    Forall (fun p => fits c p /\ decodable p = true) ps.
  (** a strict prefix (possibly empty) of some frame that fits *)
  Definition tail_ok (c : chan) (tail : list N) : Prop :=
    exists q y, fits c q /\ tail ++ y = frame q /\ length tail < length (frame q).

  Lemma strict_prefix_incomplete c d x q y :
    usize_ok c -> fits c q ->
    d ++ x = frame q ++ y -> length d < length (frame q) ->
    incomplete c d.
  Proof.
    intros Hus Hfit H L. unfold incomplete.
    destruct (Nat.lt_ge_cases (length d) delimiter_size) as [S|S]; [left; exact S|right].
    assert (F : firstn delimiter_size d = le64 (delimiter_size + length q)).
    { assert (F : firstn delimiter_size (d ++ x) = firstn delimiter_size (frame q ++ y)) by (rewrite H; reflexivity).
      rewrite firstn_app in F. replace (delimiter_size - length d) with 0 in F by lia.
      rewrite firstn_O, app_nil_r in F. rewrite F. apply firstn_frame. }
    rewrite F, of_le64 by (unfold usize_ok, fits in *; lia).
    rewrite frame_length in L. unfold fits in Hfit. split; [exact S|]. lia.
  Qed.

  Lemma fits_same c c' p : maxb c' = maxb c -> fits c p -> fits c' p.
  Proof. unfold fits; intros ->; auto. Qed.
  Lemma good_same c c' ps : maxb c' = maxb c -> good c ps -> good c' ps.
  Proof.
    intros M H. unfold good in *. eapply Forall_impl; [|exact H].
    intros p (A & B). split; [eapply fits_same; eauto|exact B].
  Qed.
  Lemma tail_ok_same c c' t : maxb c' = maxb c -> tail_ok c t -> tail_ok c' t.
  Proof. intros M (q & y & A & B & C). exists q, y. split; [eapply fits_same; eauto|auto]. Qed.
  Lemma usize_ok_same c c' : maxb c' = maxb c -> usize_ok c -> usize_ok c'.
  Proof. unfold usize_ok; intros ->; auto. Qed.

  Definition bit (b : bool) : nat := if b then 1 else 0.

  Lemma owner_loop_delivers : forall fuel c s ps tail acc c' s' out,
    chan_inv c -> usize_ok c -> delimiter_size <= maxb c ->
    ineof s = false ->
    (rdy_r c = false -> inq s = []) ->
    good c ps -> tail_ok c tail ->
    dat (front c) ++ inq s = stream ps ++ tail ->
    length ps + 2 * length (inq s) + bit (rdy_r c) < fuel ->
    owner_loop decodable fuel c s acc = (c', s', out) ->
    out = acc ++ map Ok ps /\ dat (front c') = tail /\ inq s' = [] /\
    chan_inv c' /\ maxb c' = maxb c /\ int_r c' = true /\ ineof s' = false.
  Proof.
    induction fuel as [|f IH]; intros c s ps tail acc c' s' out
      Hinv Hus Hmx He Hrdy Hgood Htail Hwf Hfuel H; [lia|].
    cbn [owner_loop] in H.
    pose proof (read_message_rdy decodable c) as Hrr.
    destruct (read_message decodable c) as [c1 r1] eqn:Er. cbn [fst] in Hrr.
    (* what happens after a NothingRead with the pending data unchanged *)
    assert (Hwait :
      incomplete c (dat (front c)) ->
      (rdy_r c = false -> dat (front c) = stream ps ++ tail -> ps = []) ->
      (inq s = [] -> ps = []) ->
      out = acc ++ map Ok ps /\ dat (front c') = tail /\ inq s' = [] /\
      chan_inv c' /\ maxb c' = maxb c /\ int_r c' = true /\ ineof s' = false).
    { intros Hinc Hstop Hemp.
      destruct (read_message_incomplete decodable c c1 r1 Hinv Hmx Hinc Er) as (R & I1 & K1 & D1 & S1 & F1).
      subst r1. destruct K1 as (KB & KM & KI).
      rewrite F1, Hrr in H. cbn [andb] in H.
      destruct (rdy_r c) eqn:Erdy.
      - (* READABLE still ready: read more, then go round again *)
        destruct (readable c1 s) as [[c2 s2] r2] eqn:Erd.
        destruct (readable_spec c1 s c2 s2 r2 I1 Erd) as (I2 & (KB2 & KM2 & KI2) & Cons & E2 & _ & _).
        unfold readable in Erd. rewrite F1, Hrr in Erd. cbn [andb negb] in Erd.
        pose proof (readable_loop_progress _ _ _ _ _ _ _ Hrr He Erd) as (Lq & Zq).
        eapply (IH c2 s2 ps tail acc) in H; try assumption.
        + destruct H as (O & T & Q & I & M & Ir & Ee). splits; auto; congruence.
        + eapply usize_ok_same; [|exact Hus]. congruence.
        + congruence.
        + congruence.
        + eapply good_same; [|exact Hgood]. congruence.
        + eapply tail_ok_same; [|exact Htail]. congruence.
        + rewrite Cons, D1. exact Hwf.
        + assert (Hcase : inq s = [] \/ inq s <> []) by (destruct (inq s); [left; reflexivity|right; discriminate]).
          destruct Hcase as [Eq|Ne].
          * rewrite (readable_loop_empty _ c1 s 0 Eq He S1) in Erd. injection Erd as <- <- _.
            unfold_setters. rewrite Eq in Hfuel |- *. rewrite (Hemp Eq) in *. cbn [length bit] in *. lia.
          * assert (Lt : length (inq s2) < length (inq s)).
            { eapply readable_loop_first; [exact Hrr|exact He|exact Ne|exact S1|exact Erd]. }
            cbn [bit] in Hfuel. destruct (rdy_r c2); cbn [bit]; lia.
      - (* no longer ready: the turn ends; everything that arrived was consumed *)
        injection H as <- <- <-.
        specialize (Hrdy eq_refl). rewrite Hrdy, app_nil_r in Hwf.
        pose proof (Hstop eq_refl Hwf) as Hps. subst ps. unfold stream in Hwf. cbn [map concat app] in Hwf.
        cbn [map]. rewrite app_nil_r. splits; auto; congruence. }
    destruct ps as [|p ps'].
    - (* nothing complete is pending: the data is a strict prefix of a frame *)
      destruct Htail as (q & y & Fq & Eq & Lq).
      cbn [stream map concat app] in Hwf.
      apply Hwait; auto.
      eapply (strict_prefix_incomplete c (dat (front c)) (inq s ++ y) q []); auto.
      + rewrite app_assoc, Hwf, app_nil_r. exact Eq.
      + assert (length (dat (front c)) <= length tail) by (rewrite <- Hwf, app_length; lia). lia.
    - unfold stream in Hwf. cbn [map concat] in Hwf. rewrite <- app_assoc in Hwf.
      fold (stream ps') in Hwf.
      inversion Hgood as [|p0 l0 (Fp & Dp) Hgood']; subst.
      destruct (Nat.lt_ge_cases (length (dat (front c))) (length (frame p))) as [L|L].
      + (* the first frame is incomplete *)
        apply Hwait.
        * eapply (strict_prefix_incomplete c (dat (front c)) (inq s) p (stream ps' ++ tail)); eauto.
        * intros _ Hd. exfalso.
          unfold stream in Hd. cbn [map concat] in Hd. rewrite <- app_assoc in Hd.
          rewrite Hd, app_length in L. lia.
        * intros Hq. exfalso. rewrite Hq, app_nil_r in Hwf. rewrite Hwf, app_length in L. lia.
      + (* the first frame is complete: delivered, exactly once *)
        destruct (app_prefix_ge _ _ _ _ Hwf L) as (rest & Hd & Hrest).
        destruct (read_message_delivers decodable c p rest c1 r1 Hinv Hus Hd Fp Dp Er) as (R & I1 & (KB & KM & KI) & D1).
        subst r1.
        eapply (IH c1 s ps' tail (acc ++ [Ok p])) in H; try assumption.
        * destruct H as (O & T & Q & I & M & Ir & Ee). rewrite O, <- app_assoc. cbn [map app].
          splits; auto; congruence.
        * eapply usize_ok_same; [|exact Hus]. congruence.
        * congruence.
        * rewrite Hrr. exact Hrdy.
        * eapply good_same; [|exact Hgood']. congruence.
        * eapply tail_ok_same; [|exact Htail]. congruence.
        * rewrite D1. exact Hrest.
        * rewrite Hrr. cbn [length] in Hfuel. lia.
  Qed.
End Delivery.

Section Delivery2.
  Variable decodable : list N -> bool.

  Lemma owner_turn_delivers fuel c s ps tail c' s' out :
    chan_inv c -> usize_ok c -> delimiter_size <= maxb c ->
    ineof s = false -> int_r c = true -> rdy_r c = true ->
    good decodable c ps -> tail_ok c tail ->
    dat (front c) ++ inq s = stream ps ++ tail ->
    length ps + 2 * length (inq s) + 1 < fuel ->
    owner_turn decodable fuel c s = (c', s', out) ->
    out = map Ok ps /\ dat (front c') = tail /\ inq s' = [] /\
    chan_inv c' /\ maxb c' = maxb c /\ int_r c' = true /\ ineof s' = false.
  Proof.
    intros Hinv Hus Hmx He Hi Hr Hgood Htail Hwf Hfuel H.
    unfold owner_turn in H. rewrite Hi, Hr in H. cbn [andb negb] in H.
    destruct (readable c s) as [[c1 s1] r1] eqn:Erd.
    destruct (readable_spec c s c1 s1 r1 Hinv Erd) as (I1 & (KB & KM & KI) & Cons & E1 & _ & _).
    unfold readable in Erd. rewrite Hi, Hr in Erd. cbn [andb negb] in Erd.
    pose proof (readable_loop_progress _ _ _ _ _ _ _ Hr He Erd) as (Lq & Zq).
    eapply (owner_loop_delivers decodable fuel c1 s1 ps tail []) in H; try assumption.
    - destruct H as (O & T & Q & I & M & Ir & Ee). splits; auto; congruence.
    - eapply usize_ok_same; [|exact Hus]. congruence.
    - congruence.
    - congruence.
    - eapply good_same; [|exact Hgood]. congruence.
    - eapply tail_ok_same; [|exact Htail]. congruence.
    - rewrite Cons. exact Hwf.
    - destruct (rdy_r c1); cbn [bit]; lia.
  Qed.

  Lemma empty_tail_ok c : delimiter_size <= maxb c -> tail_ok c [].
  Proof.
    intros H. exists [], (frame []). unfold fits. cbn [length app]. rewrite frame_length. cbn [length].
    repeat split; [lia| rewrite delim_eq; lia].
  Qed.

  Lemma feed_delivers : forall chunks fuel c s ps,
    chan_inv c -> usize_ok c -> delimiter_size <= maxb c ->
    ineof s = false -> int_r c = true -> inq s = [] ->
    good decodable c ps ->
    dat (front c) ++ concat chunks = stream ps ->
    (ps = [] -> dat (front c) = []) ->
    (forall q ps', ps = q :: ps' -> length (dat (front c)) < length (frame q)) ->
    length ps + 2 * length (concat chunks) + 1 < fuel ->
    feed decodable fuel c s chunks = map Ok ps.
  Proof.
    induction chunks as [|ch rest IH]; intros fuel c s ps Hinv Hus Hmx He Hi Hq Hgood Hwf Hnil Hhd Hfuel.
    - cbn [feed concat] in *. rewrite app_nil_r in Hwf.
      destruct ps as [|q ps']; [reflexivity|exfalso].
      specialize (Hhd q ps' eq_refl). unfold stream in Hwf. cbn [map concat] in Hwf.
      rewrite Hwf, app_length in Hhd. lia.
    - cbn [feed concat] in *. rewrite Hq. cbn [app].
      rewrite app_assoc in Hwf.
      destruct (prefix_split ps (dat (front c) ++ ch) (concat rest) Hwf)
        as (ps1 & ps2 & tail & Eps & Ew & Ez & Tnil & Thd).
      subst ps.
      assert (Hg1 : good decodable c ps1 /\ good decodable c ps2) by (apply Forall_app; exact Hgood).
      destruct Hg1 as (Hg1 & Hg2).
      assert (Htail : tail_ok c tail).
      { destruct ps2 as [|q ps2'].
        - rewrite (Tnil eq_refl). apply empty_tail_ok, Hmx.
        - specialize (Thd q ps2' eq_refl).
          unfold stream in Ez. cbn [map concat] in Ez.
          symmetry in Ez. destruct (app_prefix_ge _ _ _ _ Ez ltac:(lia)) as (y & Ey & _).
          inversion Hg2 as [|q0 l0 (Fq & _) _]; subst.
          exists q, y. auto. }
      set (c0 := handle_events c true false).
      set (s0 := {| inq := ch; ineof := ineof s; wsched := wsched s; outq := outq s |}).
      destruct (owner_turn decodable fuel c0 s0) as [[c2 s2] out] eqn:Et.
      assert (Ht : out = map Ok ps1 /\ dat (front c2) = tail /\ inq s2 = [] /\
                   chan_inv c2 /\ maxb c2 = maxb c0 /\ int_r c2 = true /\ ineof s2 = false).
      { assert (P1 : chan_inv c0) by apply chan_inv_handle_events, Hinv.
        assert (P2 : usize_ok c0) by exact Hus.
        assert (P3 : delimiter_size <= maxb c0) by exact Hmx.
        assert (P4 : ineof s0 = false) by exact He.
        assert (P5 : int_r c0 = true) by exact Hi.
        assert (P6 : rdy_r c0 = true) by (unfold c0; unfold_setters; apply orb_true_r).
        assert (P7 : good decodable c0 ps1) by exact Hg1.
        assert (P8 : tail_ok c0 tail) by exact Htail.
        assert (P9 : dat (front c0) ++ inq s0 = stream ps1 ++ tail) by exact Ew.
        assert (P10 : length ps1 + 2 * length (inq s0) + 1 < fuel).
        { unfold s0; cbn [inq]. rewrite !app_length in Hfuel. lia. }
        exact (owner_turn_delivers fuel c0 s0 ps1 tail c2 s2 out P1 P2 P3 P4 P5 P6 P7 P8 P9 P10 Et). }
      destruct Ht as (O & T & Q & I & M & Ir & Ee). subst out.
      assert (M' : maxb c2 = maxb c) by (rewrite M; reflexivity).
      rewrite map_app. f_equal.
      apply IH; auto.
      + eapply usize_ok_same; [|exact Hus]. exact M'.
      + rewrite M'. exact Hmx.
      + eapply good_same; [|exact Hg2]. exact M'.
      + rewrite T. exact Ez.
      + rewrite T. exact Tnil.
      + rewrite T. exact Thd.
      + rewrite !app_length in Hfuel. lia.
  Qed.

  (** THE delivery theorem.  Any list of decodable messages whose frames fit
      the ceiling, cut into ANY chunks (any sizes, any number, including one
      byte at a time or everything at once), on a fresh channel of ANY initial
      size: the owner sees exactly those messages, once each, in order, and no
      error. *)
  Theorem delivery_any_chunking_lemma :
    forall (ps : list (list N)) (chunks : list (list N)) (init max fuel : nat),
      init <= max -> delimiter_size <= max -> (N.of_nat max < 2 ^ 64)%N ->
      Forall (fun p => delimiter_size + length p <= max /\ decodable p = true) ps ->
      concat chunks = stream ps ->
      length ps + 2 * length (stream ps) + 1 < fuel ->
      feed decodable fuel (new_chan init max) empty_sock chunks = map Ok ps.
  Proof.
    intros ps chunks init max fuel Hi Hm Hu Hg Hc Hf.
    apply feed_delivers.
    - apply new_chan_inv, Hi.
    - exact Hu.
    - exact Hm.
    - reflexivity.
    - reflexivity.
    - reflexivity.
    - exact Hg.
    - exact Hc.
    - reflexivity.
    - intros q ps' _. cbn [new_chan front with_capacity dat length]. rewrite frame_length, delim_eq. lia.
    - rewrite Hc. exact Hf.
  Qed.
End Delivery2.
