(** C17 — property theorems (statements only; proofs are in C17/Proofs.v). *)
From Coq Require Import List Arith NArith ZArith Lia.
From SV Require Import Common.Trie C17.Model C17.Proofs.
Import ListNotations.

Theorem sorted_insert_grows_by_one : forall x l, length (ins_sorted x l) = S (length l).
Proof. exact ins_sorted_length. Qed.
