"""Tiny helpers to read specific Rust constructs (used by the C01/C02 translators).

Not a Rust front-end: comment/string stripping, brace matching, function body
lookup, and a parser for `if c {..} else if c {..} else {..}` chains whose
conditions are boolean combinations (!, &&, ||, parentheses) of atoms.
Every helper raises `Unrecognised` when the source does not have the expected
shape; the caller turns that into a failed tie.
"""
import re


class Unrecognised(Exception):
    pass


def strip(src):
    """Replace comments by spaces and the *contents* of string/char literals by
    nothing (the quotes stay), keeping line structure."""
    out = []
    i, n = 0, len(src)
    while i < n:
        c = src[i]
        if src.startswith("//", i):
            j = src.find("\n", i)
            j = n if j < 0 else j
            i = j
        elif src.startswith("/*", i):
            depth, j = 1, i + 2
            while j < n and depth:
                if src.startswith("/*", j):
                    depth += 1
                    j += 2
                elif src.startswith("*/", j):
                    depth -= 1
                    j += 2
                else:
                    if src[j] == "\n":
                        out.append("\n")
                    j += 1
            i = j
        elif c == '"':
            j = i + 1
            while j < n and src[j] != '"':
                if src[j] == "\\":
                    j += 1
                if j < n and src[j] == "\n":
                    out.append("\n")
                j += 1
            out.append('""')
            i = j + 1
        elif c == "r" and re.match(r'r#*"', src[i:]) and (i == 0 or not (src[i - 1].isalnum() or src[i - 1] == "_")):
            m = re.match(r'r(#*)"', src[i:])
            close = '"' + m.group(1)
            j = src.find(close, i + len(m.group(0)))
            if j < 0:
                raise Unrecognised("unterminated raw string")
            out.append('""')
            out.append("\n" * src.count("\n", i, j))
            i = j + len(close)
        elif c == "'":
            # char literal or lifetime
            m = re.match(r"'(\\.[^']*|[^\\'])'", src[i:])
            if m:
                out.append("'c'")
                i += len(m.group(0))
            else:
                out.append(c)
                i += 1
        else:
            out.append(c)
            i += 1
    return "".join(out)


def match_brace(s, i, open_="{", close="}"):
    """s[i] == open_; returns the index of the matching close."""
    if s[i] != open_:
        raise Unrecognised("expected %r at %d" % (open_, i))
    depth = 0
    for j in range(i, len(s)):
        if s[j] == open_:
            depth += 1
        elif s[j] == close:
            depth -= 1
            if depth == 0:
                return j
    raise Unrecognised("unbalanced %s" % open_)


def fn_body(stripped, name, after=0):
    """Body (without the outer braces) of the first `fn name` found at/after `after`."""
    m = re.compile(r"\bfn\s+" + re.escape(name) + r"\b").search(stripped, after)
    if not m:
        raise Unrecognised("fn %s not found" % name)
    i = m.end()
    # skip generics/params/return type up to the body's opening brace at paren depth 0
    depth = 0
    while i < len(stripped):
        c = stripped[i]
        if c in "(<[":
            depth += 1 if c != "<" else 0
        elif c in ")]":
            depth -= 1
        elif c == "{" and depth == 0:
            break
        elif c == ";" and depth == 0:
            raise Unrecognised("fn %s has no body" % name)
        i += 1
    j = match_brace(stripped, i)
    return stripped[i + 1:j], i + 1


def block_after(s, pattern, start=0):
    """Text inside the first `{...}` that follows the regex `pattern`."""
    m = re.compile(pattern).search(s, start)
    if not m:
        raise Unrecognised("pattern %r not found" % pattern)
    i = s.find("{", m.end())
    if i < 0:
        raise Unrecognised("no block after %r" % pattern)
    j = match_brace(s, i)
    return s[i + 1:j], i + 1, j


def match_arms(body):
    """Split the inside of a `match x { ... }` into [(pattern text, arm body text)].
    Arm bodies are either `{...}` blocks or expressions up to a top-level comma."""
    arms = []
    i, n = 0, len(body)
    while i < n:
        while i < n and body[i] in " \t\r\n,":
            i += 1
        if i >= n:
            break
        # pattern up to `=>` at depth 0
        depth, j = 0, i
        while j < n:
            c = body[j]
            if c in "({[":
                depth += 1
            elif c in ")}]":
                depth -= 1
            elif body.startswith("=>", j) and depth == 0:
                break
            j += 1
        if j >= n:
            raise Unrecognised("match arm without =>: %r" % body[i:i + 60])
        pat = " ".join(body[i:j].split())
        k = j + 2
        while k < n and body[k] in " \t\r\n":
            k += 1
        if k < n and body[k] == "{":
            e = match_brace(body, k)
            arms.append((pat, body[k + 1:e]))
            i = e + 1
        else:
            depth, e = 0, k
            while e < n:
                c = body[e]
                if c in "({[":
                    depth += 1
                elif c in ")}]":
                    depth -= 1
                elif c == "," and depth == 0:
                    break
                e += 1
            arms.append((pat, body[k:e]))
            i = e + 1
    return arms


# ---------------------------------------------------------------------------
# if-chains -> decision trees

def _find_top_if(text):
    """Index of the first `if` keyword at brace/paren depth 0, or -1."""
    depth = 0
    for m in re.finditer(r"[(){}\[\]]|\bif\b", text):
        t = m.group(0)
        if t in "({[":
            depth += 1
        elif t in ")}]":
            depth -= 1
        elif depth == 0:
            return m.start()
    return -1


def parse_block(text):
    """-> tree: ('leaf', text) | ('if', cond_text, then_tree, else_tree).
    Statements around a top-level if are kept: their text is appended to every
    leaf below (order: before-text, leaf text, after-text)."""
    i = _find_top_if(text)
    if i < 0:
        return ("leaf", text)
    before = text[:i]
    j = i + 2
    # condition up to `{` at paren depth 0
    depth, k = 0, j
    while k < len(text):
        c = text[k]
        if c in "([":
            depth += 1
        elif c in ")]":
            depth -= 1
        elif c == "{" and depth == 0:
            break
        k += 1
    cond = " ".join(text[j:k].split())
    if cond.startswith("let "):
        raise Unrecognised("`if let` inside a decision block: %r" % cond[:60])
    e = match_brace(text, k)
    then_t = parse_block(text[k + 1:e])
    rest = text[e + 1:]
    m = re.match(r"\s*else\b", rest)
    if m:
        r2 = rest[m.end():]
        m2 = re.match(r"\s*if\b", r2)
        if m2:
            # else-if: the remainder (this if and whatever follows it)
            else_t = parse_block(r2)
            after = ""
        else:
            b = r2.find("{")
            if b < 0 or r2[:b].strip():
                raise Unrecognised("malformed else: %r" % r2[:40])
            be = match_brace(r2, b)
            else_t = parse_block(r2[b + 1:be])
            after = r2[be + 1:]
    else:
        else_t = ("leaf", "")
        after = rest
    if _find_top_if(after) >= 0:
        # a second, independent if at the same level: sequence them
        after_t = parse_block(after)
        return _seq(_wrap(("if", cond, then_t, else_t), before, ""), after_t)
    return _wrap(("if", cond, then_t, else_t), before, after)


def _wrap(tree, before, after):
    if not before.strip() and not after.strip():
        return tree
    if tree[0] == "leaf":
        return ("leaf", before + tree[1] + after)
    return ("if", tree[1], _wrap(tree[2], before, after), _wrap(tree[3], before, after))


def _seq(t1, t2):
    """every leaf of t1 continues with t2"""
    if t1[0] == "leaf":
        return _wrap(t2, t1[1], "")
    return ("if", t1[1], _seq(t1[2], t2), _seq(t1[3], t2))


def parse_cond(text, atoms):
    """Boolean expression over `atoms` (list of (regex, name)).
    -> ('atom', name) | ('not', e) | ('or', a, b) | ('and', a, b)"""
    flat = text.replace("()", "")
    toks = re.findall(r"\|\||&&|!(?!=)|\(|\)|[A-Za-z_][\w.\[\]:]*", flat)
    if "".join(toks) != "".join(flat.split()):
        raise Unrecognised("condition has tokens outside the expected vocabulary: %r" % text)
    pos = [0]

    def peek():
        return toks[pos[0]] if pos[0] < len(toks) else None

    def eat():
        pos[0] += 1
        return toks[pos[0] - 1]

    def p_or():
        a = p_and()
        while peek() == "||":
            eat()
            a = ("or", a, p_and())
        return a

    def p_and():
        a = p_not()
        while peek() == "&&":
            eat()
            a = ("and", a, p_not())
        return a

    def p_not():
        if peek() == "!":
            eat()
            return ("not", p_not())
        if peek() == "(":
            eat()
            a = p_or()
            if eat() != ")":
                raise Unrecognised("unbalanced condition %r" % text)
            return a
        t = eat()
        if t is None:
            raise Unrecognised("empty condition in %r" % text)
        for rx, name in atoms:
            if re.fullmatch(rx, t):
                return ("atom", name)
        raise Unrecognised("unknown condition atom %r in %r" % (t, text))

    e = p_or()
    if pos[0] != len(toks):
        raise Unrecognised("trailing tokens in condition %r" % text)
    return e


# ---------------------------------------------------------------------------
# reading values instead of spelling: let-bindings, boolean expressions compared
# by truth table, the guard under which a statement runs

def _scan_depth(s):
    """yields (index, char, depth) with depth counting () [] {}"""
    d = 0
    for i, c in enumerate(s):
        if c in "([{":
            d += 1
            yield i, c, d - 1
        elif c in ")]}":
            d -= 1
            yield i, c, d
        else:
            yield i, c, d


def let_bindings(body):
    """{name: expr} for every `let [mut] name[: T] = expr;` of the text (any depth; first wins)."""
    out = {}
    for m in re.finditer(r"\blet\s+(?:mut\s+)?(\w+)\s*(?::[^=;]+)?=(?!=)", body):
        i, d = m.end(), 0
        j = i
        while j < len(body):
            c = body[j]
            if c in "([{":
                d += 1
            elif c in ")]}":
                if d == 0:
                    break
                d -= 1
            elif c == ";" and d == 0:
                break
            j += 1
        out.setdefault(m.group(1), " ".join(body[i:j].split()))
    return out


def expand(expr, binds, depth=4):
    """replace let-bound identifiers (not fields / paths / calls) by their parenthesised definitions"""
    for _ in range(depth):
        changed = [False]

        def sub(m):
            n = m.group(0)
            if n in binds and binds[n] != n:
                changed[0] = True
                return "(" + binds[n] + ")"
            return n
        expr = re.sub(r"(?<![\w.:&])(?<!\.\s)\b[a-z_]\w*\b(?!\s*(?:\(|::|!|\{|:))", sub, expr)
        if not changed[0]:
            break
    return expr


def split_top(s, op):
    """split at the operator `op` ('&&' / '||') outside every bracket"""
    parts, last, d, i = [], 0, 0, 0
    while i < len(s):
        c = s[i]
        if c in "([{":
            d += 1
        elif c in ")]}":
            d -= 1
        elif d == 0 and s.startswith(op, i):
            parts.append(s[last:i])
            i += len(op)
            last = i
            continue
        i += 1
    parts.append(s[last:])
    return parts


def parse_bool(text, classify, binds=None, _depth=0):
    """boolean expression -> ('atom', name) | ('not', e) | ('and'|'or', a, b) | ('const', bool).
    classify(leaf_text) -> name | ('not', e) | True | False | None (None: Unrecognised).
    A leaf that is not recognised as it stands is looked up in `binds` (a let-bound name stands for
    its definition), then retried with the let-bound names inside it expanded."""
    binds = binds or {}
    def p_or(s):
        ps = split_top(s, "||")
        e = p_and(ps[0])
        for p in ps[1:]:
            e = ("or", e, p_and(p))
        return e

    def p_and(s):
        ps = split_top(s, "&&")
        e = p_un(ps[0])
        for p in ps[1:]:
            e = ("and", e, p_un(p))
        return e

    def p_un(s):
        s = s.strip()
        if not s:
            raise Unrecognised("empty operand in condition %r" % text)
        if s[0] == "!" and not s.startswith("!="):
            return ("not", p_un(s[1:]))
        if s[0] == "(" and match_brace(s, 0, "(", ")") == len(s) - 1:
            return p_or(s[1:-1])
        c = classify(s)
        if c is None and re.fullmatch(r"\w+", s) and s in binds and _depth < 4:
            return parse_bool(binds[s], classify, binds, _depth + 1)
        if c is None and binds:
            c = classify(expand(s, binds))
        if c is None:
            raise Unrecognised("unknown condition atom %r in %r" % (s, text))
        if c is True or c is False:
            return ("const", c)
        if isinstance(c, tuple):
            return c
        return ("atom", c)
    return p_or(" ".join(text.split()))


def bool_atoms(e, acc=None):
    acc = set() if acc is None else acc
    if e[0] == "atom":
        acc.add(e[1])
    elif e[0] != "const":
        for x in e[1:]:
            bool_atoms(x, acc)
    return acc


def bool_eval(e, env):
    if e[0] == "atom":
        return env[e[1]]
    if e[0] == "const":
        return e[1]
    if e[0] == "not":
        return not bool_eval(e[1], env)
    if e[0] == "and":
        return bool_eval(e[1], env) and bool_eval(e[2], env)
    return bool_eval(e[1], env) or bool_eval(e[2], env)


def bool_equiv(a, b):
    import itertools
    names = sorted(bool_atoms(a) | bool_atoms(b))
    for vals in itertools.product([False, True], repeat=len(names)):
        env = dict(zip(names, vals))
        if bool_eval(a, env) != bool_eval(b, env):
            return False
    return True


def bool_implies(a, b):
    return bool_equiv(("or", ("not", a), b), ("const", True))


def enclosing_guard(body, pos):
    """The condition (text, conjunction of the `if` / `else` guards, innermost first) under which the
    statement at `pos` runs, looking only at the if/else blocks of `body` that enclose it.
    `else` branches contribute the negation of their chain's conditions.  `if let` / `match` arms
    are ignored (they do not contribute)."""
    guards = []
    # stack of block openers enclosing pos
    stack = []
    for i, c, d in _scan_depth(body[:pos]):
        if c == "{":
            stack.append(i)
        elif c == "}":
            if stack:
                stack.pop()
    for ob in reversed(stack):
        g = _guard_of_block(body, ob)
        if g is not None:
            guards.append(g)
    return guards


def _cond_before(body, ob):
    """for a block opened at `ob` by `if COND {`: (COND, index of the `if`) else None"""
    # walk back to the `if` at bracket depth 0 relative to ob
    d, i = 0, ob - 1
    while i >= 0:
        c = body[i]
        if c in ")]":
            d += 1
        elif c in "([":
            if d == 0:
                return None
            d -= 1
        elif c in "{};" and d == 0:
            break
        i -= 1
    seg = body[i + 1:ob]
    m = re.match(r"\s*(?:else\s+)?if\b(.*)$", seg, re.S)
    if not m:
        return None
    cond = " ".join(m.group(1).split())
    if cond.startswith("let "):
        return None
    return cond, i + 1 + seg.index("if")


def _guard_of_block(body, ob):
    head = body[:ob].rstrip()
    if head.endswith("else"):
        # negation of every condition of the chain
        conds = []
        k = len(head) - 4
        while True:
            prev = body[:k].rstrip()
            if not prev.endswith("}"):
                return None
            # find the opener of that block
            close = len(prev) - 1
            depth, j = 0, close
            while j >= 0:
                if body[j] == "}":
                    depth += 1
                elif body[j] == "{":
                    depth -= 1
                    if depth == 0:
                        break
                j -= 1
            cb = _cond_before(body, j)
            if cb is None:
                return None
            conds.append(cb[0])
            before_if = body[:cb[1]].rstrip()
            if before_if.endswith("else"):
                k = len(before_if) - 4
                continue
            break
        return "!(" + ") && !(".join(conds) + ")"
    cb = _cond_before(body, ob)
    if cb is None:
        return None
    cond, ifpos = cb
    before_if = body[:ifpos].rstrip()
    if before_if.endswith("else"):
        # `else if COND {`: COND and the negation of the chain before it
        neg = _guard_of_block(body, ifpos)
        return "(" + cond + ")" + (" && " + neg if neg else "")
    return cond
