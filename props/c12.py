"""C12 — traffic only goes to backends that are eligible right now."""
import os, re, subprocess
import vlib
from vlib import Case

ID = "C12"
COQ_DIRS = ["Common", "C12"]
COQ_TARGETS = ["C12/Props.vo", "C12/Run.vo"]
PROPS_MODULES = ["C12.Props"]
RUN_MODULE = "C12.Run"
RUN_FN = "run_case"
HARNESS_BIN = "c12"
HARNESS_BINS = ["c12", "c16bb"]
SHRINK_KEEP = ("ohash", "oscore", "bb")
CLAIMED = True
RULE = ("cases: histories over 2 clusters, 7 addresses, 3 backend ids, 3 sticky ids of add / re-add (same "
        "(address,id): config update) / remove of the backend (id, address) with siblings on the same address, health-check results with thresholds 1-3 and health "
        "reset, connection failures (back-off windows of seeded length) / successes / forced down+waiting states, "
        "clock advances, inc/dec/close of connections incl. unmatched decrements and Closing backends, request "
        "counts, policy changes over the six policies (Maglev with prime tables 2..31 and the production size), "
        "interleaved with keyed / unkeyed selections, sticky look-ups, the connect entry points (try_connect, "
        "backend_from_cluster_id, backend_from_sticky_session, with one address the kernel refuses synchronously) "
        "and full state dumps; health-checker histories (c*): the real HealthChecker over scripted backends (200, 503, close, "
        "refuse, hang, half a status line) with the clock aged through the hook, backends removed / re-added with "
        "a probe in flight, configuration removed and set again. Non-trivial and "
        "distinct: >=2 selections with >=2 different candidate lists, one of them reached through a health / "
        "back-off / closing / backup change (a non-default eligibility state), distinct by op text.")
ASSUMPTIONS = [
    "the Maglev permutation hashes of an address and the HRW score of (key,address,weight) are data: read from the real code (cfg(sozu_verif) accessors) by `c12 --oracle`, re-verified by the driver on every case, quantified over in the theorems",
    "Random / PowerOfTwo draws are not modelled: the model returns the set the draw is taken from; the implementation's picks (16 resp. 64 draws) must lie in it (Random) / be exactly it (PowerOfTwo's two candidates)",
    "time: one model second = 100000 real seconds; fail()/succeed()/can_try()/is_down() are the real ones; the random window length fail() draws is checked against its range and replaced (hook) by the case's; a clock advance ages every policy's last_try (hook); Instant::now() jitter (<< 1 model second per case) cannot change an outcome",
    "connect outcomes are environment data: a non-blocking tcp connect to a loopback address answers Ok (EINPROGRESS), to 255.255.255.255 fails synchronously (ENETUNREACH in tcp_v4_connect); the driver re-checks this on every connect",
    "health checker: the real HealthChecker runs on a mio Poll against scripted loopback TCP servers (200, 503, close after accept, refuse, hang after accept, half a status line); its clock is aged by the case's `advance` through the cfg(sozu_verif) hook (started_at of the probes in flight, last_check_time), one model second = 100000 real seconds, so the per-cluster jitter on the interval (0 < jitter < interval/5) is strictly inside one model second (the driver checks this for the case's interval) and a round starts after interval+1 whole model seconds; the strict `elapsed > timeout` is `>=` on whole model seconds because real time has advanced by an instant; a backend that floods the reader (more than MAX_HEALTH_RESPONSE_SIZE, delivered in 256-byte reads per edge-triggered event) is in the model as an immediate failure but left out of the generated cases: when its verdict arrives depends on socket buffering, not on the checker; TLS / h2c probes are not exercised (plain HTTP/1.1 GET only)",
    "LoadMetric::ConnectionTime: the cost (active_connections + 1) * rtt of peak_ewma_connection is modelled and the pick of LeastLoaded / PowerOfTwo compared exactly, with the decay of the estimate towards lower values over wall-clock time switched off (the driver sets the public field PeakEWMA::decay to infinity on every backend it creates: exp(-elapsed/decay) = 1, so observe() keeps the peak); connect times are case data reported through the real Backend::set_connection_time; the 65537-slot production Maglev table is modelled over a binary trie proved equal slot for slot to the list-based rebuild, and compared slot by slot with the real table in dedicated cases (the same rebuild code is compared slot by slot at table sizes 2..31)",
]
TRUSTED = ["translator props/c12.py:translate reads facts, not spelling (comments and assertions stripped, functions found by name, named constants resolved, either operand order / operator or method form, locals free, one-level private helpers followed; a construct it cannot recognise is reported as `unreadable:` and the tie for that run is the correspondence check on the larger search batch, see TRANSLATE_FALLBACK); it compares DEFAULT_TABLE_SIZE, DEFAULT_WEIGHT, the max_tries of Backend::new, the bodies of can_open / is_available / the fail-open filter and the statements of ExponentialBackoffPolicy::{fail,can_try} with lib/src/{backends,load_balancing,retry}.rs, and for the health checker the order deadline-before-readiness-gate in progress_checks, the in-flight filter and the jittered-interval test of initiate_checks, and the address look-up / thresholds of record_check_result with lib/src/health_check.rs"]


# ---------------------------------------------------------------------------
# The translator reads FACTS (a number, an operator, an order), not spelling: comments are stripped, functions
# are found by name with brace matching, locals / private names are `\w+`, `a < b` = `b > a` = `a.lt(&b)`, a named
# constant is looked up (`const NAME: T = value;`), a sub-expression may sit in a one-level private helper.
# A construct that is found and is not the modelled one is a HARD failure (when in doubt: hard).  Only for the
# pins listed in SOFT_PINS — each with a stored breaking variant in an unreadable spelling that the correspondence
# run catches (harmless/C12_*_unreadable_changed) — a construct that cannot be found at all is reported as
# `unreadable: ...` (see TRANSLATE_FALLBACK); for every other pin "not found" is a hard failure too.

SOFT_PINS = ("retry.fail.early_return", "retry.fail.anchor", "retry.can_try", "health.progress_checks.order")


def _nf(pin, msg):
    """message for a construct that was not found at all"""
    return ("unreadable: " if pin in SOFT_PINS else "not recognised: ") + msg

import rustmini


def _src(rel):
    return rustmini.strip(open(os.path.join(vlib.REPO, rel)).read())


def _ws(s):
    return re.sub(r"\s+", " ", s).strip()


def _no_asserts(text):
    """drop assert!/debug_assert*!( ... ) invocations (their comparisons are not the code's decisions)"""
    out, i = [], 0
    for m in re.finditer(r"\b(?:debug_)?assert(?:_eq|_ne)?!\s*\(", text):
        if m.start() < i:
            continue
        out.append(text[i:m.start()])
        try:
            i = rustmini.match_brace(text, m.end() - 1, "(", ")") + 1
        except rustmini.Unrecognised:
            i = m.end()
    out.append(text[i:])
    return "".join(out)


def _body(src, name, after=0):
    """body of `fn name` (comments already stripped, assertions dropped), or None"""
    try:
        return _no_asserts(rustmini.fn_body(src, name, after)[0])
    except rustmini.Unrecognised:
        return None


def _consts(src):
    out = {}
    for m in re.finditer(r"\bconst\s+(\w+)\s*:\s*[\w:<>]+\s*=\s*([^;]+);", src):
        out[m.group(1)] = _ws(m.group(2))
    return out


def _num(tok, consts):
    """integer value of a literal (1, 1u64, 65_537) or of a named constant (Self::X, X), else None"""
    tok = tok.strip()
    tok = re.sub(r"^(Self|self|\w+)::", "", tok) if not re.match(r"^\d", tok) else tok
    seen = 0
    while tok in consts and seen < 4:
        tok = consts[tok]
        seen += 1
    m = re.fullmatch(r"(\d[\d_]*)(?:_?(?:u|i)(?:8|16|32|64|128|size))?", tok)
    return int(m.group(1).replace("_", "")) if m else None


_FLIP = {"<": ">", "<=": ">=", ">": "<", ">=": "<="}
_METH = {"lt": "<", "le": "<=", "gt": ">", "ge": ">="}


def _cmp(text, A, B):
    """the comparison between the expressions matched by regexes A and B in `text`, as the operator of `A op B`
    (whichever way round and in operator or method form it is written), with its position; or (None, -1)"""
    op = r"(<=|>=|<|>)"
    for rx, f in [
        (r"(?:%s)\s*%s\s*(?:%s)" % (A, op, B), lambda o: o),
        (r"(?:%s)\s*%s\s*(?:%s)" % (B, op, A), lambda o: _FLIP[o]),
        (r"(?:%s)\s*\.\s*(lt|le|gt|ge)\(\s*&?\s*(?:%s)\s*\)" % (A, B), lambda o: _METH[o]),
        (r"(?:%s)\s*\.\s*(lt|le|gt|ge)\(\s*&?\s*(?:%s)\s*\)" % (B, A), lambda o: _FLIP[_METH[o]]),
    ]:
        m = re.search(rx, text)
        if m:
            return f(m.group(1)), m.start()
    return None, -1


def _locals_bound_to(body, rhs_rx):
    """names of the locals bound by `let x = <rhs>;` with rhs matching rhs_rx"""
    return [m.group(1) for m in re.finditer(r"\blet\s+(?:mut\s+)?(\w+)(?:\s*:\s*[^=;]+)?\s*=\s*(?:%s)\s*;" % rhs_rx, body)]


def _alt(base_rx, names):
    return "|".join([base_rx] + [r"\b%s\b" % re.escape(n) for n in names])


NORMAL = r"(?:\w+\.status\s*==\s*(?:\w+::)*BackendStatus::Normal|(?:\w+::)*BackendStatus::Normal\s*==\s*\w+\.status|matches!\(\s*\w+\.status\s*,\s*(?:\w+::)*BackendStatus::Normal\s*\))"
OKAY = r"(?:\w+::)*RetryAction::OKAY"


def _read_retry(fails):
    rt = _src("lib/src/retry.rs")
    consts = _consts(rt)
    m = re.search(r"impl\s+RetryPolicy\s+for\s+ExponentialBackoffPolicy", rt)
    if not m:
        fails.append(_nf("retry.can_try", "retry.rs: `impl RetryPolicy for ExponentialBackoffPolicy` not found (model: retry_fail / can_try)"))
        return
    fl = _body(rt, "fail", m.end())
    if fl is None:
        fails.append(_nf("retry.fail.early_return", "retry.rs: ExponentialBackoffPolicy::fail not found (model: retry_fail)"))
    else:
        el = _alt(r"self\.last_try\.elapsed\(\)", _locals_bound_to(fl, r"self\.last_try\.elapsed\(\)"))
        # 1. inside a window fail() changes nothing: `if elapsed < wait { return; }`
        op, pos = _cmp(fl, el, r"self\.wait")
        blk = re.match(r"[^{;]*\{([^{}]*)\}", fl[pos:]) if op else None
        if op is None:
            fails.append(_nf("retry.fail.early_return", "retry.rs: fail(): no comparison of last_try.elapsed() with wait (model: `if last_try.elapsed() < wait { return; }`)"))
        elif not blk or not re.search(r"\breturn\b", blk.group(1)):
            fails.append("retry.rs: fail() compares last_try.elapsed() with wait but no longer returns there (model: a failure inside a window changes nothing)")
        elif op != "<":
            fails.append("retry.rs: fail() returns early when last_try.elapsed() %s wait (model: <: a failure inside a window changes nothing, one at its end opens the next)" % op)
        # 2. the window is anchored at the failure
        if not re.search(r"self\.last_try\s*=\s*(?:\w+::)*Instant::now\(\)", fl):
            if re.search(r"self\.last_try\s*=[^=]", fl):
                fails.append("retry.rs: fail() sets last_try to something else than Instant::now() (model: the window starts at the failure)")
            else:
                fails.append(_nf("retry.fail.anchor", "retry.rs: fail(): `self.last_try = Instant::now()` not found (model: the window starts at the failure)"))
        # 3. tries saturate at max_tries
        m3 = (re.search(r"self\.current_tries\s*=\s*(?:\w+::)*min\(\s*self\.current_tries\s*\+\s*(\w+)\s*,\s*self\.max_tries\s*\)", fl)
              or re.search(r"self\.current_tries\s*=\s*(?:\w+::)*min\(\s*self\.max_tries\s*,\s*self\.current_tries\s*\+\s*(\w+)\s*\)", fl)
              or re.search(r"self\.current_tries\s*=\s*\(\s*self\.current_tries\s*\+\s*(\w+)\s*\)\s*\.min\(\s*self\.max_tries\s*\)", fl)
              or re.search(r"self\.current_tries\s*=\s*self\.max_tries\s*\.min\(\s*self\.current_tries\s*\+\s*(\w+)\s*\)", fl))
        if not m3:
            fails.append(_nf("retry.fail.saturate", "retry.rs: fail(): `current_tries = min(current_tries + 1, max_tries)` not found"))
        elif _num(m3.group(1), consts) != 1:
            fails.append("retry.rs: fail() no longer counts one try per failure (model: current_tries + 1, saturating at max_tries)")
        # 4. the window length is drawn from [1, 2^tries)
        m4 = re.search(r"random_range\(\s*([\w:]+)\s*(\.\.=?)\s*(\w+)\s*\)", fl)
        if not m4:
            fails.append(_nf("retry.fail.window", "retry.rs: fail(): `random_range(1..max_secs)` not found (model: window in [1, 2^tries))"))
        else:
            lo, rng_op, hi = m4.group(1), m4.group(2), m4.group(3)
            hb = re.search(r"\blet\s+(?:mut\s+)?%s(?:\s*:\s*[^=;]+)?\s*=\s*([^;]+);" % re.escape(hi), fl)
            if _num(lo, consts) is None or not hb:
                fails.append(_nf("retry.fail.window", "retry.rs: fail(): the bounds of random_range(%s%s%s) could not be read (model: [1, 2^tries))" % (lo, rng_op, hi)))
            elif _num(lo, consts) != 1 or rng_op != "..":
                fails.append("retry.rs: fail() draws the window from %s%s%s (model: 1..2^tries, upper bound excluded)" % (lo, rng_op, hi))
            elif not re.search(r"\b1(?:u64|_u64)?\s*\.\s*checked_shl\(\s*self\.current_tries\b|\b1(?:u64|_u64)?\s*<<\s*self\.current_tries\b|\b2(?:u64|_u64)?\s*\.\s*(?:checked_|saturating_)?pow\(\s*self\.current_tries\b", hb.group(1)):
                fails.append(_nf("retry.fail.window", "retry.rs: fail(): the upper bound `%s` is not recognised as 2^current_tries: %s" % (hi, _ws(hb.group(1))[:120])))
    ct = _body(rt, "can_try", m.end())
    if ct is None:
        fails.append(_nf("retry.can_try", "retry.rs: ExponentialBackoffPolicy::can_try not found (model: wait <= now - last_try)"))
    else:
        el = _alt(r"self\.last_try\.elapsed\(\)", _locals_bound_to(ct, r"self\.last_try\.elapsed\(\)"))
        op, pos = _cmp(ct, el, r"self\.wait")
        br = re.match(r"[^{;]*\{\s*((?:\w+::)*RetryAction::\w+)\s*\}\s*else\s*\{\s*((?:\w+::)*RetryAction::\w+)\s*\}", ct[pos:]) if op else None
        if op is None:
            fails.append(_nf("retry.can_try", "retry.rs: can_try(): no comparison of last_try.elapsed() with wait (model: OKAY exactly when elapsed >= wait)"))
        elif not br:
            fails.append("retry.rs: can_try() compares last_try.elapsed() with wait but not as `if .. { OKAY } else { WAIT }` (model: OKAY exactly when elapsed >= wait)")
        else:
            first, second = br.group(1).split("::")[-1], br.group(2).split("::")[-1]
            if (op, first, second) not in ((">=", "OKAY", "WAIT"), ("<", "WAIT", "OKAY")):
                fails.append("retry.rs: can_try() answers %s when last_try.elapsed() %s wait, else %s (model: OKAY exactly when elapsed >= wait)" % (first, op, second))


def _read_backends(fails):
    be = _src("lib/src/backends.rs")
    consts = _consts(be)
    main = be.split("#[cfg(test)]")[0]
    tries = [_num(x, consts) for x in re.findall(r"ExponentialBackoffPolicy::new\(\s*([\w:]+)\s*\)", main)]
    if not tries or None in tries:
        fails.append(_nf("backends.max_tries", "backends.rs: the max_tries Backend::new gives its ExponentialBackoffPolicy could not be read (model: 6)"))
    elif set(tries) != {6}:
        fails.append("backends.rs: Backend::new uses ExponentialBackoffPolicy::new(%s) (model: 6)" % sorted(set(tries)))
    # can_open = healthy && Normal && can_try() == OKAY, in whatever control-flow form
    co = _body(be, "can_open")
    if co is None:
        fails.append(_nf("backends.can_open", "backends.rs: Backend::can_open not found (model: healthy && Normal && can_try()==OKAY)"))
    else:
        atoms = [r"self\.health\.is_healthy\(\)", NORMAL.replace(r"\w+\.status", r"self\.status"), r"self\.retry_policy\.can_try\(\)", OKAY]
        odd = [r"\|\|", r"!=", r"BackendStatus::Clos", r"RetryAction::WAIT", r"\btrue\b", r"is_down"]
        if not all(re.search(a, co) for a in atoms) or any(re.search(x, co) for x in odd) \
                or not re.search(r"!\s*self\.health\.is_healthy\(\)\s*\{\s*return\s+false\s*;?\s*\}|self\.health\.is_healthy\(\)\s*&&", co):
            fails.append(_nf("backends.can_open", "backends.rs: Backend::can_open is not recognised as `healthy && Normal && can_try()==OKAY`: " + _ws(co)[:200]))
    ia = _body(be, "is_available")
    if ia is None:
        fails.append(_nf("backends.is_available", "backends.rs: Backend::is_available not found (model: healthy && Normal && !is_down())"))
    else:
        atoms = [r"self\.health\.is_healthy\(\)", NORMAL.replace(r"\w+\.status", r"self\.status"), r"!\s*self\.retry_policy\.is_down\(\)"]
        if not all(re.search(a, ia) for a in atoms) or re.search(r"\|\||!=|BackendStatus::Clos|!\s*self\.health", ia):
            fails.append(_nf("backends.is_available", "backends.rs: Backend::is_available is not recognised as `healthy && Normal && !is_down()`: " + _ws(ia)[:200]))
    # the fail-open filter of next_available_backend: Normal && can_try() == OKAY (health ignored)
    ok1 = r"matches!\(\s*(\w+)\.retry_policy\.can_try\(\)\s*,\s*Some\(\s*%s\s*\)\s*\)" % OKAY
    ok2 = r"(\w+)\.retry_policy\.can_try\(\)\s*==\s*Some\(\s*%s\s*\)" % OKAY
    found = False
    for okrx in (ok1, ok2):
        for mm in re.finditer(okrx, main):
            v = mm.group(1)
            around = main[max(0, mm.start() - 160):mm.end() + 160]
            if re.search(NORMAL.replace(r"\w+\.status", re.escape(v) + r"\.status"), around) and "is_healthy" not in around:
                found = True
    if not found:
        fails.append(_nf("backends.fail_open", "backends.rs: the fail-open filter `status == Normal && can_try() == Some(OKAY)` not found (model: fail_open_ok)"))


def _read_lb(fails):
    lb = _src("lib/src/load_balancing.rs")
    consts = _consts(lb)
    for name, want, why in [("DEFAULT_TABLE_SIZE", 65537, "prime_65537, the production Maglev table"), ("DEFAULT_WEIGHT", 100, "weight_of")]:
        if name not in consts:
            fails.append(_nf("lb.const", "load_balancing.rs: const %s not found (model: %d, %s)" % (name, want, why)))
        elif _num(name, consts) != want:
            fails.append("load_balancing.rs: %s is %s (model: %d, %s)" % (name, consts[name], want, why))


def _helper_with(src, body, upto, rx):
    """position in `body[:upto]` of a call to a function of the same file whose body matches rx (one level), or -1"""
    for m in re.finditer(r"\b(\w+)\s*\(", body[:upto] if upto >= 0 else body):
        hb = _body(src, m.group(1))
        if hb is not None and m.group(1) not in ("progress_checks",) and re.search(rx, hb):
            return m.start()
    return -1


def _read_health(fails):
    hs = _src("lib/src/health_check.rs")
    # 1. deadlines are acted on whether or not the socket is ready: the ORDER deadline test -> readiness gate
    pc = _body(hs, "progress_checks")
    if pc is None:
        fails.append(_nf("health.progress_checks.order", "health_check.rs: progress_checks not found (model: progress_timeouts needs no readiness)"))
    else:
        started = r"\w+\.duration_since\(\s*\w+\.started_at\s*\)|\w+\.started_at\.elapsed\(\)|\w+\.saturating_duration_since\(\s*\w+\.started_at\s*\)"
        A = _alt(started, _locals_bound_to(pc, started))
        op, dpos = _cmp(pc, A, r"\w+\.timeout")
        if op is None:
            # one level of private helper: `if check.is_overdue(now)` / `if Self::timed_out(check, now)`
            for m in re.finditer(r"\b(\w+)\s*\(", pc):
                hb = _body(hs, m.group(1)) if m.group(1) != "progress_checks" else None
                if hb is not None:
                    hop, _ = _cmp(hb, _alt(started, _locals_bound_to(hb, started)), r"\w+\.timeout")
                    if hop:
                        op, dpos = hop, m.start()
                        break
        g = re.search(r"\w+\s*\.\s*contains\(\s*&\s*\w+\.token\s*\)", pc)
        gpos = g.start() if g else -1
        if g is None:
            for m in re.finditer(r"\b(\w+)\s*\(", pc):
                hb = _body(hs, m.group(1)) if m.group(1) != "progress_checks" else None
                if hb is not None and re.search(r"\.\s*contains\(\s*&\s*\w+(?:\.token)?\s*\)", hb) and "ready" in hb:
                    gpos = m.start()
                    break
        if op is None or gpos < 0:
            fails.append(_nf("health.progress_checks.order", "health_check.rs: progress_checks: %s not found (model: a probe past its deadline fails at the next poll, ready or not)"
                             % ("the deadline test `now - started_at > timeout`" if op is None else "the readiness gate `ready.contains(&check.token)`")))
        elif dpos > gpos:
            fails.append("health_check.rs: progress_checks tests the deadline after the readiness gate: a silent backend's probe never ends (model: progress_timeouts needs no readiness)")
        elif op != ">":
            fails.append("health_check.rs: progress_checks fails a probe when now - started_at %s timeout (model: >)" % op)
    # 2. a round probes the Normal backends without a probe in flight for (cluster, backend id)
    ic = _body(hs, "initiate_checks")
    if ic is None:
        fails.append(_nf("health.initiate", "health_check.rs: initiate_checks not found (model: initiate_cluster)"))
    else:
        flt = re.search(r"!\s*self\s*\.\s*in_flight\s*\.\s*iter\(\)\s*\.\s*any\(\s*\|\s*(\w+)\s*\|(.{0,200}?)\)\s*\}?\s*\)", ic, re.S)
        inner = flt.group(2) if flt else ""
        if not (flt and re.search(r"%s\.cluster_id\s*==|==\s*%s\.cluster_id" % (flt.group(1), flt.group(1)), inner)
                and re.search(r"%s\.backend_id\s*==|==\s*%s\.backend_id" % (flt.group(1), flt.group(1)), inner)
                and "&&" in inner and "||" not in inner and re.search(NORMAL, ic)):
            fails.append(_nf("health.initiate", "health_check.rs: initiate_checks: the filter `status == Normal && !in_flight.any(same cluster && same backend id)` not found (model: initiate_cluster)"))
        last = r"\w+\.duration_since\(\s*\*?\s*\w+\s*\)|\w+\.elapsed\(\)"
        op, pos = _cmp(ic, last, r"\w*interval\w*")
        jit = re.search(r"\blet\s+(\w+)\s*=\s*\w+\s*\+\s*(?:\w+::)*Duration::from_millis\(\s*\w+\s*\)", ic)
        if op is None or not jit:
            fails.append(_nf("health.initiate", "health_check.rs: initiate_checks: `now - last >= interval + jitter` not found (model: a round starts after interval + 1 whole model seconds)"))
        elif op != ">=":
            fails.append("health_check.rs: initiate_checks starts a round when now - last %s interval + jitter (model: >=)" % op)
    # 3. a verdict reaches the backend found by address in the cluster's list, with the configured thresholds
    rc = _body(hs, "record_check_result")
    if rc is None:
        fails.append(_nf("health.record", "health_check.rs: record_check_result not found (model: record_result)"))
    else:
        if not re.search(r"\.\s*find_backend\(\s*&?\s*\w+\s*\)", rc):
            fails.append(_nf("health.record", "health_check.rs: record_check_result: the look-up `backend_list.find_backend(&address)` not found (model: record_result by address)"))
        su = re.search(r"\.record_success\(\s*(?:\w+\.)?(\w+)\s*\)", rc)
        fa = re.search(r"\.record_failure\(\s*(?:\w+\.)?(\w+)\s*\)", rc)
        names = (su.group(1) if su else None, fa.group(1) if fa else None)
        if names == ("unhealthy_threshold", "healthy_threshold") or names[0] == "unhealthy_threshold" or names[1] == "healthy_threshold":
            fails.append("health_check.rs: record_check_result applies %s to a success and %s to a failure (model: healthy_threshold / unhealthy_threshold)" % names)
        elif names != ("healthy_threshold", "unhealthy_threshold"):
            fails.append(_nf("health.record", "health_check.rs: record_check_result: record_success(healthy_threshold) / record_failure(unhealthy_threshold) not found"))
    # 4. removing a cluster drops its probes
    rm = _body(hs, "remove_cluster")
    mm = rm and re.search(r"\.\s*in_flight\s*\.\s*retain\(\s*\|\s*(\w+)\s*\|\s*(?:\1\.cluster_id(?:\.as_str\(\))?\s*(==|!=)\s*\*?\w+|\*?\w+\s*(==|!=)\s*\1\.cluster_id(?:\.as_str\(\))?)\s*\)", rm)
    if not mm:
        fails.append(_nf("health.remove", "health_check.rs: remove_cluster: `in_flight.retain(|c| c.cluster_id != cluster_id)` not found (model: hc_remove)"))
    elif (mm.group(2) or mm.group(3)) != "!=":
        fails.append("health_check.rs: remove_cluster keeps exactly the removed cluster's probes (model: hc_remove drops them)")


def translate():
    fails = []
    for reader in (_read_lb, _read_backends, _read_retry, _read_health):
        try:
            reader(fails)
        except (OSError, rustmini.Unrecognised, re.error, IndexError, AttributeError) as ex:
            fails.append("not recognised: %s: %s" % (reader.__name__, ex))
    return fails


TRANSLATE_FALLBACK = ("every fact the translator reads is observed by the correspondence run on every batch: the policy constants "
                      "(65537-slot production table compared slot by slot, default weight in the HRW scores / Maglev tables, max_tries "
                      "in every dump), can_open / is_available / the fail-open filter (the exact candidate list of every selection over "
                      "healthy x status x back-off states, observed through a recording policy), fail() / can_try() (the real policy "
                      "with its clock aged to the second: window anchor, early return, saturation, window length checked against "
                      "[1, 2^tries), retry state in every dump), and the health checker's order deadline-before-readiness, in-flight "
                      "filter, interval, look-up by address, thresholds and remove_cluster (the real HealthChecker over silent / "
                      "answering scripted backends: probes in flight after every pump, counters in every dump, oracles "
                      "probe-not-terminated / two-probes-in-flight)")


# ---------------------------------------------------------------------------

ADDRS = list(range(7))          # 6 is an IPv6 address
CONN_ADDRS = [0, 1, 2, 3, 4, 5, 7]   # 7 refuses a tcp connect synchronously; cases that connect avoid 6
ALL_ADDRS = list(range(8))
IDS = [0, 1, 2]
STICKY = [0, 1, 2]
KEYS = [0, 1, 5, 12345, 2 ** 32 + 7, 2 ** 63 + 11, 2 ** 64 - 1]
WEIGHTS = [None, None, 0, -3, 1, 50, 100, 300]
SIZES = [2, 3, 5, 7, 13, 31]
KINDS = ["rr", "random", "least", "p2c", "hrw", "maglev"]

_ORACLE = {}


def oracle():
    """real hashes / scores for the pools, from `c12 --oracle` (the binary is built before cases are generated)"""
    if _ORACLE:
        return _ORACLE
    exe = vlib.harness_path(HARNESS_BIN)
    os.makedirs(os.path.join(vlib.BUILD, "run", ID), exist_ok=True)
    q = os.path.join(vlib.BUILD, "run", ID, "oracle_%d.txt" % os.getpid())
    with open(q, "w") as f:
        for a in ALL_ADDRS:
            f.write("hash %d\n" % a)
        for k in KEYS:
            for a in ALL_ADDRS:
                for w in set(WEIGHTS):
                    f.write("score %d %d %d %d\n" % (k, a, 0 if w is None else 1, 0 if w is None else w))
    out = subprocess.run([exe, "--oracle", q], capture_output=True, text=True, timeout=120).stdout
    os.remove(q)
    for line in out.splitlines():
        w = line.split()
        if w[0] == "hash":
            _ORACLE[("h", int(w[1]))] = (int(w[2]), int(w[3]))
        elif w[0] == "score":
            _ORACLE[("s", int(w[1]), int(w[2]), None if w[3] == "0" else int(w[4]))] = int(w[5])
    return _ORACLE


def with_oracle(ops):
    """prepend the oracle data the ops need (stripping any stale ones)"""
    ops = [op for op in ops if op[0] not in ("ohash", "oscore")]
    orc = oracle()
    pairs, keys = [], []
    for op in ops:
        if op[0] == "add":
            p = (op[3], None if op[5] == 0 else op[6])
            if p not in pairs:
                pairs.append(p)
        elif op[0] == "select" and op[2] >= 0 and op[2] not in keys:
            keys.append(op[2])
    uses_mag = any(op[0] == "policy" and op[2] == "maglev" for op in ops)
    uses_hrw = any(op[0] == "policy" and op[2] == "hrw" for op in ops)
    pre = []
    if uses_mag:
        for a in sorted(set(p[0] for p in pairs)):
            h = orc[("h", a)]
            pre.append(["ohash", a, h[0], h[1]])
    if uses_hrw:
        for k in keys:
            for (a, w) in pairs:
                pre.append(["oscore", k, a, 0 if w is None else 1, 0 if w is None else w, orc[("s", k, a, w)]])
    return pre + ops


class Gen:
    def __init__(self, rng, conn=False):
        self.rng = rng
        self.conn = conn
        self.addrs = CONN_ADDRS if conn else ADDRS
        self.lists = [[], []]      # per cluster: [(addr, id, handle)]
        self.nh = 0
        self.ops = []
        self.kind = ["random", "random"]
        self.timed = [False, False]

    def add(self, c, a=None, i=None):
        r = self.rng
        if a is None and i is None and self.lists[c] and r.random() < 0.15:
            # a sibling: another backend of the cluster on an address already used (A/B variant), a different id
            a, i0, _ = r.choice(self.lists[c])
            i = r.choice([x for x in IDS if x != i0])
        if a is None:
            a = r.choice(self.addrs if r.random() < 0.3 else self.addrs[:4])
        if i is None:
            i = r.choice(IDS if r.random() < 0.3 else IDS[:1]) if r.random() < 0.7 else a % 3
        w = r.choice(WEIGHTS)
        st = r.choice(STICKY) if r.random() < 0.5 else -1
        bk = r.choice([0, 0, 0, 1, 1, 2])
        self.ops.append(["add", c, i, a, st, 0 if w is None else 1, 0 if w is None else w, bk])
        if not any(x[0] == a and x[1] == i for x in self.lists[c]):
            self.lists[c].append((a, i, self.nh))
            self.nh += 1

    def remove(self, c):
        r = self.rng
        # the backend (id, address): mostly one that is there, sometimes a wrong id on a used address / an unused address
        if self.lists[c] and r.random() < 0.8:
            a, i, _ = r.choice(self.lists[c])
            if r.random() < 0.12:
                i = r.choice(IDS)
        else:
            a, i = r.choice(self.addrs), r.choice(IDS)
        self.ops.append(["remove", c, i, a])
        self.lists[c] = [x for x in self.lists[c] if not (x[0] == a and x[1] == i)]

    def policy(self, c, kind=None):
        r = self.rng
        kind = kind or r.choice(KINDS)
        size = 0
        if kind == "maglev":
            size = r.choice(SIZES)
        self.kind[c] = kind
        m = r.choice([0, 0, 1, 2, 2, 3])   # 2: peak connection time cost (connections + 1) * rtt, 3: default
        self.timed[c] = m == 2 and kind in ("least", "p2c")
        self.ops.append(["policy", c, kind, m, size])

    def handle(self):
        return self.rng.randrange(self.nh)

    def some_addr(self, c):
        r = self.rng
        return r.choice([x[0] for x in self.lists[c]]) if self.lists[c] and r.random() < 0.85 else r.choice(self.addrs)

    def select(self, c):
        r = self.rng
        keyed = self.kind[c] in ("hrw", "maglev") and r.random() < 0.8 or r.random() < 0.15
        self.ops.append(["select", c, r.choice(KEYS[:4] if r.random() < 0.6 else KEYS) if keyed else -1])

    def step(self, c):
        r = self.rng
        x = r.random()
        if self.conn and r.random() < 0.22:
            # the entry points that select and then connect; only with a policy whose pick is not a random draw
            w = r.choice([1, 1, 2, 3, 5, 8])
            det = self.kind[c] in ("rr", "least", "hrw", "maglev")
            y = r.random()
            if y < 0.4 and self.nh:
                self.ops.append(["connect", self.handle(), w])
            elif y < 0.75 and det:
                self.ops.append(["select_conn", c, w])
            elif det:
                self.ops.append(["sticky_conn", c, r.choice(STICKY), w])
            return
        if self.nh and r.random() < (0.15 if any(self.timed) else 0.02):
            # a connect time reported for a backend; with 1..4 connections these values tie: 2*50 = 1*100, 3*50 = 2*75 = 1*150
            self.ops.append(["rtt", self.handle(), r.choice([1, 40, 50, 50, 75, 100, 150, 300]) * 1000000])
            return
        if x < 0.25:
            self.select(c)
        elif x < 0.33:
            self.add(c)
        elif x < 0.37 and self.lists[c]:
            a, i, _ = r.choice(self.lists[c])      # re-add: config update in place
            self.add(c, a, i)
        elif x < 0.43:
            self.remove(c)
        elif x < 0.53:
            self.ops.append(["health", c, self.some_addr(c), r.choice([0, 0, 0, 1, 1]), r.choice([1, 1, 2, 3])])
        elif x < 0.55:
            self.ops.append(["health_reset", c])
        elif x < 0.63 and self.nh:
            self.ops.append(["fail", self.handle(), r.choice([1, 1, 2, 3, 5, 8, 31])])
        elif x < 0.67 and self.nh:
            self.ops.append(["succeed", self.handle()])
        elif x < 0.69 and self.nh:
            self.ops.append(["force", self.handle(), r.choice([0, 1, 5, 6, 6]), r.choice([0, 0, 2, 10])])
        elif x < 0.75:
            self.ops.append(["advance", r.choice([1, 1, 2, 3, 5, 40])])
        elif x < 0.81 and self.nh:
            self.ops.append(["inc", self.handle()])
        elif x < 0.86 and self.nh:
            self.ops.append(["dec", self.handle()])
        elif x < 0.88:
            self.ops.append(["close", c, self.some_addr(c)])
        elif x < 0.90 and self.nh:
            self.ops.append(["reqs", self.handle(), r.choice([0, 1, 2, 7])])
        elif x < 0.915 and self.nh:
            self.ops.append(["closing", self.handle()])
        elif x < 0.95:
            self.policy(c)
        elif x < 0.98:
            self.ops.append(["sticky", c, r.choice(STICKY)])
        else:
            self.ops.append(["dump"])


def history_case(rng, cid, focus=None):
    g = Gen(rng, conn=rng.random() < 0.5)
    main = rng.choice([0, 0, 0, 1])
    if rng.random() < 0.85:
        g.policy(main, focus)
    for _ in range(rng.randint(1, 5)):
        g.add(main)
    if rng.random() < 0.3:
        g.policy(1 - main)
        g.add(1 - main)
    if focus and g.kind[main] != focus:
        g.policy(main, focus)
    for _ in range(rng.randint(8, 45)):
        c = main if rng.random() < 0.85 else 1 - main
        g.step(c)
        if rng.random() < 0.12:
            g.ops.append(["dump"])
    # end of traffic: every open connection is closed (the driver checks the counters are back to zero)
    g.select(main)
    g.ops.append(["sticky", main, rng.choice(STICKY)])
    g.ops.append(["dump"])
    return Case(cid, with_oracle(g.ops), {})


def sibling_case(rng, cid):
    """two (or three) backends of one cluster on one address with different ids; one is removed (RemoveBackend names
    id and address); the others stay in the list and are selected from then on; then a wrong id, then the rest"""
    g = Gen(rng, conn=False)
    c = rng.choice([0, 0, 1])
    g.policy(c, rng.choice(["rr", "rr", "least", "random", "hrw", "maglev"]))
    a = rng.choice(ADDRS[:6])
    ids = rng.sample(IDS, rng.choice([2, 2, 3]))
    for i in ids:
        g.add(c, a, i)
    if rng.random() < 0.5:
        g.add(c)                                    # somebody else in the cluster
    g.select(c)
    gone = ids.pop(rng.randrange(len(ids)))
    g.ops.append(["remove", c, gone, a])
    g.lists[c] = [x for x in g.lists[c] if not (x[0] == a and x[1] == gone)]
    for _ in range(3):
        g.select(c)
    g.ops.append(["remove", c, gone, a])            # again: nothing left to remove
    g.ops.append(["remove", c, ids[0], rng.choice([x for x in ADDRS[:6] if x != a])])   # right id, wrong address
    g.select(c)
    g.ops.append(["dump"])
    for i in ids:
        g.ops.append(["remove", c, i, a])
        g.lists[c] = [x for x in g.lists[c] if not (x[0] == a and x[1] == i)]
        g.select(c)
    g.ops.append(["dump"])
    return Case(cid, with_oracle(g.ops), {})


HC_ADDRS = [10, 11, 12, 13, 14, 15]      # 10..14: scripted servers of the driver, 15: nobody listens


def hc_history(rng, cid):
    """the real HealthChecker over scripted backends: answering 200 / 503, closing, refusing, hanging
    after accept, sending half a status line; probes started, deduplicated, timed out, thresholds crossed, backends
    removed / re-added with a probe in flight, the configuration removed and set again"""
    g = Gen(rng)
    g.addrs = HC_ADDRS
    c = 0
    g.ops.append(["policy", c, rng.choice(["rr", "least", "random"]), 0, 0])
    g.kind[c] = g.ops[-1][2]
    for a in rng.sample(HC_ADDRS, rng.randint(2, 4)):
        g.add(c, a, rng.choice(IDS))
    for a in HC_ADDRS[:5]:
        if rng.random() < 0.6:
            g.ops.append(["server", a, rng.choice([0, 0, 1, 2, 3, 3, 4])])

    def config():
        g.ops.append(["hc_config", c, rng.choice([1, 1, 2, 3]), rng.choice([1, 2, 2, 3]), rng.choice([1, 1, 2, 3]),
                      rng.choice([1, 1, 2, 3]), rng.choice([0, 0, 0, 200, 503])])
    config()
    for _ in range(rng.randint(8, 30)):
        x = rng.random()
        if x < 0.30:
            g.ops.append(["pump"])
        elif x < 0.55:
            g.ops.append(["advance", rng.choice([1, 1, 1, 2, 3])])
            g.ops.append(["pump"])
        elif x < 0.65:
            g.ops.append(["server", rng.choice(HC_ADDRS[:5]), rng.choice([0, 0, 1, 2, 3, 3, 4])])
        elif x < 0.72:
            g.add(c, rng.choice(HC_ADDRS), rng.choice(IDS))
        elif x < 0.78:
            g.remove(c)
        elif x < 0.86:
            g.select(c)
        elif x < 0.89 and g.nh:
            g.ops.append(["closing", g.handle()])
        elif x < 0.92:
            g.ops.append(["hc_remove", c])
            if rng.random() < 0.7:
                config()
        elif x < 0.95:
            config()
        else:
            g.ops.append(["dump"])
        if rng.random() < 0.2:
            g.ops.append(["dump"])
    g.ops += [["advance", 3], ["pump"], ["advance", 3], ["pump"], ["dump"]]
    g.select(c)
    return Case(cid, g.ops, {})


def production_case(rng, cid):
    """the production Maglev table (65537 slots): a few backend sets, every slot compared"""
    g = Gen(rng)
    for _ in range(rng.randint(1, 4)):
        g.add(0)
    g.ops.append(["policy", 0, "maglev", 0, 0])     # size 0: set_load_balancing_policy, DEFAULT_TABLE_SIZE
    g.kind[0] = "maglev"
    g.ops.append(["table", 0])
    for _ in range(rng.randint(1, 3)):
        x = rng.random()
        if x < 0.5:
            g.add(0)
        elif x < 0.75:
            g.remove(0)
        else:
            g.ops.append(["health", 0, g.some_addr(0), 0, 1])
        for _ in range(rng.randint(1, 3)):
            g.ops.append(["select", 0, rng.choice(KEYS)])
    g.ops.append(["table", 0])
    g.ops.append(["dump"])
    return Case(cid, with_oracle(g.ops), {})


def gen_cases(rng, tier):
    n = {"quick": 2000, "thorough": 60000, "search": 12000}.get(tier, 2000)
    out = []
    for i in range(n):
        focus = [None, None] + KINDS
        out.append(history_case(rng, "h%d" % i, focus[i % len(focus)]))
    for i in range({"quick": 2, "thorough": 40}.get(tier, 2)):
        out.append(production_case(rng, "m%d" % i))
    for i in range({"quick": 200, "thorough": 6000, "search": 1500}.get(tier, 200)):
        out.append(hc_history(rng, "c%d" % i))
    for i in range({"quick": 100, "thorough": 3000, "search": 600}.get(tier, 100)):
        out.append(sibling_case(rng, "s%d" % i))
    return out


def corpus_cases():
    d = os.path.join(vlib.ROOT, "corpus", ID)
    out = []
    if os.path.isdir(d):
        for f in sorted(os.listdir(d)):
            if f.endswith(".case"):
                for c in vlib.parse_cases(open(os.path.join(d, f)).read()):
                    c.id = "k" + c.id
                    try:
                        c.ops = with_oracle(c.ops)      # hash / score data always from the current code
                    except Exception:
                        pass
                    out.append(c)
    return out


def extra_stage(tier, rng, work):
    """thin black-box tier (the worker of C16's c16bb, through the `bb` op of the driver): after real sessions over
    HTTP/1, TLS, HTTP/2, WebSocket and TCP the backend snapshot hook must show what the model says the session code
    does to a backend: a refused connect is recorded (tries >= 1, failures >= 1), tries never exceed the maximum nor
    decrease without a success, is_down <=> tries >= max, a served request resets the policy, a revived backend is
    used again once its back-off window allows (thorough) and is then reset, and every backend's connection /
    request counts are zero when traffic has ended"""
    if tier == "thorough":
        cfgs = [(rng.randrange(1, 10 ** 6), mx, 0, 40, 0, 0, "k", 1) for mx in (2, 5, 8)] + \
               [(rng.randrange(1, 10 ** 6), 5, 0, 24, 0, 0, "k0_1_4_18_16_13_7_19", 1)]
    else:
        cfgs = [(rng.randrange(1, 10 ** 6), 5, 0, 10, 0, 0, "k0_1_4_18_16_13_8_7_19", 0)]
    cases = [Case("bb%d" % i, [["bb"] + list(c)], {}) for i, c in enumerate(cfgs)]
    outs, problems = vlib.run_harness(HARNESS_BIN, cases, os.path.join(work, "bb"), "release", timeout=1200, shards=len(cases))
    viols, fails, done = [], list(problems), 0
    for c in cases:
        o = outs.get(c.id)
        if o is None:
            fails.append("black-box case %s produced no output" % c.id)
            continue
        if o["panic"] is not None:
            viols.append((c, "panic", o["panic"]))
        for (vc, vt) in o["viol"]:
            viols.append((c, vc, vt))
        if not any(n.startswith("bb:") or n.startswith("invalid-case") for n in o["notes"]):
            done += 1
        for n in o["notes"]:
            if n.startswith("invalid-case"):
                fails.append("black-box case %s: %s" % (c.id, n))
    return dict(failures=fails, viols=viols, coverage=dict(blackbox_runs=len(cases), blackbox_completed=done))


def nontrivial(case, o):
    cands = set()
    for op, ob in zip(case.ops, o["obs"]):
        if op[0] == "select" and ob:
            n = ob[0]
            cands.add(tuple(ob[1:1 + n]))
    if any(op[0] == "hc_config" for op in case.ops):      # health-checker histories: a probe timed out and a backend changed health
        flights = [ob for op, ob in zip(case.ops, o["obs"]) if op[0] == "pump" and ob]
        return any(ob[0] >= 1 for ob in flights) and any(ob[0] == 0 for ob in flights)
    special = any(op[0] in ("health", "fail", "force", "closing") or (op[0] == "add" and op[7] == 1) for op in case.ops)
    return len([1 for op in case.ops if op[0] == "select"]) >= 2 and len(cands) >= 2 and special


LEVEL_TEXT = ("Machine-checked proof (Coq 8.16) over an executable model of Backend / BackendList / the back-off "
              "policy / HealthState and the six load-balancing policies: every selection of every history returns an "
              "eligible backend (or the documented fail-open one), backups only without primaries, sticky wins, "
              "affinity is stable, the Maglev table is total after every rebuild with a prime size (65537 proved prime), counters balance; "
              "the health checker (probe life-cycle with the clock as a parameter): every probe ends by the first poll at or after its deadline "
              "whatever the backend does, health flips exactly at the consecutive-result thresholds, never two probes in flight for one backend, "
              "a removed backend is never marked; the model is tied "
              "to lib/src/{backends,load_balancing,retry,health_check}.rs on every run by a predicate/constant translator and a "
              "differential correspondence run of the real BackendMap against the extracted model, with the property's "
              "own oracle evaluated on the implementation.")
LEVEL_NOTE = ("Trusted: Coq kernel; extraction + ocaml/driver.ml for the correspondence only; hash values and HRW "
              "scores are data read from the real code; the health checker's network is scripted loopback servers and its clock is aged through a hook (what a probe's socket does under real network loss / TLS is not covered); Random/PowerOfTwo draws compared by membership; the PeakEWMA cost is modelled without "
              "its wall-clock decay; what the session code does to the "
              "backend it was given (inc/dec/fail/succeed call sites) is checked black-box through a real worker and "
              "the backend snapshot hook, not proved.")
TECHNIQUE = "Rocq/Coq proof over an executable Gallina model + differential correspondence (extracted OCaml vs real crate)"
