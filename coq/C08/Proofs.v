(** C08 — lemmas. *)
From Coq Require Import List String Bool Arith Lia.
From SV Require Import C08.Base C08.Gen C08.Model.
Import ListNotations.

Definition all_one : bool :=
  forallb (fun a => Nat.eqb (answers fallback_answers a) 1) arms_table &&
  Nat.eqb (answers fallback_answers none_row) 1.

(** the generated table, checked by computation: every variant, one final answer *)
Lemma all_arms_one_final : all_one = true.
Proof. vm_compute. reflexivity. Qed.

Lemma answers_of_one : forall name, answers_of name = 1.
Proof.
  intros name. pose proof all_arms_one_final as H. unfold all_one in H.
  apply andb_true_iff in H. destruct H as [Ht Hn]. unfold answers_of, lookup.
  destruct (find (fun a => String.eqb (a_name a) name) arms_table) as [a|] eqn:E.
  - apply find_some in E. destruct E as [Hin _].
    rewrite forallb_forall in Ht. apply Nat.eqb_eq. apply Ht. exact Hin.
  - apply Nat.eqb_eq. exact Hn.
Qed.

Lemma stream_is_ids : forall reqs, stream reqs = map fst reqs.
Proof.
  induction reqs as [|[id v] reqs IH]; [reflexivity|].
  unfold stream in *. cbn [flat_map map fst snd]. rewrite answers_of_one. cbn [repeat app]. rewrite IH. reflexivity.
Qed.

Lemma count_occ_map_fst : forall (reqs : list (nat * string)) id,
    NoDup (map fst reqs) -> In id (map fst reqs) -> count_occ Nat.eq_dec (map fst reqs) id = 1.
Proof.
  intros reqs id Hnd Hin. apply NoDup_count_occ' with (decA := Nat.eq_dec) in Hin; assumption.
Qed.
