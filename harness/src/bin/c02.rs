//! C02 driver (in-process tier): a real `Stream` from a real `Pool`, the real
//! `end_stream_decision`, `set_default_answer`, `forcefully_terminate_answer`
//! (through the add-only hook `mux::answers::verif`) and the listener's
//! default `HttpAnswers` templates.
use std::{cell::RefCell, collections::BTreeMap, rc::Rc};

use mio::Token;
use rusty_ulid::Ulid;
use sozu_command_lib::ready::Ready;
use sozu_lib::{
    pool::Pool,
    protocol::{
        http::{answers::HttpAnswers, editor::HttpContext},
        mux::{answers::verif, Stream, StreamState},
    },
    Protocol, Readiness,
};
use verif_harness::*;

struct St {
    _pool: Rc<RefCell<Pool>>,
    stream: Stream,
    readiness: Readiness,
    answers: HttpAnswers,
}

fn new_st() -> St {
    let pool = Rc::new(RefCell::new(Pool::with_capacity(4, 8, 16_393)));
    let ctx = HttpContext::new(
        Ulid::generate(),
        Ulid::generate(),
        Protocol::HTTP,
        "127.0.0.1:8080".parse().unwrap(),
        Some("127.0.0.1:40000".parse().unwrap()),
        "SOZUBALANCEID".to_string(),
        "Sozu-Id".to_string(),
        false,
        false,
    );
    let stream = Stream::new(Rc::downgrade(&pool), ctx, 65_535).expect("pool checkout");
    let answers = HttpAnswers::new(&BTreeMap::new()).expect("default templates");
    St { _pool: pool, stream, readiness: Readiness::new(), answers }
}

fn state_num(s: StreamState) -> i128 {
    match s {
        StreamState::Idle => 0,
        StreamState::Link => 1,
        StreamState::Linked(_) => 2,
        StreamState::Unlinked => 3,
        StreamState::Recycle => 4,
    }
}

fn phase_num(p: &kawa::ParsingPhase) -> i128 {
    use kawa::ParsingPhase as P;
    match p {
        P::StatusLine => 0,
        P::Headers => 1,
        P::Cookies { .. } => 2,
        P::Body => 3,
        P::Chunks { .. } => 4,
        P::Trailers => 5,
        P::Terminated => 6,
        P::Error { .. } => 7,
    }
}

fn st_toks(st: &St) -> Vec<Tok> {
    let s = &st.stream;
    vec![
        tn(state_num(s.state)),
        tn(phase_num(&s.back.parsing_phase)),
        tbool(s.back.consumed),
        tbool(!s.back.is_completed()),
        tbool(s.front.consumed),
        tbool(s.context.keep_alive_backend),
        tbool(st.readiness.interest.is_writable()),
        tbool(st.readiness.event.is_writable()),
    ]
}

/// bytes an H1 client would receive for the response buffer as it stands
fn render(stream: &mut Stream) -> Vec<u8> {
    let kawa = &mut stream.back;
    kawa.prepare(&mut kawa::h1::BlockConverter);
    let buf = kawa.storage.buffer();
    let mut out = vec![];
    for b in kawa.out.iter() {
        match b {
            kawa::OutBlock::Delimiter => {}
            kawa::OutBlock::Store(s) => out.extend_from_slice(s.data(buf)),
        }
    }
    out
}

/// the property's own reading of a rendered default answer
fn check_wire(code: u16, wire: &[u8]) -> Result<(), String> {
    let text = String::from_utf8_lossy(wire).to_string();
    let head_end = text.find("\r\n\r\n").ok_or("no end of headers")?;
    let head = &text[..head_end];
    let body = &wire[head_end + 4..];
    let mut lines = head.split("\r\n");
    let status = lines.next().unwrap_or("");
    let want = format!("HTTP/1.1 {code} ");
    if !status.starts_with(&want) {
        return Err(format!("status line {status:?} does not start with {want:?}"));
    }
    let mut cl: Option<usize> = None;
    let mut close = false;
    for l in lines {
        let (k, v) = l.split_once(':').ok_or(format!("malformed header line {l:?}"))?;
        if k.eq_ignore_ascii_case("content-length") {
            if cl.is_some() {
                return Err("two Content-Length headers".into());
            }
            cl = Some(v.trim().parse().map_err(|_| format!("bad Content-Length {v:?}"))?);
        }
        if k.eq_ignore_ascii_case("connection") && v.trim().eq_ignore_ascii_case("close") {
            close = true;
        }
        if k.eq_ignore_ascii_case("transfer-encoding") {
            return Err("default answer uses Transfer-Encoding".into());
        }
    }
    match cl {
        Some(n) if n != body.len() => Err(format!("Content-Length {n} but body has {} bytes", body.len())),
        None if !close && !body.is_empty() => Err("body without Content-Length on a keep-alive answer".into()),
        _ => Ok(()),
    }
}


const BB_HEAD_CL: usize = 57; // "HTTP/1.1 200 OK\r\nContent-Length: 20\r\nX-Test: abcdefgh\r\n\r\n"
const BB_HEAD_CH: usize = 47; // "HTTP/1.1 200 OK\r\nTransfer-Encoding: chunked\r\n\r\n"
const BB_HEAD_CD: usize = 38; // "HTTP/1.1 200 OK\r\nConnection: close\r\n\r\n"
const BB_CHUNKED: usize = 35;

/// classes a client may observe for a fault script (documented behaviour, independent of the model)
fn bb_expected(kind: &str, k: usize) -> (Vec<String>, Option<usize>) {
    let d = |n: u32| format!("default {n}");
    match kind {
        "close_at" | "reset_at" | "chunked_close_at" | "stall_after" => {
            let (head, full) = if kind == "chunked_close_at" { (BB_HEAD_CH, BB_HEAD_CH + BB_CHUNKED) } else { (BB_HEAD_CL, BB_HEAD_CL + 20) };
            let lost = if kind == "stall_after" { d(504) } else { d(502) };
            if k >= full {
                (vec!["relay".into()], Some(20))
            } else if k < head {
                (vec![lost], None)
            } else {
                (vec![lost, "abort".into()], None)
            }
        }
        "cl_close_at" => {
            // Content-Length: 20 + Connection: close (head 58 bytes)
            if k >= 78 {
                (vec!["relay".into()], Some(20))
            } else if k < 58 {
                (vec![d(502)], None)
            } else {
                (vec!["abort".into()], None)
            }
        }
        "close_delim_at" => {
            if k >= BB_HEAD_CD {
                (vec!["relay".into()], Some(k.min(BB_HEAD_CD + 20) - BB_HEAD_CD))
            } else {
                (vec![d(502)], None)
            }
        }
        "refuse" | "nobackend" => (vec![d(503)], None),
        "stall" => (vec![d(504)], None),
        "garbage" => (vec![d(502)], None),
        "nohost" => (vec![d(404)], None),
        "redirect" => (vec![d(301)], None),
        "slow_client" => (vec![d(408)], None),
        _ => (vec![], None),
    }
}

fn blackbox(kind: &str, k: usize, out: &mut Out) {
    let exe = std::env::current_exe().unwrap().with_file_name("c02bb");
    let dir = std::env::temp_dir().join(format!("c02bb-replay-{}", std::process::id()));
    let _ = std::fs::create_dir_all(&dir);
    let f = dir.join("scn.txt");
    std::fs::write(&f, format!("scn 0 {kind} {k}\n")).unwrap();
    let o = match std::process::Command::new(&exe).arg(&f).current_dir(&dir).output() {
        Ok(o) => o,
        Err(e) => {
            out.note(&format!("invalid-case: cannot run {exe:?}: {e}"));
            return;
        }
    };
    let _ = std::fs::remove_dir_all(&dir);
    let text = String::from_utf8_lossy(&o.stdout).to_string();
    let mut seen = vec![];
    for line in text.lines().filter(|l| l.starts_with("res ")) {
        let get = |key: &str| -> i64 {
            line.split_whitespace().find_map(|w| w.strip_prefix(&format!("{key}="))).and_then(|v| v.parse().ok()).unwrap_or(0)
        };
        let (status, complete, eof, hang, body, extra) = (get("status"), get("complete"), get("eof"), get("hang"), get("body"), get("extra"));
        let class = if hang != 0 {
            "hang".to_string()
        } else if complete != 0 && status == 200 {
            "relay".to_string()
        } else if complete != 0 && status != 0 {
            format!("default {status}")
        } else if eof != 0 {
            "abort".to_string()
        } else {
            "none".to_string()
        };
        out.note(&format!("black-box {kind} {k}: {line} => {class}"));
        if hang != 0 {
            out.viol("bb-hang", &format!("{kind} {k}: no answer and no close within the deadline"));
        }
        if get("emb") != 0 {
            out.viol("bb-answer-in-body", &format!("{kind} {k}: a status line sits inside the body of a response that had started"));
        }
        // (bytes behind an interim response are the next response of the same exchange)
        if extra != 0 && status / 100 != 1 {
            out.viol("bb-two-answers", &format!("{kind} {k}: {extra} bytes follow a complete response"));
        }
        // (the close that follows an early response is the documented outcome, not a missing answer)
        if seen.is_empty() && class == "abort" && status == 0 && kind != "slow_client" && kind != "early_response" && kind != "upgrade_then_close" && !kind.starts_with("reuse_") {
            out.viol("bb-no-answer", &format!("{kind} {k}: no answer: the client got no byte, only a close"));
        }
        seen.push((class, body as usize));
    }
    if seen.is_empty() {
        out.viol("bb-no-result", &format!("{kind} {k}: no result from the black-box driver"));
        return;
    }
    if kind.starts_with("reuse_") {
        let (want, _) = bb_expected(&kind["reuse_".len()..], k);
        if seen.first().map(|x| x.0.as_str()) != Some("relay") {
            out.viol("bb-mismatch", &format!("{kind} {k}: first request on the connection observed {:?}", seen.first()));
        } else if seen.len() < 2 {
            out.viol("bb-no-result", &format!("{kind} {k}: the second request was not sent"));
        } else if !want.is_empty() && !want.contains(&seen[1].0) {
            out.viol("bb-reuse", &format!("{kind} {k}: the second request on the reused connections observed '{}', documented {want:?}", seen[1].0));
        }
        return;
    }
    if kind == "abort_then_next" {
        if seen.len() != 2 || seen[1].0 != "relay" || seen[1].1 != 6 {
            out.viol("bb-cross-request", &format!("abort_then_next: observed {:?}: the next client must get its own 6-byte response", seen));
        }
        return;
    }
    if kind == "sticky_refusing" {
        if seen.first().map(|x| x.0.as_str()) != Some("relay") {
            out.viol("bb-sticky", &format!("sticky_refusing: observed {:?} although a healthy backend exists", seen.first()));
        }
        return;
    }
    if kind == "continue_then_close" {
        let fin: Vec<&(String, usize)> = seen.iter().filter(|x| x.0 != "default 100" && x.0 != "abort" && x.0 != "none" && x.0 != "hang").collect();
        if fin.last().map(|x| x.0.as_str()) != Some("default 502") {
            out.viol("bb-interim-only", &format!("continue_then_close {k}: observed {:?}: the request got no final answer (502 expected) after the interim response", seen));
        }
        return;
    }
    if kind == "upgrade_then_close" {
        let ok = seen.len() == 2 && seen[0].0 == "default 101" && seen[1].0 == "abort";
        if !ok {
            out.viol("bb-upgrade", &format!("upgrade_then_close: observed {:?} (expected the 101, then the end of the tunnel)", seen));
        }
        return;
    }
    if kind == "two_finals" {
        let ok = seen.len() == 2 && seen.iter().all(|x| x.0 == "relay" && x.1 == 20);
        if !ok {
            out.viol("bb-cross-request", &format!("two_finals: observed {:?}", seen));
        }
        return;
    }
    if kind == "early_response" {
        if seen.first().map(|x| x.0.as_str()) != Some("relay") {
            out.viol("bb-mismatch", &format!("early_response: first answer observed {:?}", seen.first()));
        }
        if seen.len() > 1 && seen[1].0 != "abort" && seen[1].0 != "none" {
            out.viol("bb-two-answers", &format!("early_response: a second answer ({}) followed the early response of the same request", seen[1].0));
        }
        return;
    }
    if kind == "continue100" || kind == "expect100" || kind == "hints103" || kind == "processing102" || kind == "burst103" || kind == "burst100" {
        let want1 = if kind == "hints103" || kind == "burst103" { "default 103" } else if kind == "processing102" { "default 102" } else { "default 100" };
        let ok = seen.len() == 2 && seen[0].0 == want1 && seen[1].0 == "relay" && seen[1].1 == 20;
        if !ok {
            out.viol("bb-interim", &format!("{kind}: observed {:?} (expected the interim response, then the relayed 200 with 20 bytes)", seen));
        }
        return;
    }
    if kind == "cl_close_twice" {
        let ok = seen.len() == 2 && seen.iter().all(|(c, b)| c == "relay" && *b == 20);
        if !ok {
            out.viol("bb-keepalive", &format!("cl_close_twice: observed {:?} (client connection must stay open and serve a second request)", seen));
        }
        return;
    }
    if kind == "keepalive_close" {
        let ok = seen.len() == 2 && seen[0].0 == "relay" && ["relay", "default 502", "default 503"].contains(&seen[1].0.as_str());
        if !ok {
            out.viol("bb-keepalive", &format!("keepalive_close: observed {:?}", seen));
        }
        return;
    }
    let (want, blen) = bb_expected(kind, k);
    let (got, body) = &seen[0];
    if !want.is_empty() && !want.contains(got) {
        out.viol("bb-mismatch", &format!("{kind} {k}: client observed '{got}', documented {want:?}"));
    }
    if got == "relay" {
        if let Some(n) = blen {
            if *body != n {
                out.viol("bb-body", &format!("{kind} {k}: relayed body has {body} bytes, backend sent {n}"));
            }
        }
    }
}

/// replay of an H2-frontend black-box scenario through the sibling binary c02h2bb
fn blackbox_h2(kind: &str, k: usize, out: &mut Out) {
    let exe = std::env::current_exe().unwrap().with_file_name("c02h2bb");
    let dir = std::env::temp_dir().join(format!("c02h2bb-replay-{}", std::process::id()));
    let _ = std::fs::create_dir_all(&dir);
    let f = dir.join("scn.txt");
    std::fs::write(&f, format!("scn 0 {kind} {k}\n")).unwrap();
    let o = match std::process::Command::new(&exe).arg(&f).current_dir(&dir).output() {
        Ok(o) => o,
        Err(e) => {
            out.note(&format!("invalid-case: cannot run {exe:?}: {e}"));
            return;
        }
    };
    let _ = std::fs::remove_dir_all(&dir);
    let text = String::from_utf8_lossy(&o.stdout).to_string();
    let mut streams: Vec<(String, usize)> = vec![];
    for line in text.lines().filter(|l| l.starts_with("res ")) {
        let get = |key: &str| -> String {
            line.split_whitespace().find_map(|w| w.strip_prefix(&format!("{key}=")).map(|v| v.to_string())).unwrap_or_default()
        };
        let (status, end, closed, body) = (get("status"), get("end"), get("closed"), get("body").parse::<usize>().unwrap_or(0));
        let class = match end.as_str() {
            "clean" if status == "200" => "relay".to_string(),
            "clean" => format!("default {status}"),
            "rst" => "abort".to_string(),
            _ if closed == "1" => "unanswered-close".to_string(),
            _ => "hang".to_string(),
        };
        out.note(&format!("black-box h2 {kind} {k}: {line} => {class}"));
        streams.push((class, body));
    }
    if streams.len() != 3 {
        out.viol("bb2-no-result", &format!("h2 {kind} {k}: no result from the driver"));
        return;
    }
    if kind.starts_with("drain_") {
        let want3 = ["default 404", if kind == "drain_c" { "default 503" } else { "default 502" }, "relay"];
        let got3: Vec<&str> = streams.iter().map(|x| x.0.as_str()).collect();
        if got3 != want3 || streams[2].1 != 4 {
            out.viol("bb2-drain", &format!("h2 {kind}: streams 1/3/5 observed {got3:?} (expected {want3:?}): a proxy-generated answer on one stream cut the others"));
        }
        return;
    }
    if kind == "cancel_reuse" {
        if streams[2].0 != "relay" || streams[2].1 != 6 {
            out.viol("bb2-cross-request", &format!("h2 cancel_reuse: the stream that followed a cancelled download observed {:?} (expected 200 'second', 6 bytes)", streams[2]));
        }
        return;
    }
    for (j, want_body) in [(0usize, 4usize), (2, 6)] {
        if streams[j].0 != "relay" || streams[j].1 != want_body {
            out.viol("bb2-sibling", &format!("h2 {kind} {k}: sibling stream {} on the same connection: {} body={} (expected 200, {want_body} bytes, END_STREAM)", 1 + 2 * j, streams[j].0, streams[j].1));
        }
    }
    // documented outcome of the faulty stream on an H2 frontend
    let d = |n: u32| format!("default {n}");
    let (want, blen): (Vec<String>, Option<usize>) = match kind {
        "close_at" | "reset_at" | "chunked_close_at" | "stall_after" => {
            let (head, full) = if kind == "chunked_close_at" { (BB_HEAD_CH, BB_HEAD_CH + BB_CHUNKED) } else { (BB_HEAD_CL, BB_HEAD_CL + 20) };
            let lost = if kind == "stall_after" { d(504) } else { d(502) };
            if k >= full {
                (vec!["relay".into()], Some(20))
            } else if k < head {
                (vec![lost], None)
            } else if kind == "reset_at" {
                (vec!["abort".into(), lost], None)
            } else {
                (vec!["abort".into()], None)
            }
        }
        "close_delim_at" => {
            if k >= BB_HEAD_CD { (vec!["relay".into()], Some(k.min(BB_HEAD_CD + 20) - BB_HEAD_CD)) } else { (vec![d(502)], None) }
        }
        "refuse" | "nobackend" => (vec![d(503)], None),
        "stall" => (vec![d(504)], None),
        "garbage" => (vec![d(502)], None),
        "nohost" => (vec![d(404)], None),
        "h2c_rst_first" | "h2c_refused" | "h2c_goaway_first" | "h2c_close_first" => (vec![d(502), d(503), "abort".into()], None),
        "h2c_rst_mid" | "h2c_close_mid" | "h2c_stall_mid" => (vec!["abort".into()], None),
        "h2c_goaway_mid" => (vec!["relay".into()], Some(3000)),
        _ => (vec![], None),
    };
    let (got, body) = &streams[1];
    if matches!(kind, "h2c_rst_mid" | "h2c_close_mid" | "h2c_stall_mid") && *body > 1000 {
        out.viol("bb2-body", &format!("h2 {kind}: {body} body bytes reached the client, the backend sent 1000"));
    }
    if got == "hang" {
        out.viol("bb2-hang", &format!("h2 {kind} {k}: no answer, no RST_STREAM and no close within the deadline"));
    } else if got == "unanswered-close" {
        out.viol("bb2-unanswered-close", &format!("h2 {kind} {k}: the connection was closed while the stream had no answer (documented {want:?})"));
    } else if !want.is_empty() && !want.contains(got) {
        out.viol("bb2-mismatch", &format!("h2 {kind} {k}: client observed '{got}', documented {want:?}"));
    }
    if got == "relay" {
        if let Some(n) = blen {
            if *body != n {
                out.viol("bb2-body", &format!("h2 {kind} {k}: END_STREAM after {body} body bytes, backend sent {n}"));
            }
        }
    }
}

const DOCUMENTED: [u16; 12] = [301, 302, 308, 400, 401, 404, 408, 421, 429, 502, 503, 504];

fn run(case: &Case, out: &mut Out) {
    let mut st = new_st();
    for op in &case.ops {
        let a = &op.args;
        match op.name.as_str() {
            "new" => {
                st = new_st();
                out.obs(&[]);
            }
            "set" => {
                let s = &mut st.stream;
                s.state = match a[0].n() {
                    0 => StreamState::Idle,
                    1 => StreamState::Link,
                    2 => StreamState::Linked(Token(7)),
                    3 => StreamState::Unlinked,
                    _ => StreamState::Recycle,
                };
                use kawa::ParsingPhase as P;
                s.back.parsing_phase = match a[1].n() {
                    0 => P::StatusLine,
                    1 => P::Headers,
                    2 => P::Cookies { first: true },
                    3 => P::Body,
                    4 => P::Chunks { first: true },
                    5 => P::Trailers,
                    6 => P::Terminated,
                    _ => P::Error {
                        marker: kawa::ParsingPhaseMarker::Body,
                        kind: kawa::ParsingErrorKind::Processing { message: "verif" },
                    },
                };
                s.context.keep_alive_backend = a[2].n() != 0;
                s.front.consumed = a[3].n() != 0;
                s.back.consumed = a[4].n() != 0;
                s.back.blocks.clear();
                s.back.out.clear();
                if a[5].n() != 0 {
                    s.back.blocks.push_back(kawa::Block::Chunk(kawa::Chunk {
                        data: kawa::Store::Static(b"pending"),
                    }));
                }
                st.readiness.interest = if a[6].n() != 0 { Ready::WRITABLE } else { Ready::EMPTY };
                st.readiness.event = if a[7].n() != 0 { Ready::WRITABLE } else { Ready::EMPTY };
                out.obs(&st_toks(&st));
            }
            "setline" => {
                // the status line of the response buffer: 0 = none yet, else a response with that code
                let code = a[0].n() as u16;
                st.stream.back.detached.status_line = if code == 0 {
                    kawa::StatusLine::Unknown
                } else {
                    kawa::StatusLine::Response { version: kawa::Version::V11, code, status: kawa::Store::Static(b"000"), reason: kawa::Store::Static(b"x") }
                };
                out.obs(&[tn(code as i128)]);
            }
            "esd" => {
                let (tag, status) = verif::end_stream_decision(&st.stream);
                // the property's own table (documentation of EndStreamAction)
                let s = &st.stream;
                // (an interim 100 / 103 sitting in the buffer is not a response: RFC 9110 15.2)
                let interim = matches!(s.back.detached.status_line, kawa::StatusLine::Response { code, .. } if (100..200).contains(&code) && code != 101);
                let want: (u8, u16) = if s.back.is_main_phase() && !interim {
                    if s.back.is_terminated() {
                        (0, 0)
                    } else if !s.context.keep_alive_backend {
                        (1, 0)
                    } else {
                        (2, 0)
                    }
                } else if s.front.consumed {
                    (3, 502)
                } else {
                    (4, 0)
                };
                if (tag, status) != want {
                    out.viol("esd-table", &format!("end_stream_decision gave ({tag},{status}), documented ({},{})", want.0, want.1));
                }
                if tag == 0 && (!s.back.is_terminated() || interim) {
                    out.viol("truncated-as-complete", "ForwardTerminated on a response that is not terminated (or is only an interim one)");
                }
                out.obs(&[tn(tag), tn(status)]);
            }
            "answer" => {
                let code = a[0].n() as u16;
                verif::set_default_answer(&mut st.stream, &mut st.readiness, code, &st.answers);
                let status = st.stream.context.status.unwrap_or(0);
                let mut toks = st_toks(&st);
                toks.push(ts("default"));
                toks.push(tn(status));
                out.obs(&toks);
                // oracle: exactly one complete, well-formed answer is queued and will be flushed
                let s = &st.stream;
                if s.state != StreamState::Unlinked {
                    out.viol("answer-state", &format!("state {:?} after a default answer", s.state));
                }
                if !s.back.is_terminated() {
                    out.viol("answer-unterminated", "default answer not terminated");
                }
                if !(st.readiness.interest.is_writable() && st.readiness.event.is_writable()) {
                    out.viol("answer-not-armed", "default answer queued without WRITABLE in interest and event");
                }
                let n_status = s.back.blocks.iter().filter(|b| matches!(b, kawa::Block::StatusLine)).count();
                let n_end = s
                    .back
                    .blocks
                    .iter()
                    .filter(|b| matches!(b, kawa::Block::Flags(kawa::Flags { end_stream: true, .. })))
                    .count();
                if n_status != 1 || n_end != 1 {
                    out.viol("answer-shape", &format!("{n_status} status lines, {n_end} end_stream flags"));
                }
                if DOCUMENTED.contains(&code) && status != code {
                    out.viol("answer-status", &format!("asked {code}, rendered {status}"));
                }
                if !DOCUMENTED.contains(&code) && status != 503 {
                    out.viol("answer-status", &format!("unknown code {code} rendered as {status}, expected the 503 fallback"));
                }
                let wire = render(&mut st.stream);
                if let Err(e) = check_wire(status, &wire) {
                    out.viol("answer-wire", &format!("code {code}: {e}"));
                }
            }
            "force" => {
                verif::forcefully_terminate_answer(&mut st.stream, &mut st.readiness);
                let mut toks = st_toks(&st);
                toks.push(ts("abort"));
                out.obs(&toks);
                let s = &st.stream;
                if !s.back.is_error() || !s.back.is_completed() || s.state != StreamState::Unlinked {
                    out.viol("force-shape", &format!("after forcefully_terminate_answer: error={} completed={} state={:?}", s.back.is_error(), s.back.is_completed(), s.state));
                }
                if s.back.is_terminated() {
                    out.viol("truncated-as-complete", "forced termination leaves the response marked terminated");
                }
                if !(st.readiness.interest.is_writable() && st.readiness.event.is_writable()) {
                    out.viol("force-not-armed", "forced termination without WRITABLE in interest and event");
                }
            }
            "blackboxh2" => {
                blackbox_h2(a[0].s(), a[1].n() as usize, out);
                out.obs(&[]);
            }
            "blackbox" => {
                // replay of a black-box scenario: run the sibling binary on this one
                // scenario and judge what the client saw with the property's own table
                blackbox(a[0].s(), a[1].n() as usize, out);
                out.obs(&[]);
            }
            other => {
                out.note(&format!("invalid-case: unknown op {other}"));
                out.obs(&[]);
            }
        }
    }
}

fn main() {
    drive(run);
}
