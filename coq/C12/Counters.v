(** C12 — connection counters over whole histories of the model's operations:
    for every backend object (also the ones no longer in any list),
    [active_connections] is the number of connections opened on it and not yet
    closed. *)
From Coq Require Import List Arith ZArith NArith Bool Lia.
From SV Require Import C12.Model C12.Proofs.
Import ListNotations.
Open Scope N_scope.

(* ------------------------------------------------------------------ *)
(** * Heap access *)

Lemma hset_length hp : forall h b, length (hset hp h b) = length hp.
Proof. induction hp as [|x t IH]; intros [|h] b; cbn; auto. Qed.

Lemma hget_hset_same hp : forall h b, (h < length hp)%nat -> hget (hset hp h b) h = b.
Proof.
  unfold hget. induction hp as [|x t IH]; intros [|h] b H; cbn [length] in H; try lia; cbn; auto;
    try (apply IH; lia).
Qed.

Lemma hget_hset_other hp : forall h h' b, h <> h' -> hget (hset hp h b) h' = hget hp h'.
Proof.
  unfold hget. induction hp as [|x t IH]; intros [|h] [|h'] b H; cbn; auto; try congruence;
    try (apply IH; congruence).
Qed.

Lemma hget_app_old hp x h : (h < length hp)%nat -> hget (hp ++ [x]) h = hget hp h.
Proof. unfold hget. intros H. apply app_nth1. exact H. Qed.

(** how an operation may transform one backend, as far as the counters go *)
Inductive conn_change (b b' : backend) : Z -> Prop :=
| cc_same : b_conns b' = b_conns b -> b_status b' = b_status b -> conn_change b b' 0
| cc_status : b_conns b' = b_conns b -> b_status b' = Closing -> conn_change b b' 0
| cc_inc : b_status b = Normal -> b_status b' = Normal -> b_conns b' = b_conns b + 1 -> conn_change b b' 1
| cc_dec : b' = fst (dec_connections b) -> conn_change b b' (-1).

(** the invariant of one backend against the number [g] of connections open on it *)
Definition bal (b : backend) (g : N) : Prop :=
  b_conns b = g /\ (b_status b = Closed -> b_conns b = 0).

Lemma bal_change b b' g d :
  bal b g -> conn_change b b' d -> (d = (-1)%Z -> 0 < g) ->
  bal b' (Z.to_N (Z.of_N g + d)).
Proof.
  intros [Hc Hz] CC Hd. destruct CC as [E1 E2|E1 E3|E1 E2 E3|E].
  - rewrite Z.add_0_r, N2Z.id. split; [congruence|]. rewrite E2, E1. exact Hz.
  - rewrite Z.add_0_r, N2Z.id. split; [congruence|]. rewrite E3. discriminate.
  - split; [rewrite E3; lia|]. rewrite E2. discriminate.
  - specialize (Hd eq_refl). subst b'.
    pose proof (cstep_inv (b, g) CDec) as CI. unfold cinv in CI. cbn [cstep fst snd] in CI.
    destruct CI as [C1 C2]; [split; assumption|intros _; exact Hd|].
    split; [rewrite C1; lia|exact C2].
Qed.

(* ------------------------------------------------------------------ *)
(** * What each operation does to each backend object *)

(** the handle an operation opens (+1) or closes (-1) a connection on *)
Definition conn_effect (s : state) (o : op) : option (nat * Z) :=
  match o with
  | OInc h =>
    if (h <? length (s_heap s))%nat then
      match snd (inc_connections (hget (s_heap s) h)) with Some _ => Some (h, 1%Z) | None => None end
    else None
  | ODec h => if (h <? length (s_heap s))%nat then Some (h, (-1)%Z) else None
  | OClose c a =>
    match find_backend s c a with
    | Some h => if (h <? length (s_heap s))%nat then Some (h, (-1)%Z) else None
    | None => None
    end
  | OConnect h w =>
    if (h <? length (s_heap s))%nat then
      if snd (try_connect (s_now s) w (hget (s_heap s) h)) =? 0 then Some (h, 1%Z) else None
    else None
  | OSelectConn c w =>
    match backend_from_cluster s c w with
    | (_, Some h, 0) => if (h <? length (s_heap s))%nat then Some (h, 1%Z) else None
    | _ => None
    end
  | OStickyConn c sid w =>
    match backend_from_sticky s c sid w with
    | (_, Some h, 0) => if (h <? length (s_heap s))%nat then Some (h, 1%Z) else None
    | _ => None
    end
  | _ => None
  end.

Definition delta_at (e : option (nat * Z)) (h : nat) : Z :=
  match e with Some (h', d) => if (h =? h')%nat then d else 0%Z | None => 0%Z end.

Lemma on_handle_get s h f h' :
  (h' < length (s_heap s))%nat ->
  hget (s_heap (on_handle s h f)) h' =
  if (h <? length (s_heap s))%nat && (h =? h')%nat then f (hget (s_heap s) h') else hget (s_heap s) h'.
Proof.
  intros H. unfold on_handle. destruct (h <? length (s_heap s))%nat eqn:L; cbn [andb]; [|reflexivity].
  cbn [with_heap s_heap]. destruct (h =? h')%nat eqn:E.
  - apply Nat.eqb_eq in E. subst. apply hget_hset_same. exact H.
  - apply Nat.eqb_neq in E. apply hget_hset_other. exact E.
Qed.

Lemma on_handle_length s h f : length (s_heap (on_handle s h f)) = length (s_heap s).
Proof.
  unfold on_handle. destruct (h <? length (s_heap s))%nat; [|reflexivity].
  cbn [with_heap s_heap]. apply hset_length.
Qed.

Lemma with_cluster_heap s c cl : s_heap (with_cluster s c cl) = s_heap s.
Proof. reflexivity. Qed.

Lemma select_heap s c key : s_heap (fst (select s c key)) = s_heap s.
Proof.
  unfold select. destruct (candidates s (c_list (cget s c))) as [|x t]; [reflexivity|].
  destruct (lb_next s (c_lb (cget s c)) key (x :: t)) as [p' r]. reflexivity.
Qed.

Lemma dec_fst_same_conns_case b : b_status b = Closed -> fst (dec_connections b) = b.
Proof. intros S. unfold dec_connections. rewrite S. reflexivity. Qed.

Lemma try_connect_change now w b :
  conn_change b (fst (try_connect now w b)) (if snd (try_connect now w b) =? 0 then 1 else 0).
Proof.
  unfold try_connect. destruct (b_status b) eqn:S.
  - destruct (connectable (b_addr b)).
    + unfold inc_connections. rewrite S. cbn. apply cc_inc; cbn; auto.
    + cbn. apply cc_same; cbn; auto.
  - cbn. apply cc_same; auto.
  - cbn. apply cc_same; auto.
Qed.

Lemma connect_handle_spec s h w h' :
  (h < length (s_heap s))%nat -> (h' < length (s_heap s))%nat ->
  length (s_heap (fst (connect_handle s h w))) = length (s_heap s) /\
  conn_change (hget (s_heap s) h') (hget (s_heap (fst (connect_handle s h w))) h')
              (if (h' =? h)%nat then (if snd (connect_handle s h w) =? 0 then 1 else 0) else 0).
Proof.
  intros H H'. unfold connect_handle.
  pose proof (try_connect_change (s_now s) w (hget (s_heap s) h)) as TC.
  destruct (try_connect (s_now s) w (hget (s_heap s) h)) as [b' code]. cbn [fst snd] in *.
  cbn [with_heap s_heap]. split; [apply hset_length|].
  destruct (h' =? h)%nat eqn:E.
  - apply Nat.eqb_eq in E. subst h'. rewrite hget_hset_same by assumption. exact TC.
  - apply Nat.eqb_neq in E. rewrite hget_hset_other by congruence. apply cc_same; reflexivity.
Qed.

Lemma hset_out hp : forall h b, (length hp <= h)%nat -> hset hp h b = hp.
Proof.
  induction hp as [|x t IH]; intros [|h] b H; cbn [length] in H; cbn; auto; try lia.
  f_equal. apply IH. lia.
Qed.

Lemma connect_handle_out s h w : (length (s_heap s) <= h)%nat -> s_heap (fst (connect_handle s h w)) = s_heap s.
Proof.
  intros H. unfold connect_handle. destruct (try_connect _ _ _) as [b' code]. cbn [fst with_heap s_heap].
  apply hset_out. exact H.
Qed.

Lemma fold_reset_same l : forall s h,
  length (s_heap (fold_left (fun s0 h0 => on_handle s0 h0 (fun b => set_health b true 0 0)) l s)) = length (s_heap s) /\
  b_conns (hget (s_heap (fold_left (fun s0 h0 => on_handle s0 h0 (fun b => set_health b true 0 0)) l s)) h)
  = b_conns (hget (s_heap s) h) /\
  b_status (hget (s_heap (fold_left (fun s0 h0 => on_handle s0 h0 (fun b => set_health b true 0 0)) l s)) h)
  = b_status (hget (s_heap s) h).
Proof.
  induction l as [|x t IH]; intros s h; cbn [fold_left]; [auto|].
  destruct (IH (on_handle s x (fun b => set_health b true 0 0)) h) as (I1 & I2 & I3).
  rewrite I1, I2, I3, on_handle_length.
  split; [reflexivity|].
  destruct (Nat.lt_ge_cases h (length (s_heap s))) as [Hh|Hh].
  - rewrite on_handle_get by assumption.
    destruct ((x <? length (s_heap s))%nat && (x =? h)%nat); split; reflexivity.
  - unfold on_handle. destruct (x <? length (s_heap s))%nat eqn:L; [|split; reflexivity].
    cbn [with_heap s_heap]. apply Nat.ltb_lt in L.
    rewrite hget_hset_other by lia. split; reflexivity.
Qed.

(** the effect of one operation on the backend object [h] *)
Lemma op_change s o h :
  (h < length (s_heap s))%nat ->
  (length (s_heap s) <= length (s_heap (apply_op s o)))%nat /\
  conn_change (hget (s_heap s) h) (hget (s_heap (apply_op s o)) h) (delta_at (conn_effect s o) h).
Proof.
  intros Hh.
  assert (Same : forall s', s_heap s' = s_heap s ->
            (length (s_heap s) <= length (s_heap s'))%nat /\
            conn_change (hget (s_heap s) h) (hget (s_heap s') h) 0).
  { intros s' E. rewrite E. split; [lia|apply cc_same; reflexivity]. }
  assert (OnH : forall h0 f d,
            ((h0 < length (s_heap s))%nat -> h0 = h -> conn_change (hget (s_heap s) h) (f (hget (s_heap s) h)) d) ->
            (~ ((h0 < length (s_heap s))%nat /\ h0 = h) -> d = 0%Z) ->
            (length (s_heap s) <= length (s_heap (on_handle s h0 f)))%nat /\
            conn_change (hget (s_heap s) h) (hget (s_heap (on_handle s h0 f)) h) d).
  { intros h0 f d Hf Hd. rewrite on_handle_length. split; [lia|].
    rewrite on_handle_get by assumption.
    destruct (h0 <? length (s_heap s))%nat eqn:L; cbn [andb].
    - destruct (h0 =? h)%nat eqn:E.
      + apply Nat.ltb_lt in L. apply Nat.eqb_eq in E. apply Hf; assumption.
      + rewrite Hd; [apply cc_same; reflexivity|]. apply Nat.eqb_neq in E. tauto.
    - rewrite Hd; [apply cc_same; reflexivity|]. apply Nat.ltb_ge in L. lia. }
  destruct o; cbn [apply_op conn_effect delta_at].
  - apply Same. reflexivity.
  - apply Same. reflexivity.
  - (* add *) unfold add_backend.
    destruct (find _ (c_list (cget s c))) as [h0|].
    + cbn [fst with_cluster with_heap s_heap]. rewrite hset_length. split; [lia|].
      destruct (Nat.eq_dec h0 h) as [->|Hn].
      * rewrite hget_hset_same by assumption. apply cc_same; reflexivity.
      * rewrite hget_hset_other by assumption. apply cc_same; reflexivity.
    + cbn [fst with_cluster with_heap s_heap]. rewrite app_length. cbn [length]. split; [lia|].
      rewrite hget_app_old by assumption. apply cc_same; reflexivity.
  - (* remove *) apply Same. reflexivity.
  - (* policy *) apply Same. reflexivity.
  - (* closing *) apply OnH; [|reflexivity]. intros _ _. apply cc_status; reflexivity.
  - (* health *) destruct (find_backend s c a) as [h0|]; [|apply Same; reflexivity].
    apply OnH; [|reflexivity]. intros _ _.
    destruct ok; [unfold record_success|unfold record_failure]; case_if; apply cc_same; reflexivity.
  - (* health reset *) destruct (fold_reset_same (c_list (cget s c)) s h) as (I1 & I2 & I3).
    rewrite I1. split; [lia|]. apply cc_same; assumption.
  - apply OnH; [|reflexivity]. intros _ _. apply cc_same; reflexivity.
  - apply OnH; [|reflexivity]. intros _ _. apply cc_same; reflexivity.
  - apply OnH; [|reflexivity]. intros _ _. apply cc_same; reflexivity.
  - apply Same. reflexivity.
  - (* inc *) rename h0 into hh. destruct (hh <? length (s_heap s))%nat eqn:L.
    + apply OnH.
      * intros _ ->. unfold inc_connections. destruct (b_status (hget (s_heap s) h)) eqn:S; cbn [fst snd delta_at].
        -- rewrite Nat.eqb_refl. apply cc_inc; cbn; auto.
        -- apply cc_same; reflexivity.
        -- apply cc_same; reflexivity.
      * intros Hn. destruct (snd (inc_connections (hget (s_heap s) hh))); cbn [delta_at]; [|reflexivity].
        destruct (h =? hh)%nat eqn:E; [|reflexivity]. apply Nat.eqb_eq in E. apply Nat.ltb_lt in L. exfalso. apply Hn. split; [assumption|congruence].
    + unfold on_handle. rewrite L. cbn [delta_at]. apply Same. reflexivity.
  - (* dec *) rename h0 into hh. destruct (hh <? length (s_heap s))%nat eqn:L.
    + apply OnH.
      * intros _ ->. cbn [delta_at]. rewrite Nat.eqb_refl. apply cc_dec. reflexivity.
      * intros Hn. cbn [delta_at]. destruct (h =? hh)%nat eqn:E; [|reflexivity].
        apply Nat.eqb_eq in E. apply Nat.ltb_lt in L. exfalso. apply Hn. split; [assumption|congruence].
    + unfold on_handle. rewrite L. cbn [delta_at]. apply Same. reflexivity.
  - (* close *) destruct (find_backend s c a) as [hh|]; [|apply Same; reflexivity].
    destruct (hh <? length (s_heap s))%nat eqn:L.
    + apply OnH.
      * intros _ ->. cbn [delta_at]. rewrite Nat.eqb_refl. apply cc_dec. reflexivity.
      * intros Hn. cbn [delta_at]. destruct (h =? hh)%nat eqn:E; [|reflexivity].
        apply Nat.eqb_eq in E. apply Nat.ltb_lt in L. exfalso. apply Hn. split; [assumption|congruence].
    + unfold on_handle. rewrite L. cbn [delta_at]. apply Same. reflexivity.
  - apply OnH; [|reflexivity]. intros _ _. apply cc_same; reflexivity.
  - (* select *) apply Same. apply select_heap.
  - (* connect *) rename h0 into hh. destruct (hh <? length (s_heap s))%nat eqn:L; [|apply Same; reflexivity].
    apply Nat.ltb_lt in L. destruct (connect_handle_spec s hh w h L Hh) as [C1 C2].
    rewrite C1. split; [lia|].
    assert (E : snd (connect_handle s hh w) = snd (try_connect (s_now s) w (hget (s_heap s) hh))).
    { unfold connect_handle. destruct (try_connect _ _ _); reflexivity. }
    rewrite E in C2. destruct (snd (try_connect (s_now s) w (hget (s_heap s) hh)) =? 0); cbn [delta_at];
      [exact C2|destruct (h =? hh)%nat; exact C2].
  - (* select_conn *) unfold backend_from_cluster.
    pose proof (select_heap s c None) as SH.
    destruct (select s c None) as [s1 r]. cbn [fst] in SH.
    destruct r as [[hh|]|hs]; try (cbn [fst delta_at]; rewrite SH; split; [lia|apply cc_same; reflexivity]).
    destruct (Nat.lt_ge_cases hh (length (s_heap s1))) as [L|L].
    + assert (Hh1 : (h < length (s_heap s1))%nat) by (rewrite SH; exact Hh).
      destruct (connect_handle_spec s1 hh w h L Hh1) as [C1 C2].
      destruct (connect_handle s1 hh w) as [s2 code] eqn:CH. cbn [fst snd] in *.
      rewrite C1, SH. split; [lia|]. rewrite SH in C2, L.
      destruct code as [|pc]; cbn [delta_at N.eqb] in *.
      * apply Nat.ltb_lt in L. rewrite L. cbn [delta_at]. rewrite Nat.eqb_sym in C2.
        destruct (hh =? h)%nat eqn:E; [apply Nat.eqb_eq in E; subst; rewrite Nat.eqb_refl; exact C2|].
        rewrite Nat.eqb_sym, E. exact C2.
      * destruct (h =? hh)%nat; exact C2.
    + pose proof (connect_handle_out s1 hh w L) as CO.
      destruct (connect_handle s1 hh w) as [s2 code]. cbn [fst] in *.
      rewrite CO, SH. split; [lia|]. rewrite SH in L.
      assert (X : (hh <? length (s_heap s))%nat = false) by (apply Nat.ltb_ge; exact L).
      destruct code; cbn [delta_at]; rewrite ?X; cbn [delta_at]; apply cc_same; reflexivity.
  - (* sticky_conn *) unfold backend_from_sticky.
    destruct (find_sticky s c sid) as [hh|].
    + destruct (Nat.lt_ge_cases hh (length (s_heap s))) as [L|L].
      * destruct (connect_handle_spec s hh w h L Hh) as [C1 C2].
        destruct (connect_handle s hh w) as [s2 code] eqn:CH. cbn [fst snd] in *.
        rewrite C1. split; [lia|].
        destruct code as [|pc]; cbn [delta_at N.eqb] in *.
        -- apply Nat.ltb_lt in L. rewrite L. cbn [delta_at]. exact C2.
        -- destruct (h =? hh)%nat; exact C2.
      * pose proof (connect_handle_out s hh w L) as CO.
        destruct (connect_handle s hh w) as [s2 code]. cbn [fst] in *.
        rewrite CO. split; [lia|].
        assert (X : (hh <? length (s_heap s))%nat = false) by (apply Nat.ltb_ge; exact L).
        destruct code; cbn [delta_at]; rewrite ?X; cbn [delta_at]; apply cc_same; reflexivity.
    + (* falls back to the policy: same as select_conn *)
      unfold backend_from_cluster.
      pose proof (select_heap s c None) as SH.
      destruct (select s c None) as [s1 r]. cbn [fst] in SH.
      destruct r as [[hh|]|hs]; try (cbn [fst delta_at]; rewrite SH; split; [lia|apply cc_same; reflexivity]).
      destruct (Nat.lt_ge_cases hh (length (s_heap s1))) as [L|L].
      * assert (Hh1 : (h < length (s_heap s1))%nat) by (rewrite SH; exact Hh).
        destruct (connect_handle_spec s1 hh w h L Hh1) as [C1 C2].
        destruct (connect_handle s1 hh w) as [s2 code] eqn:CH. cbn [fst snd] in *.
        rewrite C1, SH. split; [lia|]. rewrite SH in C2, L.
        destruct code as [|pc]; cbn [delta_at N.eqb] in *.
        -- apply Nat.ltb_lt in L. rewrite L. cbn [delta_at]. exact C2.
        -- destruct (h =? hh)%nat; exact C2.
      * pose proof (connect_handle_out s1 hh w L) as CO.
        destruct (connect_handle s1 hh w) as [s2 code]. cbn [fst] in *.
        rewrite CO, SH. split; [lia|]. rewrite SH in L.
        assert (X : (hh <? length (s_heap s))%nat = false) by (apply Nat.ltb_ge; exact L).
        destruct code; cbn [delta_at]; rewrite ?X; cbn [delta_at]; apply cc_same; reflexivity.
  - (* rtt *) apply OnH; [|reflexivity]. intros _ _. apply cc_same; reflexivity.
Qed.

(* ------------------------------------------------------------------ *)
(** * Handles that do not exist yet *)

Lemma hget_out hp h : (length hp <= h)%nat -> hget hp h = dummy.
Proof. unfold hget. intros H. apply nth_overflow. exact H. Qed.

Lemma op_length s o :
  length (s_heap (apply_op s o)) = length (s_heap s) \/
  exists nb, s_heap (apply_op s o) = s_heap s ++ [nb] /\ b_conns nb = 0 /\ b_status nb = Normal.
Proof.
  destruct o; cbn [apply_op]; try (left; reflexivity); try (left; apply on_handle_length).
  - unfold add_backend. destruct (find _ (c_list (cget s c))) as [h0|].
    + left. cbn [fst with_cluster with_heap s_heap]. apply hset_length.
    + right. eexists. cbn [fst with_cluster with_heap s_heap]. split; [reflexivity|]. split; reflexivity.
  - destruct (find_backend s c a); [left; apply on_handle_length|left; reflexivity].
  - left. destruct (fold_reset_same (c_list (cget s c)) s 0%nat) as (I1 & _). exact I1.
  - destruct (find_backend s c a); [left; apply on_handle_length|left; reflexivity].
  - left. rewrite select_heap. reflexivity.
  - left. destruct (h <? length (s_heap s))%nat; [|reflexivity].
    unfold connect_handle. destruct (try_connect _ _ _). cbn [fst with_heap s_heap]. apply hset_length.
  - left. unfold backend_from_cluster.
    pose proof (select_heap s c None) as SH. destruct (select s c None) as [s1 r]. cbn [fst] in SH.
    destruct r as [[hh|]|hs]; cbn [fst]; try (rewrite SH; reflexivity).
    unfold connect_handle. destruct (try_connect _ _ _). cbn [fst with_heap s_heap]. rewrite hset_length, SH. reflexivity.
  - left. unfold backend_from_sticky. destruct (find_sticky s c sid) as [hh|].
    + unfold connect_handle. destruct (try_connect _ _ _). cbn [fst with_heap s_heap]. apply hset_length.
    + unfold backend_from_cluster.
      pose proof (select_heap s c None) as SH. destruct (select s c None) as [s1 r]. cbn [fst] in SH.
      destruct r as [[hh|]|hs]; cbn [fst]; try (rewrite SH; reflexivity).
      unfold connect_handle. destruct (try_connect _ _ _). cbn [fst with_heap s_heap]. rewrite hset_length, SH. reflexivity.
Qed.

Lemma new_handle_zero s o h :
  (length (s_heap s) <= h)%nat ->
  b_conns (hget (s_heap (apply_op s o)) h) = 0 /\ b_status (hget (s_heap (apply_op s o)) h) = Normal.
Proof.
  intros H. destruct (op_length s o) as [E|[nb [E [Z N]]]].
  - rewrite hget_out by lia. split; reflexivity.
  - rewrite E. destruct (Nat.eq_dec h (length (s_heap s))) as [->|Hn].
    + unfold hget. rewrite app_nth2 by lia. rewrite Nat.sub_diag. cbn. split; assumption.
    + rewrite hget_out by (rewrite app_length; cbn; lia). split; reflexivity.
Qed.

Lemma conn_effect_lt s o h d : conn_effect s o = Some (h, d) -> (h < length (s_heap s))%nat.
Proof.
  destruct o; cbn [conn_effect]; try discriminate.
  - destruct (h0 <? length (s_heap s))%nat eqn:L; [|discriminate].
    destruct (snd (inc_connections _)); [|discriminate]. intros E; inversion E; subst. apply Nat.ltb_lt; exact L.
  - destruct (h0 <? length (s_heap s))%nat eqn:L; [|discriminate]. intros E; inversion E; subst. apply Nat.ltb_lt; exact L.
  - destruct (find_backend s c a) as [hh|]; [|discriminate].
    destruct (hh <? length (s_heap s))%nat eqn:L; [|discriminate]. intros E; inversion E; subst. apply Nat.ltb_lt; exact L.
  - destruct (h0 <? length (s_heap s))%nat eqn:L; [|discriminate].
    destruct (_ =? 0); [|discriminate]. intros E; inversion E; subst. apply Nat.ltb_lt; exact L.
  - destruct (backend_from_cluster s c w) as [[s' [hh|]] code]; [|discriminate].
    destruct code; [|discriminate].
    destruct (hh <? length (s_heap s))%nat eqn:L; [|discriminate]. intros E; inversion E; subst. apply Nat.ltb_lt; exact L.
  - destruct (backend_from_sticky s c sid w) as [[s' [hh|]] code]; [|discriminate].
    destruct code; [|discriminate].
    destruct (hh <? length (s_heap s))%nat eqn:L; [|discriminate]. intros E; inversion E; subst. apply Nat.ltb_lt; exact L.
Qed.

(* ------------------------------------------------------------------ *)
(** * Whole histories *)

Definition ghost := nat -> N.
Definition gupd (g : ghost) (e : option (nat * Z)) : ghost :=
  fun h => Z.to_N (Z.of_N (g h) + delta_at e h).

Fixpoint run_g (s : state) (g : ghost) (ops : list op) : state * ghost :=
  match ops with
  | [] => (s, g)
  | o :: t => run_g (apply_op s o) (gupd g (conn_effect s o)) t
  end.

(** the callers' discipline: a connection is only closed by somebody who holds one *)
Fixpoint disciplined_h (s : state) (g : ghost) (ops : list op) : Prop :=
  match ops with
  | [] => True
  | o :: t =>
    (forall h, conn_effect s o = Some (h, (-1)%Z) -> 0 < g h) /\
    disciplined_h (apply_op s o) (gupd g (conn_effect s o)) t
  end.

Definition all_bal (s : state) (g : ghost) : Prop := forall h, bal (hget (s_heap s) h) (g h).

Lemma step_bal s g o :
  all_bal s g -> (forall h, conn_effect s o = Some (h, (-1)%Z) -> 0 < g h) ->
  all_bal (apply_op s o) (gupd g (conn_effect s o)).
Proof.
  intros INV D h. unfold gupd.
  destruct (Nat.lt_ge_cases h (length (s_heap s))) as [L|L].
  - destruct (op_change s o h L) as [_ CC].
    apply (bal_change _ _ _ _ (INV h) CC).
    intros E. apply D. unfold delta_at in E.
    destruct (conn_effect s o) as [[h' d]|]; [|discriminate].
    destruct (h =? h')%nat eqn:Eh; [|discriminate]. apply Nat.eqb_eq in Eh. subst. reflexivity.
  - assert (Z0 : delta_at (conn_effect s o) h = 0%Z).
    { unfold delta_at. destruct (conn_effect s o) as [[h' d]|] eqn:CE; [|reflexivity].
      apply conn_effect_lt in CE. destruct (h =? h')%nat eqn:Eh; [|reflexivity].
      apply Nat.eqb_eq in Eh. lia. }
    rewrite Z0, Z.add_0_r, N2Z.id.
    destruct (INV h) as [G _]. rewrite hget_out in G by assumption. cbn in G.
    destruct (new_handle_zero s o h L) as [C N]. split; [rewrite C; exact G|]. rewrite N. discriminate.
Qed.

Lemma run_g_bal : forall ops s g,
  all_bal s g -> disciplined_h s g ops -> all_bal (fst (run_g s g ops)) (snd (run_g s g ops)).
Proof.
  induction ops as [|o t IH]; intros s g INV D; cbn [run_g fst snd]; [assumption|].
  destruct D as [D1 D2]. apply IH; [apply step_bal; assumption|exact D2].
Qed.

Lemma init_bal : all_bal init (fun _ => 0).
Proof. intros h. unfold init. cbn [s_heap]. rewrite hget_out by (cbn; lia). split; reflexivity. Qed.
