//! C01 driver (in-process tier): the real `SocketHandler::socket_write` and
//! `socket_write_vectored` of a mio `TcpStream` over a loopback pair. After
//! every write the peer reads back exactly the reported count and the driver
//! checks that it is the offered prefix (no loss, duplication, reordering).
use std::{
    io::{IoSlice, Read},
    net::{TcpListener, TcpStream as StdStream},
    time::Duration,
};

use mio::net::TcpStream;
use sozu_lib::socket::{SocketHandler, SocketResult};
use verif_harness::*;

struct St {
    sock: TcpStream,
    peer: StdStream,
}

fn new_pair() -> St {
    let l = TcpListener::bind("127.0.0.1:0").unwrap();
    let c = StdStream::connect(l.local_addr().unwrap()).unwrap();
    let (peer, _) = l.accept().unwrap();
    c.set_nonblocking(true).unwrap();
    c.set_nodelay(true).unwrap();
    peer.set_read_timeout(Some(Duration::from_secs(10))).unwrap();
    St { sock: TcpStream::from_std(c), peer }
}

fn pattern(n: usize, seed: u64) -> Vec<u8> {
    let mut x = seed.wrapping_mul(6364136223846793005).wrapping_add(1442695040888963407);
    let mut v = Vec::with_capacity(n);
    for _ in 0..n {
        x ^= x << 13;
        x ^= x >> 7;
        x ^= x << 17;
        v.push((x >> 24) as u8);
    }
    v
}

fn status_name(s: SocketResult) -> &'static str {
    match s {
        SocketResult::Continue => "Continue",
        SocketResult::WouldBlock => "WouldBlock",
        SocketResult::Closed => "Closed",
        SocketResult::Error => "Error",
    }
}

/// the peer reads exactly `n` bytes; they must be `want[..n]`
fn check_prefix(st: &mut St, want: &[u8], n: usize, out: &mut Out, what: &str) {
    if n > want.len() {
        out.viol("overcount", &format!("{what}: reported {n} bytes written, only {} offered", want.len()));
        return;
    }
    let mut got = vec![0u8; n];
    if let Err(e) = st.peer.read_exact(&mut got) {
        out.viol("lost", &format!("{what}: reported {n} bytes written but the peer could not read them: {e}"));
        return;
    }
    if got != want[..n] {
        let i = got.iter().zip(want.iter()).position(|(a, b)| a != b).unwrap_or(0);
        out.viol("corrupt", &format!("{what}: peer's bytes differ from the offered prefix at offset {i}"));
    }
    // nothing more may be in flight
    st.peer.set_nonblocking(true).unwrap();
    let mut one = [0u8; 1];
    if let Ok(k) = st.peer.read(&mut one) {
        if k > 0 {
            out.viol("dup", &format!("{what}: bytes beyond the reported count reached the peer"));
        }
    }
    st.peer.set_nonblocking(false).unwrap();
}

fn run(case: &Case, out: &mut Out) {
    let mut st = new_pair();
    for op in &case.ops {
        let a = &op.args;
        match op.name.as_str() {
            "new" => {
                st = new_pair();
                out.obs(&[]);
            }
            "write" | "bigwrite" => {
                let n = a[0].n() as usize;
                let buf = pattern(n, a[1].n() as u64);
                let (w, s) = st.sock.socket_write(&buf);
                out.obs(&[ts(if w == n { "all" } else { "partial" }), ts(status_name(s))]);
                if (s == SocketResult::Continue) != (w == n) {
                    out.viol("status", &format!("socket_write: {w}/{n} bytes with status {}", status_name(s)));
                }
                check_prefix(&mut st, &buf, w, out, &op.name);
            }
            "writev" | "bigwritev" => {
                let seed = a[0].n() as u64;
                let bufs: Vec<Vec<u8>> = a[1..].iter().enumerate().map(|(i, t)| pattern(t.n() as usize, seed + i as u64)).collect();
                let total: usize = bufs.iter().map(|b| b.len()).sum();
                let slices: Vec<IoSlice> = bufs.iter().map(|b| IoSlice::new(b)).collect();
                let (w, s) = st.sock.socket_write_vectored(&slices);
                out.obs(&[ts(if w == total { "all" } else { "partial" }), ts(status_name(s))]);
                let flat: Vec<u8> = bufs.concat();
                check_prefix(&mut st, &flat, w, out, &op.name);
            }
            other => {
                out.note(&format!("invalid-case: unknown op {other}"));
                out.obs(&[]);
            }
        }
    }
}

fn main() {
    drive(run);
}
