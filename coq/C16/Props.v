(** C16 — property theorems. *)
From Coq Require Import List Arith ZArith NArith Bool Lia.
From SV Require Import C16.Model C16.Proofs.
Import ListNotations.
Open Scope N_scope.
