(** C08 — one row of the arms table generated from
    Server::read_channel_messages_and_notify, Server::notify,
    Server::notify_proxys and Request::get_destinations.

    A [path] is one control-flow path through an arm: how many times it calls
    [push_queue] and whether it leaves the function by [return]. *)
From Coq Require Import List String Bool Arith.

Definition path : Type := (nat * bool)%type.

Record arm_row := mkRow {
  a_name : string;               (* RequestType variant *)
  s0 : option (list path);       (* answered in read_channel_messages_and_notify, never reaches notify *)
  s1 : list path;                (* its arm in Server::notify ([(0,false)]: the default arm) *)
  s2 : list path;                (* its arm in the first match of notify_proxys, after dispatch *)
  dests : nat;                   (* number of proxies get_destinations names *)
  s4 : option (list path);       (* its arm in the last match of notify_proxys (None: the default arm) *)
}.
