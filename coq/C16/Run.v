(** C16 — token interface of the model for the correspondence check
    (same observations as harness/src/bin/c16.rs). *)
From Coq Require Import List Arith ZArith NArith String Bool.
From SV Require Import Common.Tok C16.Model C16.DModel.
Import ListNotations.
Open Scope string_scope.
Open Scope list_scope.

Definition zN (z : Z) : N := Z.to_N z.
Definition tN (n : N) : tok := TN (Z.of_N n).
Definition tnat (n : nat) : tok := TN (Z.of_nat n).

Definition keys : list key := [(0, 0); (0, 1); (0, 2); (1, 0); (1, 1); (1, 2)]%N.
Definition toks4 : list N := [0; 1; 2; 3]%N.

Fixpoint dedupN (l : list N) : list N :=
  match l with
  | [] => []
  | x :: t => if existsb (N.eqb x) t then dedupN t else x :: dedupN t
  end.

Definition footprint (s : sm) : list tok :=
  [ tnat (List.length (dedupN (map (fun e => fst (fst e)) (fwd s))));
    tnat (List.length (fwd s));
    tnat (List.length (filter (fun e => N.eqb (snd e) 0) (fwd s)));
    tnat (List.length (filter (fun e => match snd e with [] => true | _ => false end) (rev s)));
    tnat (List.length (rev s));
    tnat (fold_right (fun e a => List.length (snd e) + a)%nat 0%nat (rev s)) ].

Definition dump (st : state) : list tok :=
  let s := st_sm st in
  [ tN (max s); tN (nb s); tn_bool (can_accept s); tN (limit s); tN (slab s); tn_bool (at_capacity s) ]
    ++ map (fun k => tN (fwd_get k (fwd s))) keys
    ++ flat_map (fun t => map (fun k => tn_bool (mem k (rev_get t (rev s)))) keys) toks4
    ++ footprint s.

Inductive cmd := CmdOp (o : op) | CmdDump | CmdNop | CmdBad
  | CmdPoolNew (mn mx : N) | CmdPool (o : pop) | CmdDrain (o : dop).

Definition mk_scope (s c b : Z) : scope :=
  if Z.eqb s 0 then SProxy else if Z.eqb s 1 then SCluster (zN c) else SBackend (zN c) (zN b).

(** every gauge of the small universe the cases use (proxy, clusters 0-1, their backends 0-1, keys 0-1),
    -1 when there is no entry, then the number of clamped underflows *)
Definition drain_scopes : list scope :=
  [SProxy; SCluster 0; SCluster 1; SBackend 0 0; SBackend 0 1; SBackend 1 0; SBackend 1 1]%N.
Definition drain_toks (d : drain) : list tok :=
  flat_map (fun sc => map (fun k => match lookup d sc k with Some v => tN v | None => TN (-1) end) [0; 1]%N) drain_scopes
  ++ [tN (d_under d)].

Definition parse (t : list tok) : cmd :=
  match t with
  | TS name :: args =>
    if name =? "m_recv" then
      match args with
      | [TN sc; TN c; TN b; TN k; TN kind; TN v] =>
        CmdDrain (DRecv (mk_scope sc c b) (zN k) (if Z.eqb kind 0 then MGauge (zN v) else MAdd v))
      | _ => CmdBad end
    else if name =? "m_clear" then CmdDrain DClear
    else if name =? "m_rmcluster" then
      match args with [TN c] => CmdDrain (DRemoveCluster (zN c)) | _ => CmdBad end
    else if name =? "m_addcluster" then
      match args with [TN c] => CmdDrain (DAddCluster (zN c)) | _ => CmdBad end
    else if name =? "m_rmbackend" then
      match args with [TN c; TN b] => CmdDrain (DRemoveBackend (zN c) (zN b)) | _ => CmdBad end
    else if name =? "m_detail" then
      match args with [TN l] => CmdDrain (DDetail (zN l)) | _ => CmdBad end
    else if name =? "m_enable" then
      match args with [TN e] => CmdDrain (DEnable (Z.eqb e 1)) | _ => CmdBad end
    else if name =? "new" then
      match args with [TN m; TN l] => CmdOp (ONew (zN m) (zN l)) | _ => CmdBad end
    else if name =? "accept" then
      match args with [TN t] => CmdOp (OAccept (zN t)) | _ => CmdBad end
    else if name =? "close" then
      match args with [TN t] => CmdOp (OClose (zN t)) | _ => CmdBad end
    else if name =? "track" then
      match args with
      | [TN t; TN c; TN i; TN ovp; TN ov] =>
        CmdOp (OTrack (zN t) (zN c, zN i) (if Z.eqb ovp 1 then Some (zN ov) else None))
      | _ => CmdBad end
    else if name =? "setlimit" then
      match args with [TN n] => CmdOp (OSetLimit (zN n)) | _ => CmdBad end
    else if name =? "fill" then
      match args with [TN n] => CmdOp (OFill (zN n)) | _ => CmdBad end
    else if name =? "unfill" then
      match args with [TN n] => CmdOp (OUnfill (zN n)) | _ => CmdBad end
    else if name =? "backfill" then
      match args with [TN n] => CmdOp (OBackfill (zN n)) | _ => CmdBad end
    else if name =? "unbackfill" then
      match args with [TN n] => CmdOp (OUnbackfill (zN n)) | _ => CmdBad end
    else if name =? "check" then CmdOp OCheck
    else if name =? "dump" then CmdDump
    else if name =? "pool_new" then
      match args with [TN a; TN b] => CmdPoolNew (zN a) (zN b) | _ => CmdBad end
    else if name =? "checkout" then
      match args with [TN i] => CmdPool (PCheckout (zN i)) | _ => CmdBad end
    else if name =? "checkin" then
      match args with [TN i] => CmdPool (PCheckin (zN i)) | _ => CmdBad end
    else if name =? "bb" then CmdNop      (* black-box run: nothing of the model is involved *)
    else CmdBad
  | _ => CmdBad
  end.

Definition observe (st : state) (o : op) (st' : state) : list tok :=
  let s := st_sm st in let s' := st_sm st' in
  match o with
  | OAccept t =>
    if lmem t (live st) then [TS "live"] else
    [ tn_bool (can_accept s);
      tn_bool (can_accept s && snd (check_limits s));
      tN (nb s'); tn_bool (can_accept s') ]
  | OClose t => [ tn_bool (lmem t (live st)); tN (nb s'); tn_bool (can_accept s') ]
  | OTrack t k ov => if lmem t (live st) then [ tn_bool (at_limit s t k ov) ] else [TS "dead"]
  | OFill _ | OUnfill _ | OBackfill _ | OUnbackfill _ => [ tN (slab s') ]
  | OCheck => [ tn_bool (snd (check_limits s)); tn_bool (can_accept s') ]
  | _ => []
  end.

Definition pool_toks (p : pool) : list tok := [tN (p_used p); tN (p_cap p); tN (p_max p)].

Definition step (spd : state * pool * drain) (t : list tok) : (state * pool * drain) * list tok :=
  let '(st, pl, dr) := spd in
  match parse t with
  | CmdOp o => let st' := apply_op st o in ((st', pl, dr), if panicked st' then [TS "panic"] else observe st o st')
  | CmdDump => (spd, dump st)
  | CmdNop => (spd, [])
  | CmdPoolNew mn mx => let pl' := pool_new mn mx in ((st, pl', dr), pool_toks pl')
  | CmdPool o =>
    let pl' := pool_step pl o in
    ((st, pl', dr),
     match o with
     | PCheckout id => tn_bool (snd (pool_checkout pl id)) :: pool_toks pl'
     | PCheckin id => tn_bool (lmem id (p_held pl)) :: pool_toks pl'
     end)
  | CmdDrain o => let dr' := dstep dr o in ((st, pl, dr'), drain_toks dr')
  | CmdBad => (spd, [TS "badop"])
  end.

Fixpoint run_from (spd : state * pool * drain) (ops : list (list tok)) : list (list tok) :=
  match ops with
  | [] => []
  | op :: ops' => let '(spd', o) := step spd op in o :: run_from spd' ops'
  end.

Definition run_case (ops : list (list tok)) : list (list tok) := run_from (init, pool_new 0 0, drain_init) ops.
