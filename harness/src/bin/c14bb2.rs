//! C14 black-box tier, part 2: the limits that are not byte windows.
//!
//! usage: c14bb2 pad <frames> <data bytes> <pad bytes>
//!          receiver side: a raw H2/TLS client uploads `frames` PADDED DATA frames and keeps an exact ledger
//!          of BOTH its send windows (RFC 9113 6.1/6.9.1: the whole frame payload, padding included, counts);
//!          the listener's connection window is the 65535 default, so the upload only completes if sozu
//!          credits back what it consumed, per stream and per connection.
//!        c14bb2 cancel
//!          h2c backend announcing MAX_CONCURRENT_STREAMS = 1 that keeps the first response open; the client
//!          cancels that request (RST_STREAM) and sends another one.
//!        c14bb2 mcs0
//!          h2c backend that lowers MAX_CONCURRENT_STREAMS to 0 on an established idle connection; the next
//!          request must not open a stream there once sozu has acknowledged the SETTINGS.
//!        c14bb2 shrink
//!          the backend shrinks SETTINGS_INITIAL_WINDOW_SIZE below the data in flight (window -64535), then grants
//!          64545: exactly 10 more bytes may follow; its byte ledger is race-free (it only grants after silence).
//!        c14bb2 burst <n>
//!          h2c backend announcing MAX_CONCURRENT_STREAMS = 1; the client opens n requests at once.
//! The backend keeps the RFC 9113 5.1 stream states per connection; a HEADERS that makes more streams
//! open than the limit sozu has ACKNOWLEDGED on that connection is `viol over-max-concurrent`.
#[path = "../h2bb.rs"]
mod h2bb;
use std::{
    collections::BTreeSet,
    io::{Read, Write},
    net::{SocketAddr, TcpListener},
    sync::mpsc,
    time::{Duration, Instant},
};

use h2bb::*;

#[derive(Clone, Copy)]
struct BackCfg {
    mcs: Option<u32>,
    /// keep the first response of each connection open (HEADERS + one DATA, no END_STREAM)
    hold_first: bool,
    /// after the first complete answer, send SETTINGS(MAX_CONCURRENT_STREAMS = 0)
    mcs0_after_first: bool,
    /// answer every request only after this delay (so concurrent requests really overlap)
    delay_ms: u64,
    /// byte ledger with a SETTINGS shrink below the data in flight: once a stream has used its whole 65535 window,
    /// announce INITIAL_WINDOW_SIZE = 1000 (the window becomes -64535), then grant 64545: exactly 10 more bytes are allowed
    shrink: bool,
    /// connection receive-window ledger: the backend keeps the default 65535 connection window toward itself (no enlarging
    /// WINDOW_UPDATE), sends three more (empty) SETTINGS after its first answer, and accounts every connection-level
    /// WINDOW_UPDATE sozu sends against the bytes it sent to sozu plus the one-time enlargement (1 MiB - 65535)
    resettings: bool,
}

fn conn_thread(mut s: std::net::TcpStream, cfg: BackCfg, conn_no: usize, tx: mpsc::Sender<String>) {
    let _ = s.set_read_timeout(Some(Duration::from_millis(50)));
    let mut due: Vec<(Instant, u32)> = vec![];
    let mut acc: Vec<u8> = vec![];
    let mut buf = [0u8; 65536];
    let t0 = Instant::now();
    while acc.len() < 24 && t0.elapsed() < Duration::from_secs(5) {
        match s.read(&mut buf) {
            Ok(0) => return,
            Ok(n) => acc.extend_from_slice(&buf[..n]),
            Err(_) => {}
        }
    }
    if acc.len() < 24 {
        return;
    }
    acc.drain(..24);
    let mut first = vec![];
    if let Some(m) = cfg.mcs {
        first.push((3u16, m));
    }
    let _ = s.write_all(&settings(&first));
    if !cfg.resettings {
        let _ = s.write_all(&frame(T_WU, 0, 0, &(1u32 << 24).to_be_bytes()));
    }
    let (mut conn_credit_from_sozu, mut sent_to_sozu, mut over_flagged) = (0i64, 0i64, false);
    // limits we sent, in order; `acks` counts the SETTINGS ACKs received: the limit in force for sozu is the
    // last one it acknowledged (before any ACK: unlimited, RFC 9113 6.5.2)
    let mut sent_limits: Vec<Option<u32>> = vec![cfg.mcs];
    let mut acks = 0usize;
    let mut open: BTreeSet<u32> = BTreeSet::new(); // open or half-closed from the backend's point of view
    let mut held: BTreeSet<u32> = BTreeSet::new();
    let mut answered = 0usize;
    let mut idle = 0;
    let (mut received, mut credit, mut flagged, mut phase, mut shrink_sid) = (0i64, 65535i64, false, 0u32, 0u32);
    let mut owed_conn = 0u32;
    let mut owed_stream: std::collections::HashMap<u32, u32> = std::collections::HashMap::new();
    loop {
        let (frames, used) = parse_frames(&acc);
        acc.drain(..used);
        for f in frames {
            idle = 0;
            match f.t {
                T_SETTINGS if f.flags & 1 == 0 => {
                    let _ = s.write_all(&frame(T_SETTINGS, 1, 0, &[]));
                }
                T_SETTINGS => {
                    acks += 1;
                    let _ = tx.send(format!("obs conn{conn_no} settings-ack {acks}"));
                }
                T_PING if f.flags & 1 == 0 => {
                    let _ = s.write_all(&frame(T_PING, 1, 0, &f.payload));
                }
                T_WU if f.sid == 0 && f.payload.len() == 4 && cfg.resettings => {
                    let inc = u32::from_be_bytes([f.payload[0], f.payload[1], f.payload[2], f.payload[3]]) as i64;
                    sent_to_sozu = answered as i64 * 6 + held.len() as i64 * 29;
                    conn_credit_from_sozu += inc;
                    let _ = tx.send(format!("obs conn{conn_no} connection-credit +{inc} total={conn_credit_from_sozu} sent={sent_to_sozu}"));
                    let allowance = (1i64 << 20) - 65535;
                    if conn_credit_from_sozu > sent_to_sozu + allowance && !over_flagged {
                        over_flagged = true;
                        let _ = tx.send(format!(
                            "viol receiver-over-credit backend connection {conn_no}: sozu credited {conn_credit_from_sozu} bytes on the connection window, the backend sent {sent_to_sozu} flow-controlled bytes and the configured window allows a one-time enlargement of {allowance}"
                        ));
                    }
                }
                T_HEADERS => {
                    if !open.contains(&f.sid) {
                        open.insert(f.sid);
                        let limit = if acks == 0 { None } else { sent_limits[(acks - 1).min(sent_limits.len() - 1)] };
                        let _ = tx.send(format!("obs conn{conn_no} headers stream={} open_now={} acked_limit={:?}", f.sid, open.len(), limit));
                        if let Some(l) = limit {
                            if open.len() as u32 > l {
                                let _ = tx.send(format!(
                                    "viol over-max-concurrent backend connection {conn_no}: HEADERS for stream {} makes {} streams open ({:?}) while sozu has acknowledged MAX_CONCURRENT_STREAMS = {l}",
                                    f.sid, open.len(), open
                                ));
                            }
                        }
                    }
                    if f.flags & 1 != 0 {
                        due.push((Instant::now() + Duration::from_millis(cfg.delay_ms), f.sid));
                    }
                }
                T_DATA if cfg.shrink => {
                    let n = f.payload.len() as i64;
                    received += n;
                    if received > credit && !flagged {
                        flagged = true;
                        let _ = tx.send(format!(
                            "viol over-stream-window backend stream {}: {received} DATA bytes received, {credit} granted (65535, then SETTINGS initial window 1000 = -64535, then WINDOW_UPDATE +64545; phase {phase})",
                            f.sid
                        ));
                    }
                    shrink_sid = f.sid;
                    if f.flags & 1 != 0 {
                        due.push((Instant::now(), f.sid));
                    }
                }
                T_DATA => {
                    if !f.payload.is_empty() {
                        owed_conn += f.payload.len() as u32;
                        let e = owed_stream.entry(f.sid).or_insert(0u32);
                        *e += f.payload.len() as u32;
                        if f.flags & 1 == 0 && *e >= 16384 {
                            let _ = s.write_all(&frame(T_WU, 0, f.sid, &e.to_be_bytes()));
                            *e = 0;
                        }
                        if owed_conn >= 32768 {
                            let _ = s.write_all(&frame(T_WU, 0, 0, &owed_conn.to_be_bytes()));
                            owed_conn = 0;
                        }
                    }
                    if f.flags & 1 != 0 {
                        due.push((Instant::now() + Duration::from_millis(cfg.delay_ms), f.sid));
                    }
                }
                T_RST => {
                    let _ = tx.send(format!("obs conn{conn_no} rst stream={} code={:?}", f.sid, f.code()));
                    open.remove(&f.sid);
                    held.remove(&f.sid);
                }
                T_GOAWAY => return,
                _ => {}
            }
        }
        let now = Instant::now();
        let ready: Vec<u32> = due.iter().filter(|(t, _)| *t <= now).map(|(_, sid)| *sid).collect();
        due.retain(|(t, _)| *t > now);
        for sid in ready {
            if open.contains(&sid) {
                answer(&mut s, sid, cfg, &mut open, &mut held, &mut answered, &mut sent_limits);
            }
        }
        match s.read(&mut buf) {
            Ok(0) => return,
            Ok(n) => acc.extend_from_slice(&buf[..n]),
            Err(e) if e.kind() == std::io::ErrorKind::WouldBlock || e.kind() == std::io::ErrorKind::TimedOut => {
                idle += 1;
                // silence: the sender is blocked (or done)
                if cfg.shrink && shrink_sid != 0 && idle >= 4 && open.contains(&shrink_sid) {
                    if phase == 0 && received >= 65535 {
                        let mut b = settings(&[(4, 1000)]);
                        b.extend(frame(T_WU, 0, shrink_sid, &64545u32.to_be_bytes()));
                        let _ = s.write_all(&b);
                        credit += 1000 - 65535 + 64545;
                        phase = 1;
                        idle = 0;
                    } else if phase >= 1 && received >= credit {
                        // let the rest through, one window at a time
                        let _ = s.write_all(&frame(T_WU, 0, shrink_sid, &60000u32.to_be_bytes()));
                        credit += 60000;
                        phase += 1;
                        idle = 0;
                    }
                }
                if idle > 400 {
                    return;
                }
            }
            Err(_) => return,
        }
    }
}

fn answer(
    s: &mut std::net::TcpStream,
    sid: u32,
    cfg: BackCfg,
    open: &mut BTreeSet<u32>,
    held: &mut BTreeSet<u32>,
    answered: &mut usize,
    sent_limits: &mut Vec<Option<u32>>,
) {
    if cfg.hold_first && *answered == 0 && held.is_empty() {
        // response left open: the stream stays half-closed (remote) here until somebody resets it
        let mut b = frame(T_HEADERS, 4, sid, &[0x88]);
        b.extend(frame(T_DATA, 0, sid, b"first part of a long response"));
        let _ = s.write_all(&b);
        held.insert(sid);
        return;
    }
    let mut b = frame(T_HEADERS, 4, sid, &[0x88]);
    b.extend(frame(T_DATA, 1, sid, b"h2pong"));
    let _ = s.write_all(&b);
    open.remove(&sid);
    *answered += 1;
    if cfg.resettings && *answered == 1 {
        // three more SETTINGS frames (nothing changes): legal at any time, each must be acknowledged and nothing else
        for _ in 0..3 {
            let _ = s.write_all(&settings(&[]));
            sent_limits.push(None);
        }
    }
    if cfg.mcs0_after_first && *answered == 1 {
        let _ = s.write_all(&settings(&[(3, 0)]));
        sent_limits.push(Some(0));
    }
}

fn backend(listener: TcpListener, cfg: BackCfg, tx: mpsc::Sender<String>) {
    let mut n = 0;
    for s in listener.incoming() {
        let Ok(s) = s else { continue };
        n += 1;
        let txc = tx.clone();
        let _ = tx.send(format!("obs backend-connection {n}"));
        std::thread::spawn(move || conn_thread(s, cfg, n, txc));
    }
}

/// waits for the answer (HEADERS) of `sid`: Some(first HPACK byte) / None
/// response body of the `leftover` mode's backend
const LEFTOVER_BODY: usize = 120000;

fn wait_answer(p: &mut Peer, sid: u32, secs: u64) -> Option<u8> {
    let fr = p.read_until(Duration::from_secs(secs), |f| f.iter().any(|x| x.sid == sid && (x.t == T_HEADERS || x.t == T_RST)));
    fr.iter().find(|x| x.sid == sid && x.t == T_HEADERS).and_then(|x| x.payload.first().copied())
}

/// sozu's SETTINGS_INITIAL_WINDOW_SIZE: what we may send on a stream before any credit (65535 when not announced)
fn announced_stream_window(p: &Peer) -> i64 {
    let mut win = 65535i64;
    for f in p.early.iter().filter(|f| f.t == T_SETTINGS && f.flags & 1 == 0) {
        for e in f.payload.chunks_exact(6).filter(|e| e[0] == 0 && e[1] == 4) {
            win = u32::from_be_bytes([e[2], e[3], e[4], e[5]]) as i64;
        }
    }
    win
}

fn main() {
    let args: Vec<String> = std::env::args().collect();
    let mode = args.get(1).cloned().unwrap_or_default();
    let _ = sozu_command_lib::logging::setup_logging("file:///dev/null", false, None, None, None, "error", "C14BB2");
    let front: SocketAddr = format!("127.0.0.1:{}", free_port()).parse().unwrap();
    let back_listener = TcpListener::bind("127.0.0.1:0").unwrap();
    let back = back_listener.local_addr().unwrap();
    let (tx, rx) = mpsc::channel::<String>();
    let cfg = match mode.as_str() {
        "cancel" => BackCfg { mcs: Some(1), hold_first: true, mcs0_after_first: false, delay_ms: 0, shrink: false, resettings: false },
        "mcs0" => BackCfg { mcs: Some(100), hold_first: false, mcs0_after_first: true, delay_ms: 0, shrink: false, resettings: false },
        "shrink" => BackCfg { mcs: None, hold_first: false, mcs0_after_first: false, delay_ms: 0, shrink: true, resettings: false },
        "burst" => BackCfg { mcs: Some(1), hold_first: false, mcs0_after_first: false, delay_ms: 300, shrink: false, resettings: false },
        "resettings" => BackCfg { mcs: None, hold_first: false, mcs0_after_first: false, delay_ms: 0, shrink: false, resettings: true },
        _ => BackCfg { mcs: None, hold_first: false, mcs0_after_first: false, delay_ms: 0, shrink: false, resettings: false },
    };
    let txb = tx.clone();
    if mode == "leftover" {
        // an HTTP/1.1 backend answering every request with LEFTOVER_BODY bytes (Content-Length framing)
        std::thread::spawn(move || {
            for s in back_listener.incoming() {
                let Ok(mut s) = s else { continue };
                std::thread::spawn(move || {
                    let _ = s.set_read_timeout(Some(Duration::from_secs(20)));
                    let mut acc: Vec<u8> = vec![];
                    let mut buf = [0u8; 8192];
                    loop {
                        match s.read(&mut buf) {
                            Ok(0) | Err(_) => return,
                            Ok(n) => acc.extend_from_slice(&buf[..n]),
                        }
                        while let Some(pos) = acc.windows(4).position(|w| w == b"\r\n\r\n") {
                            acc.drain(..pos + 4);
                            let head = format!("HTTP/1.1 200 OK\r\nContent-Length: {LEFTOVER_BODY}\r\n\r\n");
                            if s.write_all(head.as_bytes()).is_err() || s.write_all(&vec![b'L'; LEFTOVER_BODY]).is_err() {
                                return;
                            }
                        }
                    }
                });
            }
        });
    } else {
        std::thread::spawn(move || backend(back_listener, cfg, txb));
    }
    let mut w = start_worker();
    let mut l = https_listener_config(front);
    if mode == "pad" || mode == "refused" {
        l.h2_initial_connection_window = Some(65535);
    }
    if mode == "refused" {
        l.h2_max_concurrent_streams = Some(1);
    }
    // "tiny": the same upload with the default (1 MiB) connection window, so thousands of small frames queue up for one ready() call
    configure_https(&mut w, l, front, back, mode != "leftover");

    let Some(mut p) = Peer::connect(front) else {
        println!("viol bb-infra could not connect");
        std::process::exit(0);
    };
    if !p.handshake(&[]) {
        println!("viol bb-infra handshake failed");
        std::process::exit(0);
    }
    match mode.as_str() {
        "pad" | "tiny" => {
            let nframes: usize = args.get(2).and_then(|x| x.parse().ok()).unwrap_or(600);
            let dlen: usize = args.get(3).and_then(|x| x.parse().ok()).unwrap_or(10);
            let pad: usize = args.get(4).and_then(|x| x.parse().ok()).unwrap_or(255).min(255);
            let wire = 1 + dlen + pad;
            let announced = announced_stream_window(&p);
            let (mut win, mut conn_win) = (announced, 65535i64);
            for f in &p.early {
                if f.t == T_WU && f.sid == 0 && f.payload.len() == 4 {
                    conn_win += u32::from_be_bytes([f.payload[0], f.payload[1], f.payload[2], f.payload[3]]) as i64;
                }
            }
            let (mut credit_stream, mut credit_conn) = (0i64, 0i64);
            p.send(&frame(T_HEADERS, 4, 1, &request_block(true, "/padded")));
            let mut sent = 0usize;
            let t0 = Instant::now();
            let mut status = None;
            let mut last_progress = Instant::now();
            while status.is_none() && !p.closed && t0.elapsed() < Duration::from_secs(25) && last_progress.elapsed() < Duration::from_secs(6) {
                let mut burst = 0;
                while sent < nframes && win >= wire as i64 && conn_win >= wire as i64 && burst < 64 {
                    let mut payload = vec![pad as u8];
                    payload.extend(std::iter::repeat(b'p').take(dlen));
                    payload.extend(std::iter::repeat(0u8).take(pad));
                    sent += 1;
                    let last = sent == nframes;
                    p.send(&frame(T_DATA, 0x8 | last as u8, 1, &payload));
                    win -= wire as i64;
                    conn_win -= wire as i64;
                    burst += 1;
                    last_progress = Instant::now();
                }
                let fr = p.read_until(Duration::from_millis(if sent < nframes && win >= wire as i64 && conn_win >= wire as i64 { 1 } else { 200 }), |f| !f.is_empty());
                for f in fr {
                    match f.t {
                        T_WU if f.payload.len() == 4 => {
                            let inc = u32::from_be_bytes([f.payload[0], f.payload[1], f.payload[2], f.payload[3]]) as i64;
                            if f.sid == 0 {
                                conn_win += inc;
                                credit_conn += inc;
                            } else if f.sid == 1 {
                                win += inc;
                                credit_stream += inc;
                            }
                            last_progress = Instant::now();
                        }
                        T_HEADERS if f.sid == 1 => {
                            if f.payload.first() != Some(&0x88) {
                                println!("obs pad response-headers {}", String::from_utf8_lossy(&f.payload).replace(|c: char| !c.is_ascii_graphic(), "."));
                            }
                            status = f.payload.first().copied()
                        }
                        T_RST if f.sid == 1 => status = Some(0),
                        T_GOAWAY => status = Some(1),
                        _ => {}
                    }
                }
            }
            let consumed = (sent * wire) as i64;
            println!(
                "obs pad frames_sent={sent} of {nframes} wire_per_frame={wire} consumed={consumed} credit_stream={credit_stream} credit_conn={credit_conn} win={win} conn_win={conn_win} status={status:?}"
            );
            if status != Some(0x88) {
                println!(
                    "viol receiver-credit-stalled padded upload: {sent} of {nframes} frames sent ({consumed} wire bytes incl. padding), sozu credited back {credit_stream} on the stream and {credit_conn} on the connection; client windows left {win}/{conn_win}, answer {status:?}"
                );
            }
            // tiny mode: the listener enlarges the connection window once (1 MiB - 65535) on top of what it consumes
            let allowance = if mode == "tiny" { (1i64 << 20) - 65535 } else { 0 };
            // the stream buffers of the worker hold 16400 bytes (buffer_size 16393 rounded up by the pool): a larger stream window lets a DATA frame park the connection
            if announced > 16400 {
                println!("viol stream-window-over-buffer sozu announces a stream window of {announced} bytes for stream buffers of 16400 bytes (buffer_size 16393, rounded up by the pool)");
            }
            if credit_stream > consumed || credit_conn > consumed + allowance {
                println!("viol receiver-over-credit sozu credited more than it consumed: stream {credit_stream}, connection {credit_conn}, consumed {consumed}");
            }
        }
        "cancel" => {
            p.send(&frame(T_HEADERS, 5, 1, &request_block(false, "/held")));
            let a1 = wait_answer(&mut p, 1, 4);
            p.send(&frame(T_RST, 0, 1, &8u32.to_be_bytes()));
            std::thread::sleep(Duration::from_millis(300));
            p.send(&frame(T_HEADERS, 5, 3, &request_block(false, "/next")));
            let a3 = wait_answer(&mut p, 3, 6);
            println!("obs cancel first_answer={a1:?} second_answer={a3:?}");
            if a3 != Some(0x88) {
                println!("viol request-lost the request sent after a cancelled one was not answered 200 (first HPACK byte {a3:?})");
            }
        }
        "refused" => {
            // listener: MAX_CONCURRENT_STREAMS = 1, connection window 65535.  One burst: five POSTs, then 16000 bytes of DATA on
            // each of the four that sozu refuses (64000 bytes of the connection window spent on streams that are gone), then the
            // surviving stream uploads 60000 bytes within the windows sozu grants.  Every byte spent must come back.
            let announced = announced_stream_window(&p);
            let mut b = vec![];
            for sid in [1u32, 3, 5, 7, 9] {
                b.extend(frame(T_HEADERS, 4, sid, &request_block(true, "/upload")));
            }
            for sid in [3u32, 5, 7, 9] {
                b.extend(frame(T_DATA, 0, sid, &vec![b'r'; 16000]));
            }
            p.send(&b);
            let (mut win, mut conn_win) = (announced, 65535i64 - 64000);
            for f in &p.early {
                if f.t == T_WU && f.sid == 0 && f.payload.len() == 4 {
                    conn_win += u32::from_be_bytes([f.payload[0], f.payload[1], f.payload[2], f.payload[3]]) as i64;
                }
            }
            let (body, mut sent, mut refused) = (60000usize, 0usize, 0usize);
            let mut status = None;
            let mut last_progress = Instant::now();
            while status.is_none() && !p.closed && last_progress.elapsed() < Duration::from_secs(6) {
                while sent < body && win > 0 && conn_win > 0 {
                    let n = (body - sent).min(win as usize).min(conn_win as usize).min(16384);
                    sent += n;
                    p.send(&frame(T_DATA, (sent == body) as u8, 1, &vec![b'u'; n]));
                    win -= n as i64;
                    conn_win -= n as i64;
                    last_progress = Instant::now();
                }
                for f in p.read_until(Duration::from_millis(200), |f| !f.is_empty()) {
                    match f.t {
                        T_WU if f.payload.len() == 4 => {
                            let inc = u32::from_be_bytes([f.payload[0], f.payload[1], f.payload[2], f.payload[3]]) as i64;
                            if f.sid == 0 {
                                conn_win += inc;
                            } else if f.sid == 1 {
                                win += inc;
                            }
                            last_progress = Instant::now();
                        }
                        T_RST if f.sid != 1 => refused += 1,
                        T_HEADERS if f.sid == 1 => status = f.payload.first().copied(),
                        T_RST if f.sid == 1 => status = Some(0),
                        T_GOAWAY => status = Some(1),
                        _ => {}
                    }
                }
            }
            println!("obs refused refused_streams={refused} uploaded={sent} of {body} win={win} conn_win={conn_win} status={status:?}");
            if refused < 4 {
                println!("obs refused note: only {refused} of the 4 extra streams were refused");
            }
            if status != Some(0x88) {
                println!(
                    "viol receiver-credit-stalled 64000 bytes of DATA were spent on {refused} refused streams, then the surviving upload stopped at {sent} of {body} bytes (client windows left {win}/{conn_win}, answer {status:?}): the connection window was not replenished for DATA of streams that are gone"
                );
            }
        }
        "leftover" => {
            // sequential responses of LEFTOVER_BODY bytes on one connection; what a stream may send before any credit is the
            // client's initial window (65535), whatever the previous stream of the connection left behind
            p.send(&frame(T_WU, 0, 0, &(1u32 << 24).to_be_bytes()));
            let mut check = |sid: u32, grant: u32| {
                p.send(&frame(T_HEADERS, 5, sid, &request_block(false, "/big")));
                // everything sozu sends without stream credit, until it has been quiet for 700 ms
                let mut got = 0usize;
                let mut quiet = Instant::now();
                while quiet.elapsed() < Duration::from_millis(700) && !p.closed {
                    for f in p.read_until(Duration::from_millis(100), |f| !f.is_empty()) {
                        if f.t == T_DATA && f.sid == sid {
                            got += f.payload.len();
                            quiet = Instant::now();
                        }
                    }
                }
                println!("obs leftover stream={sid} sent_without_credit={got}");
                if got > 65535 {
                    println!("viol over-stream-window stream {sid}: {got} bytes of response DATA sent before any WINDOW_UPDATE, the client's initial window is 65535");
                } else if got < 65535 {
                    println!("viol transfer-stalled stream {sid}: only {got} bytes of response DATA sent although the client's initial window allows 65535 (the stream started with what its predecessor left)");
                }
                // let it finish, leaving `65535 + grant - LEFTOVER_BODY` behind
                p.send(&frame(T_WU, 0, sid, &grant.to_be_bytes()));
                let mut done = false;
                let t0 = Instant::now();
                while !done && t0.elapsed() < Duration::from_secs(6) && !p.closed {
                    for f in p.read_until(Duration::from_millis(200), |f| !f.is_empty()) {
                        if f.sid == sid && f.t == T_DATA {
                            got += f.payload.len();
                            done |= f.flags & 1 == 1;
                        }
                    }
                }
                if !done || got != LEFTOVER_BODY {
                    println!("viol transfer-stalled stream {sid}: {got} of {LEFTOVER_BODY} bytes received after a WINDOW_UPDATE of {grant}");
                }
            };
            check(1, 200000);                             // generous: 145535 left behind
            check(3, (LEFTOVER_BODY - 65535) as u32);      // thrifty: exactly 0 left behind
            check(5, 200000);
        }
        "hpack2" => {
            // two SETTINGS_HEADER_TABLE_SIZE changes before sozu's next header block: flush (0), then allow 4096 again.
            // RFC 7541 4.2: the block must start with the smallest size of the interval, then the final one.
            p.send(&[settings(&[(1, 0)]), settings(&[(1, 4096)]), frame(T_HEADERS, 5, 1, &request_block(false, "/hp"))].concat());
            let fr = p.read_until(Duration::from_secs(4), |f| f.iter().any(|x| x.sid == 1 && x.t == T_HEADERS));
            let block = fr.iter().find(|x| x.sid == 1 && x.t == T_HEADERS).map(|x| x.payload.clone()).unwrap_or_default();
            // leading dynamic-table-size updates (001xxxxx, 5-bit prefix integers)
            let mut sizes: Vec<u64> = vec![];
            let mut i = 0;
            while i < block.len() && block[i] & 0xe0 == 0x20 {
                let mut v = (block[i] & 0x1f) as u64;
                i += 1;
                if v == 31 {
                    let mut shift = 0;
                    while i < block.len() {
                        v += ((block[i] & 0x7f) as u64) << shift;
                        shift += 7;
                        i += 1;
                        if block[i - 1] & 0x80 == 0 {
                            break;
                        }
                    }
                }
                sizes.push(v);
            }
            println!("obs hpack2 size_updates={sizes:?} block_starts={:02x?}", &block[..block.len().min(8)]);
            if block.is_empty() {
                println!("viol request-lost no response header block after two table-size changes");
            } else if sizes.first() != Some(&0) || sizes.len() != 2 || sizes[1] == 0 || sizes[1] > 4096 {
                println!("viol hpack-size-update the header block after SETTINGS_HEADER_TABLE_SIZE 0 then 4096 starts with the size updates {sizes:?}; RFC 7541 4.2 requires the smallest size of the interval (0) and then the final one");
            }
        }
        "resettings" => {
            p.send(&frame(T_HEADERS, 5, 1, &request_block(false, "/one")));
            let a1 = wait_answer(&mut p, 1, 4);
            std::thread::sleep(Duration::from_millis(500)); // the backend's three extra SETTINGS reach sozu
            p.send(&frame(T_HEADERS, 5, 3, &request_block(false, "/two")));
            let a3 = wait_answer(&mut p, 3, 6);
            std::thread::sleep(Duration::from_millis(300));
            println!("obs resettings first_answer={a1:?} second_answer={a3:?}");
            if a1 != Some(0x88) || a3 != Some(0x88) {
                println!("viol request-lost a request was not answered 200 around the backend's extra SETTINGS ({a1:?}, {a3:?})");
            }
        }
        "mcs0" => {
            p.send(&frame(T_HEADERS, 5, 1, &request_block(false, "/one")));
            let a1 = wait_answer(&mut p, 1, 4);
            std::thread::sleep(Duration::from_millis(500)); // the backend's SETTINGS(MCS=0) reaches sozu and is acknowledged
            p.send(&frame(T_HEADERS, 5, 3, &request_block(false, "/two")));
            let a3 = wait_answer(&mut p, 3, 6);
            println!("obs mcs0 first_answer={a1:?} second_answer={a3:?}");
            if a1 != Some(0x88) || a3 != Some(0x88) {
                println!("viol request-lost a request was not answered 200 around the MAX_CONCURRENT_STREAMS = 0 change ({a1:?}, {a3:?})");
            }
        }
        "shrink" => {
            // upload 200000 bytes respecting sozu's windows toward us
            let body = 200000usize;
            let announced = announced_stream_window(&p);
            let (mut win, mut conn_win) = (announced, 65535i64);
            for f in &p.early {
                if f.t == T_WU && f.sid == 0 && f.payload.len() == 4 {
                    conn_win += u32::from_be_bytes([f.payload[0], f.payload[1], f.payload[2], f.payload[3]]) as i64;
                }
            }
            p.send(&frame(T_HEADERS, 4, 1, &request_block(true, "/shrink")));
            let mut left = body;
            let t0 = Instant::now();
            let mut status = None;
            while status.is_none() && !p.closed && t0.elapsed() < Duration::from_secs(25) {
                while left > 0 && win > 0 && conn_win > 0 {
                    let n = left.min(16384).min(win as usize).min(conn_win as usize);
                    left -= n;
                    win -= n as i64;
                    conn_win -= n as i64;
                    p.send(&frame(T_DATA, (left == 0) as u8, 1, &vec![b's'; n]));
                }
                for f in p.read_until(Duration::from_millis(200), |f| !f.is_empty()) {
                    match f.t {
                        T_WU if f.payload.len() == 4 => {
                            let inc = u32::from_be_bytes([f.payload[0], f.payload[1], f.payload[2], f.payload[3]]) as i64;
                            if f.sid == 0 { conn_win += inc } else if f.sid == 1 { win += inc }
                        }
                        T_HEADERS if f.sid == 1 => status = f.payload.first().copied(),
                        T_RST if f.sid == 1 => status = Some(0),
                        T_GOAWAY => status = Some(1),
                        _ => {}
                    }
                }
            }
            println!("obs shrink body_left={left} status={status:?}");
            if status != Some(0x88) {
                println!("viol transfer-stalled the upload across a SETTINGS shrink did not complete (left {left}, answer {status:?})");
            }
        }
        "burst" => {
            let n: u32 = args.get(2).and_then(|x| x.parse().ok()).unwrap_or(3);
            let mut b = vec![];
            for i in 0..n {
                b.extend(frame(T_HEADERS, 5, 1 + 2 * i, &request_block(false, "/burst")));
            }
            p.send(&b);
            let mut ok = 0;
            let fr = p.read_until(Duration::from_secs(6), |f| f.iter().filter(|x| x.t == T_HEADERS).count() as u32 >= n);
            for i in 0..n {
                if fr.iter().any(|x| x.t == T_HEADERS && x.sid == 1 + 2 * i && x.payload.first() == Some(&0x88)) {
                    ok += 1;
                }
            }
            println!("obs burst answered_200={ok} of {n}");
            if ok < n {
                println!("viol request-lost only {ok} of {n} concurrent requests toward a backend with MAX_CONCURRENT_STREAMS = 1 were answered 200");
            }
        }
        _ => println!("viol bb-infra unknown mode"),
    }
    std::thread::sleep(Duration::from_millis(300));
    drop(tx);
    while let Ok(l) = rx.try_recv() {
        println!("{l}");
    }
    if !w.alive() {
        println!("viol worker-died the worker thread ended");
    }
    println!("obs done");
    std::process::exit(0);
}
