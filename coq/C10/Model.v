(** C10 — executable model of the listener hand-over codec
    ([command/src/scm_socket.rs]: [send_listeners] / [receive_listeners]) and
    of the soft-stop bookkeeping of [Server] ([lib/src/server.rs]:
    [shut_down_sessions], [base_sessions_count]).

    An address is the byte string [SocketAddr::to_string] produces (passed in
    as data; parsing it back is the identity on such strings).  A file
    descriptor is the index of the socket in the sender's table.  Constants
    come from the source through C10/Gen.v.  No proofs here. *)
From Coq Require Import List Arith NArith Lia Bool.
From SV Require Import C10.Gen.
Import ListNotations.

(** protobuf varint *)
Fixpoint varint_f (fuel n : nat) : list N :=
  match fuel with
  | O => []
  | S f => if n <? 128 then [N.of_nat n] else N.of_nat (n mod 128 + 128) :: varint_f f (n / 128)
  end.
Definition varint (n : nat) : list N := varint_f 10 n.

Fixpoint varint_decode (fuel : nat) (l : list N) : option (nat * list N) :=
  match l with
  | [] => None
  | b :: r =>
    if (b <? 128)%N then Some (N.to_nat b, r)
    else match fuel with
         | O => None
         | S f => match varint_decode f r with
                  | Some (v, r') => Some (N.to_nat b - 128 + 128 * v, r')
                  | None => None
                  end
         end
  end.

(** one [repeated string] entry: key (field number, wire type 2), length, bytes *)
Definition field (tag : nat) (s : list N) : list N :=
  [N.of_nat (tag * 8 + 2)] ++ varint (length s) ++ s.

Record listeners (A : Type) := mkl { http : list A; tls : list A; tcp : list A; udp : list A }.
Arguments mkl {A} _ _ _ _.
Arguments http {A} _.
Arguments tls {A} _.
Arguments tcp {A} _.
Arguments udp {A} _.

Definition count {A} (l : listeners A) : nat :=
  length (http l) + length (tls l) + length (tcp l) + length (udp l).

(** [ListenersCount::encode_length_delimited_to_vec] *)
Definition body (l : listeners (list N)) : list N :=
  concat (map (field 1) (http l)) ++ concat (map (field 2) (tls l)) ++
  concat (map (field 3) (tcp l)) ++ concat (map (field 4) (udp l)).
Definition encode (l : listeners (list N)) : list N := varint (length (body l)) ++ body l.

Definition push (tag : nat) (s : list N) (a : listeners (list N)) : listeners (list N) :=
  match tag with
  | 1 => mkl (http a ++ [s]) (tls a) (tcp a) (udp a)
  | 2 => mkl (http a) (tls a ++ [s]) (tcp a) (udp a)
  | 3 => mkl (http a) (tls a) (tcp a ++ [s]) (udp a)
  | _ => mkl (http a) (tls a) (tcp a) (udp a ++ [s])
  end.

(** prost decode of the four string fields (anything else is outside the model: [None]) *)
Fixpoint decode_fields (fuel : nat) (l : list N) (acc : listeners (list N)) : option (listeners (list N)) :=
  match l with
  | [] => Some acc
  | k :: r =>
    match fuel with
    | O => None
    | S f =>
      let tag := N.to_nat k / 8 in
      if (N.to_nat k mod 8 =? 2) && (1 <=? tag) && (tag <=? 4) then
        match varint_decode 10 r with
        | Some (len, r') =>
          if length r' <? len then None
          else decode_fields f (skipn len r') (push tag (firstn len r') acc)
        | None => None
        end
      else None
    end
  end.

Inductive rerr := ESend | EReceive | EDecode | EInconsistent.
Inductive rres (A : Type) := ROk (a : A) | RErr (e : rerr).
Arguments ROk {A} _.
Arguments RErr {A} _.

(** the kernel's SCM_MAX_FD: more descriptors in one message make sendmsg fail *)
Definition scm_max_fd : nat := 253.

Definition pair_up (l : listeners (list N)) (fds : list nat) : listeners (list N * nat) :=
  let h := length (http l) in let t := length (tls l) in let c := length (tcp l) in
  mkl (combine (http l) (firstn h fds))
      (combine (tls l) (firstn t (skipn h fds)))
      (combine (tcp l) (firstn c (skipn (h + t) fds)))
      (combine (udp l) (skipn (h + t + c) fds)).

(** [receive_listeners] on the bytes and descriptors that arrived: the
    message is cut at the receive buffer, at most MAX_FDS_OUT descriptors fit
    the control buffer (a truncated control message is a receive error) *)
Definition receive (msg : list N) (fds : list nat) : rres (listeners (list N * nat)) :=
  if max_fds_out <? length fds then RErr EReceive
  else
    let buf := firstn max_bytes_out msg in
    match varint_decode 10 buf with
    | None => RErr EDecode
    | Some (len, rest) =>
      if length rest <? len then RErr EDecode
      else
        match decode_fields (S len) (firstn len rest) (mkl [] [] [] []) with
        | None => RErr EDecode
        | Some l =>
          if (max_fds_out <? count l) || (length fds <? count l) then RErr EInconsistent
          else ROk (pair_up l fds)
        end
    end.

(** descriptors handed to the caller *)
Definition held_after {A} (r : rres (listeners (A * nat))) : list nat :=
  match r with
  | ROk g => map snd (http g ++ tls g ++ tcp g ++ udp g)
  | RErr _ => []
  end.

(** [receive_listeners] with its descriptor bookkeeping: the result and the
    received descriptors it closed itself — all of them on every error path
    (including more descriptors than a hand-over may carry), the surplus beyond
    the manifest's entries on success *)
Definition receive_acct (msg : list N) (fds : list nat)
  : rres (listeners (list N * nat)) * list nat :=
  match receive msg fds with
  | RErr e => (RErr e, fds)
  | ROk g =>
    (ROk g, skipn (length (http g) + length (tls g) + length (tcp g) + length (udp g)) fds)
  end.

(** [send_listeners] then [receive_listeners] *)
Definition transfer (l : listeners (list N)) : rres (listeners (list N * nat)) :=
  if scm_max_fd <? count l then RErr ESend
  else receive (encode l) (seq 0 (count l)).

(* ------------------------------------------------------------------ *)
(** * fd ownership across a hand-over *)

(** who holds a copy of listener [i]'s socket *)
Record owners := mko { old_w : bool; in_flight : bool; new_w : bool }.

Inductive hstep :=
| HReturn        (* old worker: return_listen_sockets: deregister, send over SCM_RIGHTS, drop its copies *)
| HReceive       (* new worker: receive_listeners *)
| HOldExit       (* old worker exits after its soft stop *)
| HOldCrash.     (* old worker dies at this message boundary *)

Definition hand (o : owners) (s : hstep) : owners :=
  match s with
  | HReturn => if old_w o then mko false true (new_w o) else o     (* SCM_RIGHTS duplicates into the message; return_listen_sockets then drops the worker's own copies *)
  | HReceive => if in_flight o then mko (old_w o) false true else o
  | HOldExit | HOldCrash => mko false (in_flight o) (new_w o)
  end.

Definition alive (o : owners) : bool := old_w o || in_flight o || new_w o.

(* ------------------------------------------------------------------ *)
(** * soft stop ([Server::notify(SoftStop)], [shut_down_sessions]) *)

Record server := mksrv {
  stopping : option nat;      (* Server.shutting_down: the request id to answer *)
  base : nat;                 (* the floor: listener / channel / metrics / timer slots of the slab ([listen_slots]) *)
  sessions : list bool;       (* per session: does shutting_down() say it can close now *)
  accepting : bool;
  answers : list nat          (* WorkerResponse::ok(id) written so far *)
}.

Definition soft_stop (s : server) (id : nat) : server :=
  mksrv (Some id) (base s) (sessions s) false (answers s).

(** one event-loop turn while stopping: close what may close, answer once when at the floor *)
Definition shut_down_sessions (s : server) : server * bool :=
  match stopping s with
  | None => (s, false)
  | Some id =>
    let left := filter negb (sessions s) in
    if length left <=? base s
    then (mksrv None (base s) left (accepting s) (answers s ++ [id]), true)
    else (mksrv (Some id) (base s) left (accepting s) (answers s), false)
  end.

(** sessions make progress between turns: [ready] marks some of them closable *)
Definition progress (s : server) (marks : list bool) : server :=
  mksrv (stopping s) (base s) (map (fun p => fst p || snd p) (combine (sessions s) (marks ++ repeat false (length (sessions s)))))
        (accepting s) (answers s).

Fixpoint turns (s : server) (sched : list (list bool)) : server * bool :=
  match sched with
  | [] => (s, false)
  | m :: rest =>
    let '(s', done) := shut_down_sessions (progress s m) in
    if done then (s', true) else turns s' rest
  end.

(* ------------------------------------------------------------------ *)
(** * the floor of the soft stop, counted from the slab ([listen_slots]) *)

(** the slab as [shut_down_sessions] sees it: per entry the protocol (position in [enum Protocol]) and whether
    [shutting_down()] says the session can be closed now *)
Definition slab := list (nat * bool).
Definition is_permanent (e : nat * bool) : bool := existsb (Nat.eqb (fst e)) permanent_protocols.
Definition is_client (e : nat * bool) : bool := existsb (Nat.eqb (fst e)) client_protocols.
Definition stays (e : nat * bool) : bool := negb (snd e).
(** [listen_slots]: counted from the slab after the closable sessions were closed *)
Definition listen_slots (sl : slab) : nat := length (filter is_permanent sl).
(** one turn of a stopping server over a slab: the floor is recomputed from what is left *)
Definition slab_turn (sl : slab) (id : nat) (ans : list nat) : server * bool :=
  shut_down_sessions (mksrv (Some id) (listen_slots (filter stays sl)) (map snd sl) false ans).

(* ------------------------------------------------------------------ *)
(** * the source's call order (C10/Gen.v: [return_steps], [shutdown_steps]), interpreted *)

(** [Server::return_listen_sockets], step by step, on the holders of one listening socket *)
Definition ret_step (st : owners * bool) (c : nat) : owners * bool :=
  let '(o, built) := st in
  match c with
  | 5 => (o, true)                                                  (* manifest from borrowed descriptors *)
  | 6 => if old_w o && built then (mko (old_w o) true (new_w o), built) else st   (* only open descriptors can be sent *)
  | 7 | 9 => (mko false (in_flight o) (new_w o), built)              (* the worker's copies closed *)
  | _ => st                                                          (* 1-4: taken out of the proxies, still held *)
  end.

Definition run_return (steps : list nat) (o : owners) : owners :=
  fst (fold_left ret_step steps (o, false)).

(** [Server::shut_down_sessions], step by step *)
Record sdst := mksd { sd_srv : server; sd_n : nat; sd_go : bool; sd_id : option nat; sd_ok : option nat; sd_done : bool }.

Definition sd_step (st : sdst) (c : nat) : sdst :=
  if negb (sd_go st) then st
  else
    let s := sd_srv st in
    match c with
    | 2 => mksd (mksrv (stopping s) (base s) (filter negb (sessions s)) (accepting s) (answers s))
                (sd_n st) true (sd_id st) (sd_ok st) (sd_done st)
    | 3 => mksd s (length (sessions s)) true (sd_id st) (sd_ok st) (sd_done st)
    | 4 => mksd s (sd_n st) (sd_n st <=? base s) (sd_id st) (sd_ok st) (sd_done st)
    | 5 => mksd (mksrv None (base s) (sessions s) (accepting s) (answers s)) (sd_n st) true (stopping s) (sd_ok st) (sd_done st)
    | 6 => mksd s (sd_n st) true (sd_id st) (sd_id st) (sd_done st)
    | 7 => mksd (mksrv (stopping s) (base s) (sessions s) (accepting s)
                       (answers s ++ match sd_ok st with Some i => [i] | None => [] end))
                (sd_n st) true (sd_id st) (sd_ok st) (sd_done st)
    | 8 => mksd s (sd_n st) true (sd_id st) (sd_ok st) true
    | _ => st
    end.

Definition run_shutdown (steps : list nat) (s : server) : server * bool :=
  match stopping s with
  | None => (s, false)
  | Some _ =>
    let st := fold_left sd_step steps (mksd s 0 true None None false) in
    (sd_srv st, sd_done st)
  end.

(* ------------------------------------------------------------------ *)
(** * which HTTP/2 sessions a soft stop may close ([Mux::shutting_down], [Stream::is_quiesced]) *)

(** one direction of a stream: the phase of its kawa parser (0 initial,
    1 running, 2 completed, 3 terminated) and the bytes still held in its
    storage toward the peer *)
Record sdir := mkdir { ph : nat; held : nat }.

Inductive sstate := SIdle | SLinked | SUnlinked | SRecycle.
Record h2stream := mkstr { hstate : sstate; sfront : sdir; sback : sdir }.

(** [Stream::is_quiesced], from the generated conjuncts *)
Definition dir_ok (shape : list nat * bool) (d : sdir) : bool :=
  existsb (Nat.eqb (ph d)) (fst shape) && (negb (snd shape) || (held d =? 0)).

Definition is_quiesced (s : h2stream) : bool :=
  if quiesced_both then dir_ok quiesced_front (sfront s) && dir_ok quiesced_back (sback s)
  else dir_ok quiesced_front (sfront s) || dir_ok quiesced_back (sback s).

(** the rule: a stream lets the soft stop close its session only if both
    directions are over (never started, completed, or terminated) AND nothing
    of it is still buffered toward either peer *)
Definition phase_over (d : sdir) : bool := (ph d =? 0) || (ph d =? 2) || (ph d =? 3).
Definition quiesced_spec (s : h2stream) : bool :=
  phase_over (sfront s) && phase_over (sback s) && (held (sfront s) =? 0) && (held (sback s) =? 0).

(** the scan of [Mux::shutting_down]: a stream linked to a backend keeps the
    session, an unlinked one keeps it unless quiesced; a pending write on the
    frontend keeps it too *)
Definition stream_lets_stop (s : h2stream) : bool :=
  match hstate s with
  | SLinked => false
  | SUnlinked => is_quiesced s
  | _ => true
  end.

Definition mux_can_stop (ss : list h2stream) (pending_write : bool) : bool :=
  forallb stream_lets_stop ss && negb pending_write.
